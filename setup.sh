#!/bin/sh
# Offline setup: nothing to download. Warms the driver build cache so that the first quick check
# does not pay for compilation (every check rebuilds by itself when /repo/include changes).
cd "$(dirname "$0")"
mkdir -p .cache out evidence
python3 tools/warm.py || true
exit 0
