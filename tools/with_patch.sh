#!/bin/sh
# tools/with_patch.sh [-R] <patch|commit> -- <command...>
# Runs <command> with VERIF_REPO pointing to a scratch copy of /repo's tracked files with the patch
# (or the reverse of it with -R; a commit id means that commit's diff) applied. Scratch is removed afterwards.
HERE="$(dirname "$(readlink -f "$0")")"
REV=""
if [ "$1" = "-R" ]; then REV="-R"; shift; fi
P="$1"; case "$P" in /*) ;; *) [ -f "$P" ] && P="$(pwd)/$P";; esac; shift; shift
S=$(mktemp -d /tmp/mrepo.XXXXXX)
mkdir -p "$S" && git -C /repo archive HEAD include tests | tar -x -C "$S"
cd "$S" && git init -q . >/dev/null 2>&1
if [ -f "$P" ]; then git apply $REV "$P" || { echo "patch failed"; rm -rf "$S"; exit 3; }
else git -C /repo show "$P" | git apply $REV || { echo "patch failed"; rm -rf "$S"; exit 3; }; fi
cd "$HERE/.." && VERIF_REPO="$S" VERIF_OUT="$S/vout" "$@"
rc=$?
rm -rf "$S"
exit $rc
