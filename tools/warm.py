#!/usr/bin/env python3
"""Compile all drivers (in parallel) into the build cache."""
import concurrent.futures
import os
import sys
ROOT = os.path.dirname(os.path.dirname(os.path.abspath(__file__)))
sys.path.insert(0, os.path.join(ROOT, "lib"))
sys.path.insert(0, os.path.join(ROOT, "checks"))
import vt
import importlib
jobs = []
for f in sorted(os.listdir(os.path.join(ROOT, "checks"))):
    if f.startswith("C") and f.endswith(".py"):
        m = importlib.import_module(f[:-3])
        for b in getattr(m, "BUILDS", []):
            jobs.append(b)
def go(b):
    try:
        vt.build(*b[0], **b[1])
        return None
    except Exception as e:
        return str(e)[:500]
with concurrent.futures.ThreadPoolExecutor(max_workers=12) as ex:
    for r in ex.map(go, jobs):
        if r:
            print("warm: ", r, file=sys.stderr)
