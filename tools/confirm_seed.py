#!/usr/bin/env python3
"""tools/confirm_seed.py <ID> <A|B>: confirm a seeded change produced by a sub-agent in its scratch
worktree /tmp/mut/<ID> (compiles, the 19 pinned tests pass, demo exits 0 without and !=0 with the
change) and, if confirmed, keep it as /verif/seeded/<ID>-<letter>/ {patch.diff, demo.cpp, NOTES.md, meta.json}."""
import json, os, shutil, subprocess, sys, time
pid, letter = sys.argv[1], sys.argv[2]
BASE = os.environ.get("MUT_BASE", "/tmp/mut")
NAME = os.environ.get("MUT_NAME", letter)   # name under which the change is kept
wt = "%s/%s" % (BASE, pid)
out = "%s/out_%s" % (BASE, pid)
patch = os.path.join(out, letter + ".diff")
demo = os.path.join(out, "demo_%s.cpp" % letter)
def sh(cmd, cwd=None, timeout=1800):
    r = subprocess.run(cmd, shell=True, cwd=cwd, stdout=subprocess.PIPE, stderr=subprocess.STDOUT, text=True, timeout=timeout)
    return r.returncode, r.stdout
def demo_run(tag):
    src = open(demo).read()
    mpi = "mpi.h" in src or "mc-mpi" in src
    exe = "%s/demo_%s_%s_%s" % (BASE, pid, letter, tag)
    cc = "mpicxx" if mpi else "g++"
    rc, o = sh("%s -std=c++11 -O1 -pthread -I%s/include %s -o %s" % (cc, wt, demo, exe))
    if rc != 0:
        return "compile-failed", o[-800:]
    codes = []
    if mpi:
        for n in [int(x) for x in os.environ.get("MUT_NP", "2,3").split(",")]:
            rc, o = sh("timeout 300 mpirun --allow-run-as-root --oversubscribe -np %d %s" % (n, exe))
            codes.append(rc)
    else:
        rc, o = sh("timeout 600 %s" % exe)
        codes.append(rc)
    os.remove(exe)
    return codes, o[-600:]
sh("git checkout -- . && rm -rf _build", cwd=wt)
meta = {"property": pid, "change": NAME, "round": 14 if BASE.endswith("mut14") else 13 if BASE.endswith("mut13") else 12 if BASE.endswith("mut12") else 11 if BASE.endswith("mut11") else 10 if BASE.endswith("mut10") else 9 if BASE.endswith("mut9") else 8 if BASE.endswith("mut8") else 7 if BASE.endswith("mut7") else 6 if BASE.endswith("mut6") else 5 if BASE.endswith("mut5") else 4 if BASE.endswith("mut4") else 3 if BASE.endswith("mut3") else (2 if BASE.endswith("mut2") else 1), "confirmed_at": time.strftime("%Y-%m-%dT%H:%M:%S")}
meta["demo_without_change"] = demo_run("clean")[0]
rc, o = sh("git apply %s" % patch, cwd=wt)
if rc != 0:
    print("patch does not apply", o); sys.exit(1)
rc, o = sh("meson setup _build >/dev/null && meson compile -j6 -C _build >/dev/null 2>&1; meson test -C _build 2>&1 | grep -E '^(Ok|Fail|Timeout):'", cwd=wt)
meta["tests_with_change"] = " ".join(o.split())
meta["demo_with_change"], tail = demo_run("mut")
sh("git checkout -- . && rm -rf _build", cwd=wt)
ok = ("Ok: 19" in meta["tests_with_change"] and "Fail: 0" in meta["tests_with_change"]
      and isinstance(meta["demo_without_change"], list) and all(c == 0 for c in meta["demo_without_change"])
      and isinstance(meta["demo_with_change"], list) and any(c != 0 for c in meta["demo_with_change"]))
meta["confirmed"] = ok
meta["ran"] = ["git apply patch.diff (scratch worktree)", "meson setup/compile/test: " + meta["tests_with_change"],
               "demo without change -> %s, with change -> %s" % (meta["demo_without_change"], meta["demo_with_change"])]
print(json.dumps(meta, indent=1))
if ok:
    d = "/verif/seeded/%s-%s" % (pid, NAME)
    os.makedirs(d, exist_ok=True)
    shutil.copy(patch, os.path.join(d, "patch.diff"))
    shutil.copy(demo, os.path.join(d, "demo.cpp"))
    shutil.copy(os.path.join(out, "NOTES.md"), os.path.join(d, "NOTES.md"))
    json.dump(meta, open(os.path.join(d, "meta.json"), "w"), indent=1)
