#!/usr/bin/env python3
"""tools/run_matrix.py [seeded|benign|prefix] : run the checks against every kept seeded change (its own property's check plus
the cross checks listed below), against every benign refactoring (all 20 checks must stay silent) and against every reverted fix.
Writes seeded/RESULTS.md.  Uses scratch copies of /repo (tools/with_patch.sh); evidence of the real tree is not touched."""
import concurrent.futures
import json
import os
import subprocess
import sys
ROOT = os.path.dirname(os.path.dirname(os.path.abspath(__file__)))
ALL = ["C%02d" % i for i in range(1, 21)]
CROSS = {"C01-C": ["C08"], "C08-C": ["C02", "C06"], "C16-C": ["C04"], "C05-C": ["C19", "C15"], "C07-C": ["C19"], "C11-C": ["C06"], "C17-D": ["C02"], "C03-C": ["C12"], "C01-A": ["C07"], "C01-B": ["C08"], "C02-B": ["C06"], "C03-B": ["C05"], "C04-A": ["C10"], "C04-B": ["C12", "C20"], "C10-B": ["C04"],
         "C12-B": ["C04", "C20"], "C16-A": ["C04"], "C19-B": ["C04"], "C19-D": ["C04"], "C20-A": ["C12", "C04"],
         # round 3 (E = first, F = second change of the round)
         "C01-E": ["C08"], "C01-F": ["C08"], "C12-E": ["C13"], "C17-F": ["C09"], "C04-E": ["C10"], "C03-F": ["C04"], "C08-F": ["C04"], "C11-F": ["C04"],
         "C14-F": ["C04"], "C19-E": ["C01"], "C18-F": ["C20"],
         # round 4 (G, H)
         "C07-G": ["C01"], "C06-H": ["C04"], "C02-G": ["C04"], "C12-G": ["C13"], "C13-H": ["C12"], "C19-H": ["C07"], "C03-H": ["C12"],
         # round 5 (I, J)
         "C04-J": ["C19"], "C10-I": ["C04", "C16"], "C16-J": ["C04", "C10"], "C04-I": ["C10", "C16"], "C12-I": ["C13"], "C07-I": ["C19"],
         # round 6 (K, L)
         "C01-K": ["C17"], "C02-K": ["C06", "C17"], "C02-L": ["C10", "C17"], "C16-L": ["C04"], "C04-K": ["C10", "C16"], "C19-K": ["C04"],
         # round 7 (M, N)
         "C08-N": ["C02", "C06"], "C08-M": ["C19"], "C07-N": ["C19"], "C17-N": ["C19"], "C12-M": ["C13"], "C16-M": ["C04", "C10"],
         # round 8 (O, P)
         "C02-O": ["C06"], "C19-P": ["C04"], "C10-P": ["C04", "C16"], "C16-P": ["C04"], "C04-P": ["C10"], "C08-O": ["C02", "C06"], "C12-P": ["C13"],
         # round 9 (Q, R)
         "C01-R": ["C04", "C10"], "C05-Q": ["C03"], "C03-Q": ["C05"], "C12-Q": ["C20"], "C20-R": ["C18"],
         # round 10 (S, T)
         "C01-T": ["C10"], "C11-S": ["C13"], "C12-S": ["C13"], "C16-S": ["C04", "C10"], "C15-S": ["C19"], "C19-S": ["C15"],
         # round 11 (U, V)
         "C07-V": ["C04", "C19"], "C09-U": ["C08", "C01"], "C09-V": ["C08", "C01"], "C16-V": ["C04", "C10"], "C01-V": ["C08"],
         # round 12 (W, X)
         "C08-X": ["C15", "C19"],
         # round 13 (Y, Z)
         "C08-Y": ["C19", "C15"], "C17-Y": ["C09"], "C17-Z": ["C07"], "C07-Z": ["C04"], "C19-Z": ["C05"], "C15-Z": ["C05"], "C03-Y": ["C04", "C10"],
         # round 14 (a, b; eight properties)
         "C03-a": ["C12"], "C03-b": ["C20"], "C17-a": ["C04"], "C17-b": ["C04"], "C13-a": ["C04"]}
THOROUGH_ONLY = {("C16-B", "C16"), ("C16-D", "C16"), ("C02-P", "C02")}   # C02-P: the NDEBUG build of the MPI leg
# kept with meta.json "expected": "not detected" (BUILD_REPORT.md, rounds 7, 8, 10, 11, 12; C06-T, C06-U and C06-W repeat C06-N; C04-X = C16-W needs a grid whose
# dimension differs from the integrand's, which the library's own assert rejects; C19-X only changes which rounding of 1/n the uniform default uses; C20-X leaves the
# returned checkpoints identical and only delays the file of one mode - the growth pass of Trace_C20 prints a NOTE)
# round 13: C08-Z / C19-Y cache the weights / the grid across the callback as the MPI drivers of the unchanged library do (visible only to a callback that
# modifies the checkpoint it is handed, which the documentation does not offer); C09-Y moves the boundaries of equal weights by at most one ulp (onto k/n)
NOT_EXPECTED = {"C06-N", "C09-N", "C09-P", "C06-T", "C06-U", "C06-W", "C04-X", "C16-W", "C19-X", "C20-X", "C08-Z", "C19-Y", "C09-Y",
                # round 14: C03-b is the twin of C20-X; C18-b needs two file-writing callbacks running concurrently in two threads of one process
                "C03-b", "C18-b"}
# C19-E / C19-F change the refinement functions themselves (the subject of C08 / C07),
# which C19 takes as given (it checks that each iteration uses the refinement of the previous result)
OWN_BY_OTHER = {"C19-E": "C08", "C19-F": "C07", "C02-H": "C14", "C19-N": "C08", "C04-N": "C12", "C20-M": "C18",
                # C01-T: the discards of mpi_multi_channel (C04's subject); C09-S / C09-T: the refinement re-enables a disabled channel resp. produces NaN weights (C08's subject)
                "C01-T": "C04", "C09-S": "C08", "C09-T": "C08",
                # C01-X: the MPI datatype of long double (C04); C08-X: precision of a zero-result checkpoint's text (C05); C11-X: a compensation slot shared between bins (C14)
                "C01-X": "C04", "C08-X": "C05", "C11-X": "C14",
                # round 13: C02-Y / C02-Z: NaN densities (C06's subject); C08-Y = C08-X; C07-Y: a non-finite value reaches the adjustment data (C06)
                "C02-Y": "C06", "C02-Z": "C06", "C08-Y": "C05", "C07-Y": "C06",
                }   # C02-H: a compensation slot shared with the integral (C14's subject)
PREFIX = {"5240915": ["C15"], "ac56e79": ["C15"], "bb5946d": ["C12"], "08987f4": ["C09"], "47037e0": ["C07"], "dfee5c7": ["C08"],
          "84d9fba": ["C05", "C03"], "4d363c6": ["C18"], "d91dcdf": ["C11"], "1c25063": ["C07"], "7c3b427": ["C05", "C03"]}


def run(patch, check, reverse=False, tier="quick"):
    cmd = [os.path.join(ROOT, "tools", "with_patch.sh")] + (["-R"] if reverse else []) + [patch, "--", "./check", check, "--tier", tier]
    r = subprocess.run(cmd, stdout=subprocess.PIPE, stderr=subprocess.STDOUT, text=True, cwd=ROOT)
    v = "VIOLATION" if "VIOLATION property=" in r.stdout else ("ok" if r.returncode == 0 else "machinery(%d)" % r.returncode)
    what = next((l.strip()[:160] for l in r.stdout.splitlines() if l.strip().startswith("what:")), "")
    return v, what


def main():
    which = sys.argv[1:] or ["seeded", "benign", "prefix"]
    jobs = []
    if "seeded" in which:
        for d in sorted(os.listdir(os.path.join(ROOT, "seeded"))):
            p = os.path.join(ROOT, "seeded", d, "patch.diff")
            if not os.path.exists(p):
                continue
            own = OWN_BY_OTHER.get(d, d[:3])
            for c in [own] + [x for x in CROSS.get(d, []) if x != own]:
                jobs.append(("seeded", d, c, p, False, "thorough" if (d, c) in THOROUGH_ONLY else "quick"))
    if "benign" in which:
        bd = os.path.join(ROOT, "seeded", "benign")
        for f in sorted(os.listdir(bd)):
            if f.endswith(".diff"):
                for c in ALL:
                    jobs.append(("benign", f[:-5], c, os.path.join(bd, f), False, "quick"))
    if "prefix" in which:
        for commit, checks in PREFIX.items():
            for c in checks:
                jobs.append(("prefix", commit, c, commit, True, "quick"))
    # optional restriction (rows that are not re-run are kept from the last record): MATRIX_ONLY_CHECKS=C01,C04 and / or MATRIX_ONLY_CHANGES=<regex>
    import re
    only_checks = set(filter(None, os.environ.get("MATRIX_ONLY_CHECKS", "").split(",")))
    only_changes = os.environ.get("MATRIX_ONLY_CHANGES", "")
    restricted = bool(only_checks or only_changes)
    if restricted:
        jobs = [j for j in jobs if j[2] in only_checks or (only_changes and re.search(only_changes, j[1]))]
    print("jobs:", len(jobs), flush=True)
    results = []
    with concurrent.futures.ThreadPoolExecutor(max_workers=int(os.environ.get("MATRIX_WORKERS", "7"))) as ex:
        futs = {ex.submit(run, j[3], j[2], j[4], j[5]): j for j in jobs}
        for f in concurrent.futures.as_completed(futs):
            j = futs[f]
            v, what = f.result()
            results.append((j[0], j[1], j[2], j[5], v, what))
            print(j[0], j[1], j[2], v, flush=True)
    results = [r for r in results if not (r[0] == "seeded" and r[1] in NOT_EXPECTED and r[4] == "ok")] + \
              [(r[0], r[1], r[2], r[3], "ok (expected: not detected)", r[5]) for r in results if r[0] == "seeded" and r[1] in NOT_EXPECTED and r[4] == "ok"]
    results.sort()
    rerun = {(r[0], r[1], r[2]) for r in results}
    path = os.path.join(ROOT, "seeded", "RESULTS.md")
    old = open(path).read() if os.path.exists(path) else ""
    # rows of the kinds that were not run this time are kept from the last record
    for line in old.splitlines():
        cells = [c.strip() for c in line.strip().strip("|").split("|")]
        if len(cells) == 6 and cells[0] in ("seeded", "benign", "prefix") and (cells[0] not in which or (restricted and (cells[0], cells[1], cells[2]) not in rerun)):
            results.append(tuple(cells))
    results.sort()
    with open(path, "w") as f:
        f.write("# Checks run against seeded changes, benign refactorings and reverted fixes\n\n"
                "Produced by tools/run_matrix.py (each row: a scratch copy of /repo with the change applied, `./check <ID>`).\n"
                "Expected: every seeded change and reverted fix -> VIOLATION by its own check; every benign refactoring -> ok for all 20 checks.\n\n"
                "| kind | change | check | tier | verdict | first rejected event |\n|---|---|---|---|---|---|\n")
        for r in results:
            f.write("| %s | %s | %s | %s | %s | %s |\n" % (r[0], r[1], r[2], r[3], r[4], r[5].replace("|", "/")))
    bad = [r for r in results if r[1] not in NOT_EXPECTED and (r[0] in ("seeded", "prefix") and r[2] == OWN_BY_OTHER.get(r[1], r[1][:3] if r[0] == "seeded" else r[2]) and r[4] != "VIOLATION")
           or (r[0] == "benign" and r[4] != "ok")]
    print("unexpected:", bad)


if __name__ == "__main__":
    main()
