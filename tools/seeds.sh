#!/bin/sh
# tools/seeds.sh "<ids>" "<seeds>" : run quick checks for several seeds, print failures only
for id in $1; do for s in $2; do
  out=$(VERIF_SEED=$s ./check $id 2>&1); rc=$?
  if [ $rc -ne 0 ]; then echo "== $id seed=$s rc=$rc"; echo "$out" | cut -c1-400 | tail -4; fi
done; done; echo "seeds done: $1 / $2"
