#!/usr/bin/env python3
"""Writes MANIFEST.json from the table below (single source of truth for the interface)."""
import json
import os
ROOT = os.path.dirname(os.path.dirname(os.path.abspath(__file__)))

# id -> (category, technique, level text, level note, design ref)
CHECKS = {
 "C16": ("model_checking", "TLA+ spec Split.tla: TLC exhaustive (t<=200,w<=40) + Apalache for unbounded integers; trace validation (Trace_C16) of the shares observed from mpi_plain/mpi_vegas/mpi_multi_channel under a thread-based MPI shim and of discard_before/discard_after up to 2^40; engines with odd ranges that publish their stream position (cost per number measured, not asked from the library)",
         "The tiling formulas are proved for unbounded integers (Apalache/Z3) and checked exhaustively for small values (TLC); the implementation is bound to the property-level state machine ShareOK by TLC validating every share the real integrators took (which stream position the first point of each rank came from, how many points, where the generator ended).",
         "TLC, Apalache+Z3, the MPI shim (threads as ranks), position-revealing counter engine", "5/C16"),
 "C09": ("model_checking", "TLA+ spec Select.tla: TLC theorems (unique enabled owner, P(i)=w_i on the full lattice, as-coded pick = owner); the ownership laws for unbounded weights by Apalache (Select_apa); trace validation (Trace_C09) of every selection made by hep::discrete_distribution and by hep::multi_channel (channel seen by map and integrand, enabled list) under a scripted engine at 0, 1-ulp, all cumulative boundaries and neighbours; the weights every result records sum to one (McNorm)",
         "Admissible(w,u) is the property; TLC evaluates it on every recorded selection (three numeric types, unnormalised weights, totals up to 100, raw generator extremes) and on full-lattice counts.",
         "TLC; Apalache+Z3; script_engine -> canonical number j/2^24 exactly (libstdc++ generate_canonical); boundary tolerance of one 2^-24 lattice step", "5/C09"),
 "C08": ("model_checking", "TLA+ spec Refine.tla (weights): TLC proves WeightsOK(RefineW) on the bounded rational model; trace validation (Trace_C08) compares multi_channel_refine_weights / checkpoint normalisation with the spec's exact rationals and checks the invariants on random cases and on every iteration of real multi-channel runs",
         "Exact rational oracle in TLA+ for beta in {1,1/2,1/4} (perfect powers, power-of-two data scaling); invariants (probability vector, never re-enabled, floor, unchanged on no information) for arbitrary beta/data/min and along real runs.",
         "TLC; libm pow exact on perfect powers; floor(v*2^20) projection with 2 units tolerance; proportionality for irrational powers not checked beyond invariants", "5/C08"),
 "C07": ("model_checking", "TLA+ spec Refine.tla (grid): TLC proves GridRefineOK(Walk) and the inverse-CDF laws on the bounded rational model; trace validation (Trace_C07) of vegas_refine_pdf / vegas_icdf / default grids / real runs: exact share law for alpha=0 dyadic cases, validity + driver-evaluated shares for general alpha, unchanged grid on no data; the shared MPI leg (Trace_C04) for the grid that mpi_vegas refines on its own",
         "The share law F(new_j) = j/B is evaluated by TLC in integers on every alpha=0 case (grids over k/8, data {0..3}^B); for alpha != 0 the damped importance is evaluated by the driver in long double and TLC checks the reported deviation, validity and no-information clauses on chains of up to 200 refinements and real adaptive runs.",
         "TLC; long double evaluation of ((r-1)/ln r)^alpha in the driver for the general-alpha share clause; floor(x*2^16) projection", "5/C07"),
 "C11": ("model_checking", "TLA+ spec Bins.tla: TLC theorems on BinOf (half-open owner admissible, edges admit the two neighbours, outside/non-finite -> no bin, flat order = mid-point order); trace validation (Trace_C11): single fills on a quarter-bin lattice incl. +-inf/NaN/1e30 for 1-d and 2-d binnings and three scalings, and whole PLAIN/VEGAS/multi-channel iterations with three distributions recomputed fill by fill (the spec branches on edge fills); Layout.tla (flat storage of several distributions: no aliasing, reads own fills; for unbounded bin counts by Apalache, Layout_apa); bins of combined iterations = combination of the bins",
         "Every observed fill must land in a bin BinOf admits (or nowhere), every bin must report exactly the sums of the values the spec routed to it times 1/area and the iteration's full call count.",
         "TLC; dyadic parameters/coordinates make the library arithmetic exact; 'separate integration with the indicator function' is represented by recomputing each bin from the recorded fills", "5/C11"),
 "C02": ("model_checking", "TLA+ spec Call.tla (call state machine with accumulator): TLC explores all small iterations (MC_Call); trace validation (Trace_Call) of real PLAIN/VEGAS/multi-channel iterations: one event per draw / map call / integrand entry / exit, the spec recomputes calls, non_zero, finite, sum, sumsq and adjustment data exactly and compares with the reported result",
         "Inputs are constructed so that every f*w is a small dyadic number: sums are identical under any summation order, so only a semantic change can cause a mismatch. Exactly-N evaluations follows from the number of IntEnd events the machine consumed.",
         "TLC; exactness by construction (integer integrand values, dyadic grids / densities); derived value/variance/error checked by the driver in long double with a conditioning-scaled 8 eps tolerance", "5/C02"),
 "C06": ("model_checking", "TLA+ spec Call.tla + MC_Call invariant NonFiniteIsZero (shadow accumulator with poisoned evaluations zeroed, all small iterations); two-lane trace validation (Trace_C06): poisoned run vs. the same run returning zero, 4 adaptive iterations, all ids of sums / bins / adjustment data / next grid or weights equal, nz differs by the poison count",
         "Non-interference stated as lane equality and checked by TLC on every iteration of real adaptive runs; poison from the integrand, from values handed to 1-d/2-d distributions and from an infinite weight.",
         "TLC; same mt19937 seed in both lanes (C10 guarantees equal consumption); hexfloat interning", "5/C06"),
 "C10": ("model_checking", "TLA+ spec Call.tla (Draw: PerCall = (d | d+1) * Usage(digits, floor log2 range)); MC_Call invariant FixedConsumption; trace validation (Trace_Call) with a counting engine wrapper over 9 standard and 9 synthetic odd-range engines x 3 numeric types x 3 integrators: raw draws before every call, nothing after the last, stored generator = discard(calls * usage), predictor = measured cost",
         "Every Draw event must carry exactly the spec's per-call amount independent of value, channel, weight request or non-finite results.",
         "TLC; counting<E> wrapper; libstdc++'s generate_canonical", "5/C10"),
 "C17": ("model_checking", "TLA+ spec Call.tla (phase machine Draw -> MapCoord -> MapCoordDone -> IntBegin -> [WeightReq][MapDens] -> IntEnd [MapDens]); TLC explores all single/multi-call behaviours (MC_Call: DensOnlyWhenNeeded, DensWhenNeeded); trace validation (Trace_Call) of instrumented map / integrand events incl. channel, enabled list, random-number id, buffer addresses and checksums, unit-interval classes, bins",
         "The recorded event sequence of every call must be a path of the protocol machine; densities only when needed and with untouched buffers.",
         "TLC; instrumented functors; interned addresses / hexfloat checksums", "5/C17"),
 "C03": ("model_checking", "TLA+ spec Session.tla (checkpoint object over uninterpreted terms; ChkOf = checkpoint of the uninterrupted run): TLC explores all histories of iterate / return+begin / save+load / rollback (MC_Session: ChkIsUninterrupted); trace validation (Trace_Session): all 2^(n-1) compositions x memory / text / callback-file transports on the real integrators, checkpoint text after every iteration must be a function of the calls done so far; early stop by target precision must not depend on interruptions",
         "Byte-identity of checkpoint texts (interned) for equal histories; the first iteration that diverges is the event TLC rejects.",
         "TLC; interning of texts; the uninterrupted run is only required to be reproducible - its correctness is C02 / C19", "5/C03"),
 "C15": ("model_checking", "TLA+ spec Session.tla (RolledBack as coded vs ChkOf): TLC explores all histories incl. rollback(k), k in 0..n+1 (MC_Session); trace validation (Trace_Session, action TRollback): run(n); [reload]; rollback(k); [reload]; resume, the text and next state after rollback(k) must be those of the run that stopped after k, k > n must throw and change nothing",
         "Same binding as C03: checkpoint text and next sampling state are functions of the surviving iterations.",
         "TLC; interning of texts and states", "5/C15"),
 "C19": ("model_checking", "TLA+ spec Session.tla (StateAfter / NextState threading): MC_Session invariant ChkIsUninterrupted includes the state the next iteration uses; trace validation (Trace_Session): per iteration recorded state = state bound to the history so far (first: user grid / normalised weights / uniform), points consistent with it (usedOk), checkpoint's next state = library refinement of the recorded state and data; uninterrupted, resumed, reloaded, rolled-back runs",
         "State ids are bit-exact (hexfloat) so 'exactly' is checked literally. MPI leg is checked with C04's driver.",
         "TLC; usedOk reconstruction tolerance 8-16 eps; library refinement functions used as the definition of 'refinement' (their correctness is C07 / C08)", "5/C19"),
 "C12": ("model_checking", "TLA+ spec Loop.tla (per-rank loop machine: calls of an iteration, exactly one callback with exactly the results so far, stop iff false, Continue() for the built-in callback) explored by TLC (MC_Loop, MC_Session) and, for one rank with any plan, by an inductive invariant discharged by Apalache (Loop_apa); trace validation (Trace_C12) of every integrand call / callback / return of serial and shim-MPI runs with scripted and built-in callbacks",
         "Interleaving of integrand calls and callbacks is part of the trace, so 'exactly once after each iteration' and 'immediately' are checked; the built-in callback's answer must equal Continue(target > 0, class of the combined relative error).",
         "TLC; MPI shim; the relative-error class is computed by the driver with the library's accumulate<weighted_with_variance>", "5/C12"),
 "C20": ("model_checking", "TLA+ spec Session.tla: self-composition invariant ModeNonInterference (MC_Session); four-lane trace validation (Trace_C20): each run executed in the four callback modes, per-iteration checkpoint texts, stop decisions, returned checkpoint, exit status, bytes printed per rank and the written file compared by TLC",
         "Equality across lanes is byte equality of checkpoint texts; summary printing is exercised on every channel-count / weight pattern incl. disabled and minimal channels, zero / constant / non-finite integrands.",
         "TLC; MPI shim; stdout capture; ASan not used (exceptions and aborts are caught as rejected traces)", "5/C20"),
 "C05": ("model_checking", "TLA+ spec Format.tla (writers / readers of the checkpoint text over token streams, transcribed from the serialize members and stream constructors): TLC proves Read(Write(c)) = c on 369 abstract checkpoints (MC_Format); trace validation (Trace_C05): token shape of every real checkpoint text = shape of the spec's writer for the same structure, stream good, all fields and generators bit-equal after reading back",
         "Structure (field order, name line, counts, conditional first grid / weights, separators) is decided by the specification; bit fidelity of the numeric fields is checked by the driver over value classes for three numeric types and 9 engines.",
         "TLC; decimal conversion (max_digits10 + operator>>) is checked, not derived; engine operator==", "5/C05"),
 "C18": ("fault_enumeration", "TLA+ spec FileSys.tla (file contents under open / write / rename with a kill possible in every state and inside every write): TLC shows tmp+rename keeps FileCompleteOrAbsent and the direct protocol violates it (MC_FileSys); an inductive invariant of the protocol for any number of iterations and any text sizes discharged by Apalache (FileSys_apa); the real system-call log of the built-in callback (LD_PRELOAD interposer) is validated against the spec (Trace_C18) and drives the enumeration of kill points: every call x before/after x byte prefixes, each followed by classification of the file on disk against reference texts and a resumed run",
         "Crash points are enumerated from the observed protocol, not sampled; each killed execution is one trace TLC validates: the spec predicts what must be on disk and requires the resumed run to end byte-identically to the uninterrupted one.",
         "TLC; Apalache+Z3; LD_PRELOAD interposer (process kill via _exit; power loss / fsync out of scope; close() inside libc is not observed); reference texts from an uninterrupted run", "5/C18"),
 "C04": ("model_checking", "TLA+ spec Mpi.tla (ranks with program counters, two collectives per iteration with arrival sets, split from Split.tla): TLC explores all interleavings for P <= 3 and plans incl. N = 0, N < P, remainders (invariants Disjoint, Covers, SamePosition, ReducedIsSerial; deadlock check on; the 'skip second collective' alternative deadlocks); trace validation (Trace_C04) of mpi_plain / mpi_vegas / mpi_multi_channel under a thread-based MPI shim for world sizes 1..33 against the serial run: stream position of every evaluated point, collective signatures, counters, stored generator, sums, stop decisions, returned checkpoints; Layout.tla for the packed reduction buffer",
         "Which rank evaluates which stream position is decided by Split.tla inside the per-rank trace machines; equality with the serial run is exact where the inputs are exact (integer integrand values, dyadic weights) and 'up to reassociation' (1 unit of 2^-6) otherwise.",
         "TLC; MPI shim (seeded arrival and reduction orders); real Open MPI: np = 2 (quick), np in {1,2,3,5} (thorough)", "5/C04"),
 "C01": ("model_checking", "TLA+ spec Measure.tla: exact midpoint-lattice sums for VEGAS grids (via Refine!Icdf*) and multi-channel maps (piecewise linear channels, densities, weights, selector lattice via Select!Owner) in rational arithmetic; TLC proves lattice sum = integral for the bounded family (MC_Measure); trace validation (Trace_C01) of hep::plain / hep::vegas / hep::multi_channel driven by a scripted midpoint lattice: exact equality for dyadic grids, tolerance-bounded for multi-channel and for grids reached by adaptation",
         "Measure preservation is an exact theorem in the model; the implementation is bound by requiring the same exact values (1, 1/2, the indicator's edge) from lattice iterations on user grids, weight vectors with zeros and minimum weights, common jacobian factors, and adapted states.",
         "TLC; exactness by construction for VEGAS / PLAIN; float-vs-rational comparison within 8-64 units of 2^-20 for multi-channel; 256 eps on adapted grids", "5/C01"),
 "C13": ("model_checking", "TLA+ spec Combine.tla (weighted_with_variance, weighted_equally, chi_square_dof as exact rationals; Laws): TLC checks the algebraic laws, permutation invariance and special cases on all sequences <= 3 (MC_Combine); trace validation (Trace_C13) of hep::accumulate / chi_square_dof on sequences of exactly representable results (three numeric types, dyadic scalings) and on results with 1-d and 2-d distributions bin by bin, tolerance = eps x conditioning computed by the spec",
         "Expected values are exact rationals from the spec; the float-vs-rational comparison uses the conditioning the property itself names.",
         "TLC; exactly representable inputs; tolerance in the spec (Kappa)", "5/C13"),
 "C14": ("model_checking", "TLA+ spec Kahan.tla (toy floating point with a P-bit significand, KahanStep as coded): TLC proves the error bound on all sequences <= 9 over an 8-value alphabet for P = 3, 4, 5 and on long large-then-small sequences, and finds violations for the naive and the 'skip' variants (MC_Kahan); trace validation (Trace_C14): the library's own hep::accumulate<T> instantiated on minifloat<P> over exhaustive short and adversarial long sequences, and hep::plain on float / double / long double with N up to 10^5 (10^7) against an exact 128-bit sum, for the integral and every distribution bin",
         "The bound is proved exhaustively for the algorithm in small formats and bound to the implementation through the template; for the real formats the spec supplies the acceptance criterion (<= 4 ulp of the sum of magnitudes for every N).",
         "TLC; minifloat arithmetic = Kahan.tla arithmetic; exact-sum oracle for real types in C++ (128-bit integers)", "5/C14"),
}

NOT_YET = {}

def main():
    props = [json.loads(l)["id"] for l in open(os.path.join(ROOT, "properties.jsonl"))]
    checks = []
    for pid in props:
        if pid not in CHECKS:
            continue
        cat, tech, text, note, ref = CHECKS[pid]
        checks.append({
            "property_id": pid,
            "quick_cmd": "./check %s --tier quick" % pid,
            "thorough_cmd": "./check %s --tier thorough" % pid,
            "evidence_file": "/verif/evidence/%s.json" % pid,
            "replay_cmd_template": "./check %s --replay {path}" % pid,
            "engine": "tlc",
            "level_claimed": {"category": cat, "text": text, "design_ref": "DESIGN.md section " + ref},
            "level_note": note,
            "technique": tech,
        })
    na = [{"property_id": p, "reason": NOT_YET.get(p, "check not built yet in this session (planned, see DESIGN.md section 5); not claimed until its TLA+ trace specification validates the unchanged tree")}
          for p in props if p not in CHECKS]
    m = {
        "version": 1,
        "setup_cmd": "./setup.sh",
        "hooks": {"guard": "HEP_MC_VERIF", "enable": "none needed: hep-mc is header-only and templated on engine, integrand, map, callback and <mpi.h>; drivers are compiled with -I/repo/include from the current working tree",
                  "baseline_off_cmd": "meson test -C /repo/_build", "source_commits": [], "add_only": True},
        "engines": [
            {"name": "tlc", "path": "/verif/spec", "serves_properties": [c["property_id"] for c in checks],
             "kind_free_text": "explicit TLA+ specification checked with TLC; trace validation / replay binds it to the C++ headers"},
            {"name": "apalache", "path": "/verif/spec/Split_apa.tla, /verif/spec/Bins_apa.tla, /verif/spec/Layout_apa.tla, /verif/spec/Select_apa.tla, /verif/spec/FileSys_apa.tla, /verif/spec/Loop_apa.tla", "serves_properties": ["C16", "C11", "C09", "C18", "C12"],
             "kind_free_text": "SMT-based check over unbounded integers"},
            {"name": "harness", "path": "/verif/harness", "serves_properties": [c["property_id"] for c in checks],
             "kind_free_text": "C++ drivers, scripted engines, MPI shim, syscall interposer"},
        ],
        "checks": checks,
        "not_applicable": na,
        "notes": "Repairs of genuine defects are 'fix:' commits in /repo, recorded in /verif/known_findings.json (eleven fixed; two open findings, F12 and F13, for which ./check C10 resp. ./check C07 print KNOWN-FINDING lines and exit 0). No hooks in /repo.",
    }
    with open(os.path.join(ROOT, "MANIFEST.json"), "w") as f:
        json.dump(m, f, indent=1)
    print("MANIFEST.json:", len(checks), "checks,", len(na), "not yet claimed")

if __name__ == "__main__":
    main()
