// C16 driver: observes the MPI work split of the real integrators under the shim and the
// helper functions discard_before / discard_after, one event per (total, world, rank).
//   drv_c16 <out.ndjson> <tmax> <wmax> <seed> <nbig>
#include "mpi.h" // the shim
#include "hep/mc-mpi.hpp"
#include "vt_engines.hpp"
#include "vt_trace.hpp"

#include <cstdio>
#include <cstdlib>
#include <vector>

using eng = vt::counter_engine<64>;

struct rank_obs
{
    long long calls = 0;
    long long first = -1;
};

static thread_local rank_obs* obs = nullptr;

static thread_local long long skip_calls = 0; // evaluations of an earlier iteration (not observed)
// returns the integrand's value: zero in the earlier iteration, so that grid and weights are left as they are and the
// points of the observed iteration still reveal the stream position
template <typename T> static T note(T u)
{
    if (skip_calls > 0) { --skip_calls; return T(); }
    if (obs->calls == 0) obs->first = vt::counter64_pos(u);
    ++obs->calls;
    return T(1);
}

// an engine whose range is not a power of two and that publishes its stream position: what a canonical number costs (three raw outputs in
// long double for 2^32 - 5 values, two in double for 2^27 - 39 values) is measured by the driver, not asked from the library
static thread_local long long last_pos = 0;
template <unsigned long long HI>
struct pos_engine
{
    using result_type = unsigned long long;
    static constexpr result_type min() { return 1; }
    static constexpr result_type max() { return HI; }
    unsigned long long pos_;
    pos_engine() : pos_(0) {}
    result_type operator()() { unsigned long long n = pos_++; last_pos = (long long) pos_; return 1 + (n * 2654435761ULL + 12345ULL) % HI; }
    void discard(unsigned long long n) { pos_ += n; }
    unsigned long long pos() const { return pos_; }
    friend bool operator==(pos_engine const& a, pos_engine const& b) { return a.pos_ == b.pos_; }
    friend bool operator!=(pos_engine const& a, pos_engine const& b) { return !(a == b); }
    friend std::ostream& operator<<(std::ostream& o, pos_engine const& e) { return o << e.pos_; }
    friend std::istream& operator>>(std::istream& i, pos_engine& e) { return i >> e.pos_; }
};
template <typename T, typename E> static long long raw_per_number()
{
    E e;
    (void) std::generate_canonical<T, std::numeric_limits<T>::digits>(e);
    return (long long) e.pos();
}
template <typename T, typename E>
static void emit_odd(int kind, std::size_t t, int w, unsigned long long seed, char const* src)
{
    long long const k = raw_per_number<T, E>();
    std::vector<rank_obs> o((std::size_t) w);
    std::vector<long long> end((std::size_t) w, -1);
    vt_mpi_run(w, seed, [&](MPI_Comm comm, int rank) {
        rank_obs* mine = &o[(std::size_t) rank];
        std::vector<std::size_t> calls{t};
        if (kind == 0)
        {
            auto f = [mine, k](hep::mc_point<T> const&) { if (mine->calls == 0) mine->first = last_pos - k; ++mine->calls; return T(1); };
            auto chk = hep::make_plain_chkpt<T, E>(E());
            using C = decltype(chk);
            auto r = hep::mpi_plain(comm, hep::make_integrand<T>(f, 1), calls, chk, hep::mpi_callback<C>(hep::callback_mode::silent));
            end[(std::size_t) rank] = (long long) r.generator().pos();
        }
        else if (kind == 2)
        {
            // two channels: the selection costs one canonical number of the run's numeric type, like every coordinate
            auto f = [mine, k](hep::multi_channel_point<T> const&) { if (mine->calls == 0) mine->first = last_pos - 2 * k; ++mine->calls; return T(1); };
            auto map = [](std::size_t, std::vector<T> const& r, std::vector<T>& c, std::vector<std::size_t> const&, std::vector<T>& d, hep::multi_channel_map) {
                c[0] = r[0]; d[0] = T(1); d[1] = T(1); return T(1); };
            auto chk = hep::make_multi_channel_chkpt<T, E>(T(), T(0.25), E());
            using C = decltype(chk);
            auto r = hep::mpi_multi_channel(comm, hep::make_multi_channel_integrand<T>(f, 1, map, 1, 2), calls, chk, hep::mpi_callback<C>(hep::callback_mode::silent));
            end[(std::size_t) rank] = (long long) r.generator().pos();
        }
        else
        {
            auto f = [mine, k](hep::vegas_point<T> const&) { if (mine->calls == 0) mine->first = last_pos - k; ++mine->calls; return T(1); };
            auto chk = hep::make_vegas_chkpt<T, E>(4, T(1.5), E());
            using C = decltype(chk);
            auto r = hep::mpi_vegas(comm, hep::make_integrand<T>(f, 1), calls, chk, hep::mpi_callback<C>(hep::callback_mode::silent));
            end[(std::size_t) rank] = (long long) r.generator().pos();
        }
    }, false, 0);
    for (int r = 0; r != w; ++r)
    {
        long long sub = o[(std::size_t) r].calls;
        long long before = (long long) hep::discard_before(t, (std::size_t) r, (std::size_t) w);
        long long after = (long long) hep::discard_after(t, (std::size_t) sub, (std::size_t) r, (std::size_t) w);
        vt::ev("Share").s("src", src).i("t", (long long) t).i("w", w).i("r", r).i("before", before).i("sub", sub).i("after", after)
            .i("first", o[(std::size_t) r].first).i("usage", kind == 2 ? 2 * k : k).i("end", end[(std::size_t) r]).i("suboff", 0).i("prev", 0).emit();
    }
}

// kind 0 = plain, 1 = vegas, 2 = multi channel
template <typename T>
static void observe(int kind, std::size_t t, int w, unsigned long long seed, std::vector<rank_obs>& o, std::vector<long long>& end,
    int world_offset = 0, std::size_t first_iteration = 0)
{
    o.assign((std::size_t) w, rank_obs());
    end.assign((std::size_t) w, -1);
    vt_mpi_run(w, seed, [&](MPI_Comm comm, int rank) {
        obs = &o[(std::size_t) rank];
        std::vector<std::size_t> calls{t};
        // an earlier iteration with one more call: a per-rank extra call must not leak into the next iteration
        skip_calls = 0;
        if (first_iteration)
        {
            calls = std::vector<std::size_t>{first_iteration, t};
            skip_calls = (long long) (first_iteration / (std::size_t) w + ((std::size_t) rank < first_iteration % (std::size_t) w ? 1 : 0));
        }
        if (kind == 0)
        {
            auto f = [](hep::mc_point<T> const& p) { return note(p.point()[0]); };
            auto chk = hep::make_plain_chkpt<T, eng>(eng());
            using C = decltype(chk);
            auto r = hep::mpi_plain(comm, hep::make_integrand<T>(f, 1), calls, chk,
                hep::mpi_callback<C>(hep::callback_mode::silent));
            end[(std::size_t) rank] = (long long) r.generator().pos();
        }
        else if (kind == 1)
        {
            auto f = [](hep::vegas_point<T> const& p) { return note(p.point()[0]); };
            auto chk = hep::make_vegas_chkpt<T, eng>(4, T(1.5), eng());
            using C = decltype(chk);
            auto r = hep::mpi_vegas(comm, hep::make_integrand<T>(f, 1), calls, chk,
                hep::mpi_callback<C>(hep::callback_mode::silent));
            end[(std::size_t) rank] = (long long) r.generator().pos();
        }
        else
        {
            auto f = [](hep::multi_channel_point<T> const& p) { return note(p.point()[0]); };
            // two channels, or (for odd totals) exactly one; as many coordinates as numbers, or (every third total) two more
            std::size_t const channels = t % 2 ? 1 : 2, coords = t % 3 == 0 ? 3 : 1;
            auto map = [channels](std::size_t, std::vector<T> const& r, std::vector<T>& c, std::vector<std::size_t> const&,
                std::vector<T>& d, hep::multi_channel_map) { for (T& x : c) x = r[0]; for (std::size_t j = 0; j != channels; ++j) d[j] = T(1); return T(1); };
            auto chk = hep::make_multi_channel_chkpt<T, eng>(T(), T(0.25), eng());
            using C = decltype(chk);
            auto r = hep::mpi_multi_channel(comm, hep::make_multi_channel_integrand<T>(f, 1, map, coords, channels), calls, chk,
                hep::mpi_callback<C>(hep::callback_mode::silent));
            end[(std::size_t) rank] = (long long) r.generator().pos();
        }
    }, false, world_offset);
}

static void emit_small(int kind, std::size_t t, int w, unsigned long long seed, int world_offset = 0, std::size_t first_iteration = 0)
{
    std::vector<rank_obs> o;
    std::vector<long long> end;
    if (kind == 0) observe<double>(0, t, w, seed, o, end, world_offset, first_iteration);
    else if (kind == 1) observe<float>(1, t, w, seed, o, end, world_offset, first_iteration);
    else if (kind == 2) observe<long double>(2, t, w, seed, o, end, world_offset, first_iteration);
    // kind 3: multi channel in double - the same numeric type and engine as the PLAIN runs of this process, another number of draws per call
    else { observe<double>(2, t, w, seed, o, end, world_offset, first_iteration); kind = 2; }
    long long usage = kind == 2 ? 2 : 1; // canonical numbers per call (one raw draw each with this engine)
    long long base = (long long) first_iteration * usage; // stream position at which the observed iteration starts
    for (int r = 0; r != w; ++r)
    {
        long long sub = o[(std::size_t) r].calls;
        long long before = (long long) hep::discard_before(t, (std::size_t) r, (std::size_t) w);
        long long after = (long long) hep::discard_after(t, (std::size_t) sub, (std::size_t) r, (std::size_t) w);
        long long first = o[(std::size_t) r].first;
        vt::ev("Share").s("src", kind == 0 ? "mpi_plain" : kind == 1 ? "mpi_vegas" : "mpi_multi_channel")
            .i("t", (long long) t).i("w", w).i("r", r).i("before", before).i("sub", sub).i("after", after)
            .i("first", first < 0 ? -1 : first - base).i("usage", usage).i("end", end[(std::size_t) r] - base)
            .i("suboff", world_offset).i("prev", (long long) first_iteration).emit();
    }
}

// wide values as two 20-bit limbs [hi, lo]
static std::vector<long long> limbs(unsigned long long x)
{
    return std::vector<long long>{(long long) (x >> 20), (long long) (x & ((1ULL << 20) - 1))};
}

int main(int argc, char** argv)
{
    if (argc < 6) return 2;
    vt::out().open(argv[1]);
    vt::install_abort_handler();
    std::size_t tmax = (std::size_t) std::atol(argv[2]);
    int wmax = std::atoi(argv[3]);
    unsigned long long seed = std::strtoull(argv[4], nullptr, 10);
    long nbig = std::atol(argv[5]);
    // exhaustive small table through the real integrators
    for (int w = 1; w <= wmax; ++w)
        for (std::size_t t = 0; t <= tmax; ++t)
        {
            emit_small(0, t, w, seed + t);
            if (w <= 9 && t <= 20) { emit_small(1, t, w, seed + t); emit_small(2, t, w, seed + t); emit_small(3, t, w, seed + t); }
            if (w <= 5 && t <= 9)
            {
                emit_odd<long double, pos_engine<4294967291ULL>>(0, t, w, seed + t, "mpi_plain-odd-range-ld");
                emit_odd<double, pos_engine<134217689ULL>>(1, t, w, seed + t, "mpi_vegas-odd-range-d");
                emit_odd<float, pos_engine<4294967296ULL>>(2, t, w, seed + t, "mpi_multi_channel-32bit-f");
            }
            if (w >= 2 && w <= 6 && t <= 12)
            {
                // the communicator is a sub-communicator of a larger world (ranks shifted by 1 or w)
                emit_small((int) (t % 3), t, w, seed + t, t % 2 ? 1 : w);
                // preceded by an iteration with t + 1 calls (different remainder)
                emit_small((int) ((t + 1) % 3), t, w, seed + t, 0, t + 1);
            }
        }
    // sampled large values: helper functions only (sub taken as the difference of consecutive befores, which
    // is what the integrators' inline expression must agree with - checked above on the small table)
    vt::rng g(seed);
    for (long k = 0; k != nbig; ++k)
    {
        unsigned long long t = g.next() >> (24 + g.below(30));          // up to 2^40
        unsigned long long w = 1 + (g.next() >> (48 + g.below(12)));    // up to 2^16
        if (k % 7 == 0) t = w * (1 + g.below(1000));                    // divisible
        if (k % 11 == 0) t = g.below(w);                                // fewer calls than ranks
        // all ranks for small worlds, a window of consecutive ranks (plus first and last) otherwise
        std::vector<unsigned long long> ranks;
        if (w <= 48) for (unsigned long long r = 0; r != w; ++r) ranks.push_back(r);
        else
        {
            unsigned long long s = g.below(w - 40);
            unsigned long long rem = t % w;
            if (k % 2 && rem > 20 && rem + 20 < w) s = rem - 20; // window around the remainder boundary
            ranks.push_back(0);
            for (unsigned long long r = s; r != s + 40; ++r) if (r != 0 && r != w - 1) ranks.push_back(r);
            ranks.push_back(w - 1);
        }
        for (unsigned long long r : ranks)
        {
            unsigned long long b = hep::discard_before(t, r, w);
            unsigned long long b1 = (r + 1 == w) ? t : hep::discard_before(t, r + 1, w);
            unsigned long long sub = b1 - b;
            unsigned long long a = hep::discard_after(t, sub, r, w);
            vt::ev("Wide").raw("t", "[" + std::to_string(t >> 20) + "," + std::to_string(t & ((1ULL << 20) - 1)) + "]")
                .i("w", (long long) w).i("r", (long long) r).a("before", limbs(b)).a("sub", limbs(sub))
                .a("after", limbs(a)).a("next", limbs(b1))
                .emit();
        }
    }
    // optional: a total above 2^31 through the real integrator (the inline sub_calls expression must not truncate)
    if (argc > 6)
    {
        unsigned long long t = (1ULL << 31) + 2 + g.below(5);
        int w = 3;
        std::vector<rank_obs> o;
        std::vector<long long> end;
        observe<double>(0, (std::size_t) t, w, seed, o, end);
        for (int r = 0; r != w; ++r)
        {
            unsigned long long sub = (unsigned long long) o[(std::size_t) r].calls;
            unsigned long long b = hep::discard_before(t, (std::size_t) r, (std::size_t) w);
            unsigned long long b1 = (r + 1 == w) ? t : hep::discard_before(t, (std::size_t) r + 1, (std::size_t) w);
            unsigned long long a = hep::discard_after(t, sub, (std::size_t) r, (std::size_t) w);
            vt::ev("Wide").raw("t", "[" + std::to_string(t >> 20) + "," + std::to_string(t & ((1ULL << 20) - 1)) + "]")
                .i("w", w).i("r", r).a("before", limbs(b)).a("sub", limbs(sub)).a("after", limbs(a)).a("next", limbs(b1)).s("src", "mpi_plain-2^31").emit();
        }
    }
    vt::out().close();
    return 0;
}
