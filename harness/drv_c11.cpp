// C11 driver: distribution binning.
//   drv_c11 <out.ndjson> <seed> <thorough>
#include "hep/mc.hpp"
#include "vt_engines.hpp"
#include "vt_trace.hpp"

#include <cmath>
#include <cstdlib>
#include <limits>
#include <sstream>
#include <random>
#include <vector>

static int const K = 16; // integer scale of parameters and coordinates

struct coord
{
    std::string tag; // fin nan +inf -inf
    long long k;     // value * K for fin (clamped for far-out values)
    long double v;   // the actual value (before scaling by 2^e)
    int steps;       // lo / hi: how many floating-point numbers away
};

static coord fin(long long k) { return coord{"fin", k, (long double) k / K, 0}; }
// the floating-point neighbour (in the numeric type of the run) just below / above k / K
static coord nearby(long long k, bool below, int steps = 1) { return coord{below ? "lo" : "hi", k, (long double) k / K, steps}; }
template <typename T> static T value_of(coord const& c, int e)
{
    T v = c.tag != "nan" && c.tag != "+inf" && c.tag != "-inf" && std::fabs(c.v) < 1e18L ? (T) std::ldexp(c.v, e) : (T) c.v;
    for (int i = 0; i < c.steps; ++i)
    {
        if (c.tag == "lo") v = std::nextafter(v, -std::numeric_limits<T>::infinity());
        if (c.tag == "hi") v = std::nextafter(v, std::numeric_limits<T>::infinity());
    }
    return v;
}
static coord far(long double v) { return coord{"fin", v > 0 ? 1000000000LL : -1000000000LL, v, 0}; }
static coord tagc(char const* t)
{
    long double inf = std::numeric_limits<long double>::infinity();
    std::string s(t);
    return coord{s, 0, s == "nan" ? std::numeric_limits<long double>::quiet_NaN() : (s == "+inf" ? inf : -inf), 0};
}

struct binning { int bx, by; long long xmin, sx, ymin, sy; }; // scaled by K; by == 0 means one-dimensional

template <typename T> static hep::distribution_parameters<T> make_params_direct(binning const& b, int e, std::string const& name);
static bool params_via_text = false; // the parameters an integrand is built with are read back from their text form first
template <typename T>
static hep::distribution_parameters<T> make_params(binning const& b, int e, std::string const& name)
{
    hep::distribution_parameters<T> p = make_params_direct<T>(b, e, name);
    if (!params_via_text) return p;
    std::ostringstream o;
    p.serialize(o);
    std::istringstream in(o.str());
    return hep::distribution_parameters<T>(in);
}
template <typename T>
static hep::distribution_parameters<T> make_params_direct(binning const& b, int e, std::string const& name)
{
    auto sc = [e](long long k) { return (T) std::ldexp((long double) k / K, e); };
    if (b.by == 0) return hep::distribution_parameters<T>((std::size_t) b.bx, sc(b.xmin), sc(b.xmin + b.bx * b.sx), name);
    return hep::distribution_parameters<T>((std::size_t) b.bx, (std::size_t) b.by, sc(b.xmin), sc(b.xmin + b.bx * b.sx), sc(b.ymin),
        sc(b.ymin + b.by * b.sy), name);
}

static std::vector<long long> plist(binning const& b)
{
    // one-dimensional binnings have by = 1, ymin = 0, sy = K (the library uses [0, 1))
    if (b.by == 0) return std::vector<long long>{b.bx, 1, b.xmin, b.sx, 0, K};
    return std::vector<long long>{b.bx, b.by, b.xmin, b.sx, b.ymin, b.sy};
}

// ---- single fills: which bin receives the value?
template <typename T>
static void fill1(binning const& b, coord const& x, coord const& y, int e)
{
    T xv = value_of<T>(x, e);
    T yv = value_of<T>(y, e);
    bool twod = b.by != 0;
    auto fn = [&](hep::mc_point<T> const&, hep::projector<T>& pr) {
        if (twod) pr.add(0, xv, yv, T(1)); else pr.add(0, xv, T(1));
        return T(1);
    };
    // (a second distribution with the same binning that is never filled: nothing may spill over into it)
    auto integrand = hep::make_integrand<T>(fn, 1, make_params<T>(b, e, "d"), make_params<T>(b, e, "guard"));
    auto r = hep::plain(integrand, std::vector<std::size_t>{1}, hep::make_plain_chkpt<T>(),
        hep::callback<hep::default_plain_chkpt<T>>(hep::callback_mode::silent));
    auto const& bins = r.results()[0].distributions()[0].results();
    long long spill = 0;
    for (auto const& gb : r.results()[0].distributions()[1].results()) if (gb.sum() != T() || gb.sum_of_squares() != T() || gb.non_zero_calls() != 0) ++spill;
    long long got = -1, nfilled = 0, callsok = 1;
    for (std::size_t f = 0; f != bins.size(); ++f)
    {
        if (bins[f].sum() != T() || bins[f].sum_of_squares() != T()) { got = (long long) f; ++nfilled; }
        if (bins[f].calls() != 1) callsok = 0;
    }
    vt::ev("Fill1").s("T", vt::type_name<T>::get()).i("exp", e).a("p", plist(b)).s("xt", x.tag).i("x", x.k).s("yt", twod ? y.tag : "fin")
        .i("y", twod ? y.k : K / 2).i("got", got).i("nfilled", nfilled).i("nbins", (long long) bins.size()).i("callsok", callsok).i("spill", spill).emit();
}

// ranges and bin counts whose bin size has no short binary representation (100 / 5, 100 / 10, 1000 / 25 ...): the floating-point numbers
// next to every edge, up to three steps away on either side - in particular those just below the upper end of the range
template <typename T>
static void fill1_awkward(vt::rng& g, bool thorough)
{
    static int const counts[6] = {5, 10, 20, 25, 50, 100};
    for (int ci = 0; ci != 6; ++ci)
    {
        int bx = counts[ci];
        long long range = ci < 3 ? 100 : 1000;
        for (int twod = 0; twod != 2; ++twod)
        {
            if (twod && ci != 1 && ci != 3) continue;
            binning b{bx, twod ? 5 : 0, 0, range * K / bx, 0, twod ? 100 * K / 5 : K};
            std::vector<long long> edges;
            for (long long j = 0; j <= bx; ++j) if (bx <= 20 || j <= 1 || j >= bx - 1 || j == bx / 2 || (thorough && j % 7 == 0) || g.below(12) == 0) edges.push_back(j);
            for (long long j : edges)
                for (int steps = 1; steps <= 4; ++steps)
                    for (int below = 0; below != 2; ++below)
                    {
                        if (!thorough && j != bx && j != 0 && g.below(2)) continue;
                        coord x = nearby(b.xmin + j * b.sx, below != 0, steps);
                        if (!twod) fill1<T>(b, x, fin(K / 2), 0);
                        else
                        {
                            fill1<T>(b, x, fin(b.ymin + b.sy / 2), 0);
                            fill1<T>(b, fin(b.xmin + b.sx / 2), nearby(b.ymin + (j % 6) * b.sy, below != 0, steps), 0);
                            fill1<T>(b, x, nearby(b.ymin + 5 * b.sy, true, steps), 0);
                        }
                    }
        }
    }
}

template <typename T>
static void fill1_family(vt::rng& g, bool thorough)
{
    static long long const mins[3] = {-2 * K, 0, K / 2};
    static long long const sizes[3] = {K / 4, K, 3 * K};
    static int const exps[3] = {0, -20, 20};
    for (int bx = 1; bx <= 3; ++bx)
        for (int by = 0; by <= 2; ++by)
            for (int mi = 0; mi != 3; ++mi)
                for (int si = 0; si != 3; ++si)
                {
                    if (!thorough && g.below(3) != 0) continue;
                    binning b{bx, by, mins[mi], sizes[si], mins[(mi + 1) % 3], sizes[(si + 1) % 3]};
                    int e = exps[g.below(3)];
                    params_via_text = g.below(2) == 0;
                    std::vector<coord> xs;
                    for (long long k = -8; k <= 4 * bx + 8; ++k) xs.push_back(fin(b.xmin + k * b.sx / 4));
                    xs.push_back(tagc("nan")); xs.push_back(tagc("+inf")); xs.push_back(tagc("-inf"));
                    // the floating-point neighbours of every edge, in particular of the two ends of the range
                    for (long long j = 0; j <= bx; ++j) { xs.push_back(nearby(b.xmin + j * b.sx, true)); xs.push_back(nearby(b.xmin + j * b.sx, false)); }
                    // minus zero is zero: on the lower end of a range that starts at zero
                    if (b.xmin == 0) { coord nz = fin(0); nz.v = -0.0L; xs.push_back(nz); }
                    xs.push_back(far(1e30L)); xs.push_back(far(-1e30L)); xs.push_back(far(1.8446744073709552e19L)); xs.push_back(far(9.3e18L));
                    std::vector<coord> ys{fin(b.ymin + b.sy / 2)};
                    if (by != 0)
                    {
                        ys.push_back(fin(b.ymin)); ys.push_back(fin(b.ymin + b.by * b.sy)); ys.push_back(fin(b.ymin + b.sy));
                        ys.push_back(nearby(b.ymin + b.by * b.sy, true)); ys.push_back(nearby(b.ymin, false));
                        ys.push_back(fin(b.ymin - b.sy / 4)); ys.push_back(tagc("nan")); ys.push_back(far(1e30L)); ys.push_back(tagc("+inf"));
                    }
                    for (auto const& x : xs)
                        for (auto const& y : ys)
                        {
                            if (by != 0 && !thorough && &y != &ys[0] && g.below(2)) continue;
                            fill1<T>(b, x, y, e);
                        }
                    // mid points, scaled by two
                    auto integrand_params = make_params<T>(b, 0, "m");
                    std::vector<hep::mc_result<T>> rs((std::size_t) (bx * (by ? by : 1)), hep::mc_result<T>(1, 0, 0, T(), T()));
                    hep::distribution_result<T> dr(integrand_params, rs);
                    std::vector<long long> mx, my;
                    bool exact = true;
                    for (T v : hep::mid_points_x(dr)) { exact = exact && vt::is_exact_scaled(v, 5); mx.push_back(exact ? vt::exact_scaled(v, 5) : 0); }
                    for (T v : hep::mid_points_y(dr)) { exact = exact && vt::is_exact_scaled(v, 5); my.push_back(exact ? vt::exact_scaled(v, 5) : 0); }
                    vt::ev("Mid").s("T", vt::type_name<T>::get()).a("p", plist(b)).a("mx", mx).a("my", my).i("exact", exact ? 1 : 0).emit();
                    params_via_text = false;
                }
}

// ---- multi-fill runs with several distributions
struct fillspec { int dist; coord x, y; int v; bool vnan; };

template <typename T>
static void multi_run(int run, int kind, vt::rng& g)
{
    // dyadic sizes only, so that bin areas are powers of two and the reported sums are exact
    std::vector<binning> ds{binning{4, 0, -K, K / 2, 0, K}, binning{2, 3, 0, K / 4, -K / 2, K / 2}, binning{3, 0, K / 2, K, 0, K}};
    // every other run: the third distribution is two-dimensional with a single bin of size 2 in y (the bin area is not the x size)
    if ((run / 3) % 2 == 1) ds[2] = binning{3, 1, K / 2, K, -K, 2 * K};
    std::size_t const N = 24;
    int edges_left = 4; // fills on (or next to) an edge make the specification branch: keep them few per run
    std::vector<std::vector<fillspec>> plan(N);
    for (std::size_t c = 0; c != N; ++c)
        for (int d = 0; d != 3; ++d)
        {
            binning const& b = ds[(std::size_t) d];
            int nf = (int) g.below(3); // 0, 1 or 2 fills of this distribution in this call
            for (int f = 0; f != nf; ++f)
            {
                auto pick = [&](long long mn, long long sz, int bins) {
                    unsigned long long sel = g.below(8);
                    if ((sel == 0 || sel == 5) && edges_left-- <= 0) sel = 7;
                    switch (sel)
                    {
                    case 0: return fin(mn + (long long) g.below((unsigned) bins + 1) * sz);  // on an edge (incl. min and max)
                    case 1: return fin(mn - 1 - (long long) g.below(3));                           // just below
                    case 2: return fin(mn + bins * sz + 1 + (long long) g.below(3));             // just above
                    case 3: { static char const* t[3] = {"nan", "+inf", "-inf"}; return tagc(t[g.below(3)]); }
                    case 4: return far(g.below(2) ? 1e30L : -1e30L);
                    case 5: return g.below(2) ? nearby(mn + bins * sz, true) : nearby(mn, false);     // the neighbours of the two ends, inside the range
                    default: { long long k = mn + (long long) g.below((unsigned) (bins * sz)); if ((k - mn) % sz == 0) ++k; return fin(k); } // interior
                    }
                };
                fillspec fs{d, pick(b.xmin, b.sx, b.bx), b.by ? pick(b.ymin, b.sy, b.by) : fin(K / 2), (int) g.range(-3, 3), g.below(12) == 0};
                plan[c].push_back(fs);
            }
        }
    std::vector<long long> dl;
    for (auto const& b : ds) { auto p = plist(b); dl.insert(dl.end(), p.begin(), p.end()); }
    vt::ev("Begin").i("run", run).i("kind", kind).s("T", vt::type_name<T>::get()).i("N", (long long) N).a("dists", dl).emit();
    params_via_text = run % 2 == 1;
    std::size_t call = 0;
    auto body = [&](T weight, hep::projector<T>& pr) {
        for (auto const& fs : plan[call])
        {
            T v = fs.vnan ? std::numeric_limits<T>::quiet_NaN() : T(fs.v);
            binning const& b = ds[(std::size_t) fs.dist];
            if (b.by) pr.add((std::size_t) fs.dist, value_of<T>(fs.x, 0), value_of<T>(fs.y, 0), v); else pr.add((std::size_t) fs.dist, value_of<T>(fs.x, 0), v);
            // value * weight on scale 4
            bool fin = !fs.vnan && std::isfinite(T(fs.v) * weight);
            vt::ev("Fill").i("dist", fs.dist).s("xt", fs.x.tag).i("x", fs.x.k).s("yt", fs.y.tag).i("y", fs.y.k)
                .i("vfin", fin ? 1 : 0).i("v", fin ? vt::exact_scaled(T(fs.v) * weight, 2) : 0).emit();
        }
        ++call;
        // what is handed to the projector is binned whatever the integrand itself returns (here: zero for every fourth call)
        return call % 4 == 0 ? T() : T(1);
    };
    std::vector<hep::distribution_result<T>> out;
    if (kind == 0)
    {
        auto fn = [&](hep::mc_point<T> const& p, hep::projector<T>& pr) { return body(p.weight(), pr); };
        auto integrand = hep::make_integrand<T>(fn, 1, make_params<T>(ds[0], 0, "a"), make_params<T>(ds[1], 0, ""), make_params<T>(ds[2], 0, "c c"));
        auto r = hep::plain(integrand, std::vector<std::size_t>{N}, hep::make_plain_chkpt<T>(),
            hep::callback<hep::default_plain_chkpt<T>>(hep::callback_mode::silent));
        out = r.results()[0].distributions();
    }
    else if (kind == 1)
    {
        hep::vegas_pdf<T> pdf(1, 2);
        pdf.set_bin_left(0, 1, T(0.25));
        auto fn = [&](hep::vegas_point<T> const& p, hep::projector<T>& pr) { return body(p.weight(), pr); };
        auto integrand = hep::make_integrand<T>(fn, 1, make_params<T>(ds[0], 0, "a"), make_params<T>(ds[1], 0, ""), make_params<T>(ds[2], 0, "c c"));
        auto chk = hep::make_vegas_chkpt<T>(pdf);
        using C = decltype(chk);
        auto r = hep::vegas(integrand, std::vector<std::size_t>{N}, chk, hep::callback<C>(hep::callback_mode::silent));
        out = r.results()[0].distributions();
    }
    else
    {
        // every fifth call lies in a region where all channel densities vanish: the weight is infinite, value x weight is not finite
        // and must reach neither the integral nor any bin
        auto map = [&call](std::size_t, std::vector<T> const& r, std::vector<T>& c, std::vector<std::size_t> const&, std::vector<T>& d,
            hep::multi_channel_map) { c[0] = r[0]; T p = (call % 5 == 4) ? T() : T(2); d[0] = p; d[1] = p; return T(1); };
        auto fn = [&](hep::multi_channel_point<T> const& p, hep::projector<T>& pr) { return body(p.weight(), pr); };
        auto integrand = hep::make_multi_channel_integrand<T>(fn, 1, map, 1, 2, make_params<T>(ds[0], 0, "a"), make_params<T>(ds[1], 0, ""),
            make_params<T>(ds[2], 0, "c c"));
        auto chk = hep::make_multi_channel_chkpt<T>();
        using C = decltype(chk);
        auto r = hep::multi_channel(integrand, std::vector<std::size_t>{N}, chk, hep::callback<C>(hep::callback_mode::silent));
        out = r.results()[0].distributions();
    }
    for (std::size_t d = 0; d != out.size(); ++d)
    {
        binning const& b = ds[d];
        // area on scale K*K; sums scaled back: sum * area * 4 and sumsq * area^2 * 16 are exact integers
        long double area = ((long double) b.sx / K) * (b.by ? (long double) b.sy / K : 1.0L);
        for (std::size_t f = 0; f != out[d].results().size(); ++f)
        {
            auto const& br = out[d].results()[f];
            long double s = (long double) br.sum() * area * 4, q = (long double) br.sum_of_squares() * area * area * 16;
            vt::ev("BinResult").i("dist", (long long) d).i("flat", (long long) f).i("calls", (long long) br.calls())
                .i("sum", vt::exact_scaled(s, 0)).i("sumsq", vt::exact_scaled(q, 0)).i("nbins", (long long) out[d].results().size()).emit();
        }
    }
    params_via_text = false;
    vt::ev("End").i("run", run).i("ndists", (long long) out.size()).emit();
}

// ---- combination of several iterations: every bin of the combination is the combination of that bin's results (a bin is an integration
// of its own) - also when the integrand returned zero everywhere in an iteration and only its observable was filled
template <typename T> static bool near_or_same(T a, T b)
{
    if (std::isnan(a) || std::isnan(b)) return std::isnan(a) && std::isnan(b);
    if (a == b) return true;
    return std::fabs(a - b) <= T(16) * std::numeric_limits<T>::epsilon() * std::fmax(std::fabs(a), std::fabs(b));
}
template <typename T>
static void acc_bins(int run, vt::rng& g)
{
    std::size_t const first = 6 + g.below(6);
    std::vector<std::size_t> calls{first, 40 + g.below(20), 40 + g.below(20)};
    if (run % 2) std::swap(calls[0], calls[1]); // the iteration without a non-zero value first or second
    std::size_t const quiet = run % 2 ? 1 : 0;
    std::size_t seen = 0, iter = 0, left = calls[0];
    auto fn = [&](hep::mc_point<T> const& p, hep::projector<T>& pr) {
        T x = p.point()[0], v = T(1) + x;
        pr.add(0, x, v);                       // the observable is booked before any cut
        pr.add(1, x, p.point()[1], v * v);
        bool const q = iter == quiet;
        ++seen;
        if (--left == 0 && iter + 1 < calls.size()) { ++iter; left = calls[iter]; }
        return q ? T() : v;                   // no point passes the cut in the quiet iteration
    };
    auto integrand = hep::make_integrand<T>(fn, 2, hep::make_dist_params<T>(4, T(), T(1), "x"), hep::distribution_parameters<T>(2, 3, T(), T(1), T(), T(1), "xy"));
    auto r = hep::plain(integrand, calls, hep::make_plain_chkpt<T>(std::mt19937((unsigned) g.below(100000))), hep::callback<hep::default_plain_chkpt<T>>(hep::callback_mode::silent));
    long long bad_v = 0, bad_e = 0, nbins = 0;
    auto const& rs = r.results();
    auto cv = hep::accumulate<hep::weighted_with_variance>(rs.begin(), rs.end());
    auto ce = hep::accumulate<hep::weighted_equally>(rs.begin(), rs.end());
    for (std::size_t d = 0; d != 2; ++d)
        for (std::size_t b = 0; b != rs[0].distributions()[d].results().size(); ++b)
        {
            std::vector<hep::mc_result<T>> column;
            for (auto const& it : rs) column.push_back(it.distributions()[d].results()[b]);
            auto wv = hep::accumulate<hep::weighted_with_variance>(column.begin(), column.end());
            auto we = hep::accumulate<hep::weighted_equally>(column.begin(), column.end());
            auto const& gv = cv.distributions()[d].results()[b];
            auto const& ge = ce.distributions()[d].results()[b];
            ++nbins;
            if (gv.calls() != wv.calls() || gv.non_zero_calls() != wv.non_zero_calls() || !near_or_same(gv.value(), wv.value()) || !near_or_same(gv.error(), wv.error())) ++bad_v;
            if (ge.calls() != we.calls() || ge.non_zero_calls() != we.non_zero_calls() || !near_or_same(ge.value(), we.value()) || !near_or_same(ge.error(), we.error())) ++bad_e;
        }
    vt::ev("AccBins").i("run", run).s("T", vt::type_name<T>::get()).i("quietNz", (long long) rs[quiet].non_zero_calls()).i("nbins", nbins).i("badVar", bad_v).i("badEq", bad_e)
        .i("seen", (long long) seen).emit();
}

int main(int argc, char** argv)
{
    if (argc < 4) return 2;
    vt::out().open(argv[1]);
    vt::install_abort_handler();
    vt::rng g(std::strtoull(argv[2], nullptr, 10));
    bool thorough = std::atoi(argv[3]) != 0;
    fill1_family<float>(g, thorough);
    fill1_family<double>(g, thorough);
    fill1_family<long double>(g, thorough);
    fill1_awkward<float>(g, thorough); fill1_awkward<double>(g, thorough); fill1_awkward<long double>(g, thorough);
    for (int r = 0; r != (thorough ? 12 : 4); ++r) { acc_bins<float>(3 * r, g); acc_bins<double>(3 * r + 1, g); acc_bins<long double>(3 * r + 2, g); }
    int runs = thorough ? 60 : 12;
    for (int r = 0; r != runs; ++r)
    {
        int kind = r % 3;
        int t = (r / 3) % 3;
        if (t == 0) multi_run<float>(r, kind, g); else if (t == 1) multi_run<double>(r, kind, g); else multi_run<long double>(r, kind, g);
    }
    vt::out().close();
    return 0;
}
