// MPI shim (DESIGN.md 3.1): ranks are threads of one process.  Found before the system <mpi.h>
// through -I/verif/harness/mpishim.  Implements exactly what hep-mc uses.
//
// A collective is a rendezvous of all ranks of the world.  The reduction is performed by the last
// rank to arrive, summing the contributions in a *seeded permutation* of the ranks, so that every
// arrival order and many association orders are exercised.  Every entry / exit is logged with the
// world's global sequence number (taken under the world's lock - a real total order, no clocks).
// A rank that can never be released (another rank finished, or waits in a collective with a
// different signature) is reported structurally as a deadlock and released with an exception.
#ifndef VT_MPI_SHIM_H
#define VT_MPI_SHIM_H

#include <algorithm>
#include <chrono>
#include <condition_variable>
#include <cstddef>
#include <cstring>
#include <functional>
#include <mutex>
#include <stdexcept>
#include <string>
#include <thread>
#include <vector>

#include "vt_trace.hpp"

enum vt_mpi_datatype
{
    MPI_FLOAT = 1, MPI_DOUBLE, MPI_LONG_DOUBLE, MPI_UNSIGNED, MPI_UNSIGNED_LONG, MPI_UNSIGNED_LONG_LONG
};
typedef int MPI_Datatype;
typedef int MPI_Op;
#define MPI_SUM 1
#define MPI_IN_PLACE ((void*) 1)
#define MPI_SUCCESS 0

struct vt_deadlock : std::runtime_error
{
    vt_deadlock() : std::runtime_error("shim: deadlock") {}
};

struct vt_world
{
    int size = 1;
    unsigned long long seed = 0;
    bool trace = true;            // log Enter/Leave events
    std::mutex m;
    std::condition_variable cv;
    // state of the collective in flight
    int arrived = 0;
    int done = 0;                 // ranks whose program has returned
    unsigned long long epoch = 0; // number of completed collectives
    long gseq = 0;                // global event sequence (under m)
    bool dead = false;
    std::vector<void*> bufs;
    std::vector<int> counts, types;
    std::vector<long> rank_seq;   // per rank: number of collectives entered
    std::vector<std::vector<unsigned char>> result; // per epoch parity: reduced bytes
    explicit vt_world(int n, unsigned long long s = 0)
        : size(n), seed(s), bufs(n), counts(n), types(n), rank_seq(n), result(2) {}
};

typedef vt_world* MPI_Comm;

inline int& vt_this_rank() { static thread_local int r = 0; return r; }
// MPI_COMM_WORLD: the communicator a run is given may be a *sub*-communicator of the world (as after MPI_Comm_split):
// the world rank of a thread is its communicator rank plus an offset, the world is larger by the same amount on each side
inline int& vt_world_offset() { static thread_local int o = 0; return o; }
inline int& vt_world_extra() { static thread_local int e = 0; return e; }
#define MPI_COMM_WORLD ((vt_world*) 0)

inline int MPI_Comm_rank(MPI_Comm c, int* rank) { *rank = c ? vt_this_rank() : vt_this_rank() + vt_world_offset(); return MPI_SUCCESS; }
inline int& vt_comm_size() { static thread_local int n = 1; return n; }
inline int MPI_Comm_size(MPI_Comm c, int* size) { *size = c ? c->size : vt_comm_size() + 2 * vt_world_offset(); return MPI_SUCCESS; }

inline std::size_t vt_type_size(int t)
{
    switch (t)
    {
    case MPI_FLOAT: return sizeof(float);
    case MPI_DOUBLE: return sizeof(double);
    case MPI_LONG_DOUBLE: return sizeof(long double);
    case MPI_UNSIGNED: return sizeof(unsigned);
    case MPI_UNSIGNED_LONG: return sizeof(unsigned long);
    default: return sizeof(unsigned long long);
    }
}

template <typename T>
inline void vt_sum_into(std::vector<unsigned char>& acc, std::vector<void*> const& bufs,
    std::vector<int> const& order, int count)
{
    std::vector<T> r((std::size_t) count, T());
    // association: left fold over a seeded permutation of ranks
    bool first = true;
    for (int rk : order)
    {
        T const* p = static_cast<T const*>(bufs[(std::size_t) rk]);
        for (int i = 0; i != count; ++i) r[(std::size_t) i] = first ? p[i] : (T) (r[(std::size_t) i] + p[i]);
        first = false;
    }
    acc.resize(sizeof(T) * (std::size_t) count);
    if (count) std::memcpy(acc.data(), r.data(), acc.size());
}

inline int MPI_Allreduce(void const* sendbuf, void* recvbuf, int count, MPI_Datatype type, MPI_Op, MPI_Comm c)
{
    int const rank = vt_this_rank();
    if (sendbuf != MPI_IN_PLACE) throw std::logic_error("shim: only MPI_IN_PLACE is supported");
    // perturb arrival order deterministically
    {
        unsigned long long h = (c->seed + 0x9E37ULL * (unsigned long long) (rank + 1)) * 6364136223846793005ULL +
            (unsigned long long) c->rank_seq[(std::size_t) rank] * 1442695040888963407ULL;
        int spins = (int) ((h >> 40) % 4);
        for (int i = 0; i != spins; ++i) std::this_thread::yield();
    }
    std::unique_lock<std::mutex> lk(c->m);
    long const myseq = ++c->rank_seq[(std::size_t) rank];
    if (c->trace)
        vt::ev("Enter").i("rank", rank).i("seq", myseq).i("count", count).i("type", type).i("g", ++c->gseq).emit();
    if (c->dead) throw vt_deadlock();
    unsigned long long const my_epoch = c->epoch;
    c->bufs[(std::size_t) rank] = recvbuf;
    c->counts[(std::size_t) rank] = count;
    c->types[(std::size_t) rank] = type;
    ++c->arrived;
    if (c->arrived == c->size)
    {
        // signature check: all ranks must have entered the same collective
        bool same = true;
        for (int r = 0; r != c->size; ++r)
            same = same && c->counts[(std::size_t) r] == count && c->types[(std::size_t) r] == type;
        if (!same)
        {
            if (c->trace) vt::ev("Mismatch").i("epoch", (long long) my_epoch).i("g", ++c->gseq).emit();
            c->dead = true;
            c->cv.notify_all();
            throw vt_deadlock();
        }
        std::vector<int> order((std::size_t) c->size);
        for (int r = 0; r != c->size; ++r) order[(std::size_t) r] = r;
        vt::rng g(c->seed * 1315423911ULL + my_epoch);
        for (int r = c->size - 1; r > 0; --r) std::swap(order[(std::size_t) r], order[(std::size_t) g.below((unsigned) r + 1)]);
        std::vector<unsigned char>& acc = c->result[my_epoch & 1];
        switch (type)
        {
        case MPI_FLOAT: vt_sum_into<float>(acc, c->bufs, order, count); break;
        case MPI_DOUBLE: vt_sum_into<double>(acc, c->bufs, order, count); break;
        case MPI_LONG_DOUBLE: vt_sum_into<long double>(acc, c->bufs, order, count); break;
        case MPI_UNSIGNED: vt_sum_into<unsigned>(acc, c->bufs, order, count); break;
        case MPI_UNSIGNED_LONG: vt_sum_into<unsigned long>(acc, c->bufs, order, count); break;
        default: vt_sum_into<unsigned long long>(acc, c->bufs, order, count); break;
        }
        c->arrived = 0;
        ++c->epoch;
        c->cv.notify_all();
    }
    else
    {
        // wait until the collective completes; structurally impossible => deadlock
        for (;;)
        {
            if (c->epoch != my_epoch) break;
            if (c->dead) throw vt_deadlock();
            if (c->arrived + c->done >= c->size && c->done > 0)
            {
                // everybody else has finished or is waiting here: nobody can release us
                if (c->trace) vt::ev("Deadlock").i("rank", rank).i("seq", myseq).i("g", ++c->gseq).emit();
                c->dead = true;
                c->cv.notify_all();
                throw vt_deadlock();
            }
            c->cv.wait_for(lk, std::chrono::milliseconds(50));
        }
    }
    std::vector<unsigned char> const& acc = c->result[my_epoch & 1];
    if (!acc.empty()) std::memcpy(recvbuf, acc.data(), acc.size());
    if (c->trace)
        vt::ev("Leave").i("rank", rank).i("seq", myseq).i("g", ++c->gseq).emit();
    return MPI_SUCCESS;
}

inline int MPI_Init(int*, char***) { return MPI_SUCCESS; }
inline int MPI_Finalize() { return MPI_SUCCESS; }

// run `body(rank)` on `size` threads as the ranks of a fresh world; returns true iff no deadlock
inline bool vt_mpi_run(int size, unsigned long long seed, std::function<void(MPI_Comm, int)> const& body,
    bool trace = true, int world_offset = 0)
{
    vt_world w(size, seed);
    w.trace = trace;
    std::vector<std::thread> ts;
    std::vector<int> dead((std::size_t) size, 0);
    for (int r = 0; r != size; ++r)
    {
        ts.emplace_back([&, r] {
            vt_this_rank() = r;
            vt_world_offset() = world_offset;
            vt_comm_size() = size;
            try { body(&w, r); }
            catch (vt_deadlock const&) { dead[(std::size_t) r] = 1; }
            std::lock_guard<std::mutex> g(w.m);
            ++w.done;
            w.cv.notify_all();
        });
    }
    for (auto& t : ts) t.join();
    bool ok = !w.dead;
    return ok;
}

#endif
