// MPI shim (DESIGN.md 3.1): ranks are threads of one process.  Found before the system <mpi.h>
// through -I/verif/harness/mpishim.  Implements exactly what hep-mc uses.
//
// A collective is a rendezvous of all ranks of the world.  The reduction is performed by the last
// rank to arrive, summing the contributions in a *seeded permutation* of the ranks, so that every
// arrival order and many association orders are exercised.  Every entry / exit is logged with the
// world's global sequence number (taken under the world's lock - a real total order, no clocks).
// A rank that can never be released (another rank finished, or waits in a collective with a
// different signature) is reported structurally as a deadlock and released with an exception.
#ifndef VT_MPI_SHIM_H
#define VT_MPI_SHIM_H

#include <algorithm>
#include <chrono>
#include <condition_variable>
#include <cstddef>
#include <cstring>
#include <functional>
#include <memory>
#include <mutex>
#include <stdexcept>
#include <string>
#include <thread>
#include <vector>

#include "vt_trace.hpp"

enum vt_mpi_datatype
{
    MPI_FLOAT = 1, MPI_DOUBLE, MPI_LONG_DOUBLE, MPI_UNSIGNED, MPI_UNSIGNED_LONG, MPI_UNSIGNED_LONG_LONG
};
typedef int MPI_Datatype;
typedef int MPI_Op;
#define MPI_SUM 1
#define MPI_IN_PLACE ((void*) 1)
#define MPI_SUCCESS 0

struct vt_deadlock : std::runtime_error
{
    vt_deadlock() : std::runtime_error("shim: deadlock") {}
};

struct vt_world
{
    int size = 1;
    int base = 0;                 // world rank of this communicator's rank 0
    int absent = 0;               // ranks that exist only as numbers (padding of the world): they never arrive anywhere
    unsigned long long seed = 0;
    bool trace = true;            // log Enter/Leave events
    std::mutex m;
    std::condition_variable cv;
    // state of the collective in flight
    int arrived = 0;
    int done = 0;                 // ranks whose program has returned
    unsigned long long epoch = 0; // number of completed collectives
    long gseq = 0;                // global event sequence (under m)
    bool dead = false;
    std::vector<void*> bufs;
    std::vector<int> counts, types;
    std::vector<long> rank_seq;   // per rank: number of collectives entered
    std::vector<std::vector<unsigned char>> result; // per epoch parity: reduced bytes
    explicit vt_world(int n, unsigned long long s = 0)
        : size(n), seed(s), bufs(n), counts(n), types(n), rank_seq(n), result(2) {}
};

typedef vt_world* MPI_Comm;

// rank of this thread in the communicator its body was started with
inline int& vt_this_rank() { static thread_local int r = 0; return r; }
// MPI_COMM_WORLD: the communicator a run is given may be a *sub*-communicator of the world (as after MPI_Comm_split).  The world is
// an object of its own, shared by all threads of a run; a thread's world rank is the base of its communicator plus its rank there.
inline int& vt_world_rank() { static thread_local int r = 0; return r; }
inline vt_world*& vt_the_world() { static thread_local vt_world* w = nullptr; return w; }
#define MPI_COMM_WORLD (vt_the_world())

inline int vt_rank_in(MPI_Comm c) { return vt_world_rank() - c->base; }
inline int MPI_Comm_rank(MPI_Comm c, int* rank) { *rank = vt_rank_in(c); return MPI_SUCCESS; }
inline int MPI_Comm_size(MPI_Comm c, int* size) { *size = c->size; return MPI_SUCCESS; }

inline std::size_t vt_type_size(int t)
{
    switch (t)
    {
    case MPI_FLOAT: return sizeof(float);
    case MPI_DOUBLE: return sizeof(double);
    case MPI_LONG_DOUBLE: return sizeof(long double);
    case MPI_UNSIGNED: return sizeof(unsigned);
    case MPI_UNSIGNED_LONG: return sizeof(unsigned long);
    default: return sizeof(unsigned long long);
    }
}

template <typename T>
inline void vt_sum_into(std::vector<unsigned char>& acc, std::vector<void*> const& bufs,
    std::vector<int> const& order, int count)
{
    std::vector<T> r((std::size_t) count, T());
    // association: left fold over a seeded permutation of ranks
    bool first = true;
    for (int rk : order)
    {
        T const* p = static_cast<T const*>(bufs[(std::size_t) rk]);
        for (int i = 0; i != count; ++i) r[(std::size_t) i] = first ? p[i] : (T) (r[(std::size_t) i] + p[i]);
        first = false;
    }
    acc.resize(sizeof(T) * (std::size_t) count);
    if (count) std::memcpy(acc.data(), r.data(), acc.size());
}

// kind 0: allreduce (sum), kind 1 + root: broadcast from root, kind -1: barrier
inline int vt_collective(int kind, void* recvbuf, int count, MPI_Datatype type, MPI_Comm c)
{
    int const rank = vt_rank_in(c);
    if (rank < 0 || rank >= c->size) throw std::logic_error("shim: collective on a communicator the caller is not a member of");
    // perturb arrival order deterministically
    {
        unsigned long long h = (c->seed + 0x9E37ULL * (unsigned long long) (rank + 1)) * 6364136223846793005ULL +
            (unsigned long long) c->rank_seq[(std::size_t) rank] * 1442695040888963407ULL;
        int spins = (int) ((h >> 40) % 4);
        for (int i = 0; i != spins; ++i) std::this_thread::yield();
    }
    std::unique_lock<std::mutex> lk(c->m);
    long const myseq = ++c->rank_seq[(std::size_t) rank];
    if (c->trace)
        vt::ev("Enter").i("rank", rank).i("seq", myseq).i("count", count).i("type", type).i("g", ++c->gseq).emit();
    if (c->dead) throw vt_deadlock();
    unsigned long long const my_epoch = c->epoch;
    c->bufs[(std::size_t) rank] = recvbuf;
    c->counts[(std::size_t) rank] = count;
    c->types[(std::size_t) rank] = type + 100 * (kind + 1);   // the signature includes the kind of collective (and the root)
    ++c->arrived;
    if (c->arrived == c->size)
    {
        // signature check: all ranks must have entered the same collective
        bool same = true;
        for (int r = 0; r != c->size; ++r)
            same = same && c->counts[(std::size_t) r] == count && c->types[(std::size_t) r] == type + 100 * (kind + 1);
        if (!same)
        {
            if (c->trace) vt::ev("Mismatch").i("epoch", (long long) my_epoch).i("g", ++c->gseq).emit();
            c->dead = true;
            c->cv.notify_all();
            throw vt_deadlock();
        }
        std::vector<int> order((std::size_t) c->size);
        for (int r = 0; r != c->size; ++r) order[(std::size_t) r] = r;
        vt::rng g(c->seed * 1315423911ULL + my_epoch);
        for (int r = c->size - 1; r > 0; --r) std::swap(order[(std::size_t) r], order[(std::size_t) g.below((unsigned) r + 1)]);
        std::vector<unsigned char>& acc = c->result[my_epoch & 1];
        if (kind >= 1)
        {
            acc.resize(vt_type_size(type) * (std::size_t) count);
            if (count) std::memcpy(acc.data(), c->bufs[(std::size_t) (kind - 1)], acc.size());
        }
        else if (kind < 0) acc.clear();
        else
        switch (type)
        {
        case MPI_FLOAT: vt_sum_into<float>(acc, c->bufs, order, count); break;
        case MPI_DOUBLE: vt_sum_into<double>(acc, c->bufs, order, count); break;
        case MPI_LONG_DOUBLE: vt_sum_into<long double>(acc, c->bufs, order, count); break;
        case MPI_UNSIGNED: vt_sum_into<unsigned>(acc, c->bufs, order, count); break;
        case MPI_UNSIGNED_LONG: vt_sum_into<unsigned long>(acc, c->bufs, order, count); break;
        default: vt_sum_into<unsigned long long>(acc, c->bufs, order, count); break;
        }
        c->arrived = 0;
        ++c->epoch;
        c->cv.notify_all();
    }
    else
    {
        // wait until the collective completes; structurally impossible => deadlock
        for (;;)
        {
            if (c->epoch != my_epoch) break;
            if (c->dead) throw vt_deadlock();
            if (c->arrived + c->done + c->absent >= c->size && c->done + c->absent > 0)
            {
                // everybody else has finished or is waiting here: nobody can release us
                if (c->trace) vt::ev("Deadlock").i("rank", rank).i("seq", myseq).i("g", ++c->gseq).emit();
                c->dead = true;
                c->cv.notify_all();
                throw vt_deadlock();
            }
            c->cv.wait_for(lk, std::chrono::milliseconds(50));
        }
    }
    std::vector<unsigned char> const& acc = c->result[my_epoch & 1];
    if (!acc.empty()) std::memcpy(recvbuf, acc.data(), acc.size());
    if (c->trace)
        vt::ev("Leave").i("rank", rank).i("seq", myseq).i("g", ++c->gseq).emit();
    return MPI_SUCCESS;
}

inline int MPI_Allreduce(void const* sendbuf, void* recvbuf, int count, MPI_Datatype type, MPI_Op, MPI_Comm c)
{
    if (sendbuf != MPI_IN_PLACE) throw std::logic_error("shim: only MPI_IN_PLACE is supported");
    return vt_collective(0, recvbuf, count, type, c);
}
inline int MPI_Bcast(void* buf, int count, MPI_Datatype type, int root, MPI_Comm c) { return vt_collective(1 + root, buf, count, type, c); }
inline int MPI_Barrier(MPI_Comm c) { int dummy = 0; return vt_collective(-1, &dummy, 0, MPI_UNSIGNED, c); }
#define MPI_INT MPI_UNSIGNED
#define MPI_C_BOOL MPI_UNSIGNED
inline int MPI_Init(int*, char***) { return MPI_SUCCESS; }
inline int MPI_Finalize() { return MPI_SUCCESS; }

// run `body(comm, rank)` on threads as the ranks of fresh communicators, one per group (sizes[g] ranks each), all of them members of
// one world (MPI_COMM_WORLD) whose ranks are numbered group after group, `pad` non-existent ranks before the first and after the last
// group; returns true iff no deadlock
inline bool vt_mpi_run_groups(std::vector<int> const& sizes, unsigned long long seed,
    std::function<void(MPI_Comm, int, int)> const& body, bool trace = true, int pad = 0)
{
    int total = 2 * pad;
    for (int n : sizes) total += n;
    vt_world world(total, seed ^ 0x5bd1e995ULL);
    world.trace = false;
    world.absent = 2 * pad;
    std::vector<std::unique_ptr<vt_world>> groups;
    int base = pad;
    for (std::size_t g = 0; g != sizes.size(); ++g)
    {
        groups.emplace_back(new vt_world(sizes[g], seed + 7919ULL * g));
        groups.back()->base = base;
        groups.back()->trace = trace;
        base += sizes[g];
    }
    std::vector<std::thread> ts;
    for (std::size_t g = 0; g != sizes.size(); ++g)
        for (int r = 0; r != sizes[g]; ++r)
        {
            vt_world* w = groups[g].get();
            ts.emplace_back([&, w, g, r] {
                vt_this_rank() = r;
                vt_world_rank() = w->base + r;
                vt_the_world() = &world;
                try { body(w, (int) g, r); }
                catch (vt_deadlock const&) {}
                {
                    std::lock_guard<std::mutex> lk(w->m);
                    ++w->done;
                    w->cv.notify_all();
                }
                std::lock_guard<std::mutex> lk(world.m);
                ++world.done;
                world.cv.notify_all();
            });
        }
    for (auto& t : ts) t.join();
    bool ok = !world.dead;
    for (auto const& w : groups) ok = ok && !w->dead;
    return ok;
}

// one communicator of `size` ranks (the world itself unless world_offset > 0: then a sub-communicator of a larger world)
inline bool vt_mpi_run(int size, unsigned long long seed, std::function<void(MPI_Comm, int)> const& body,
    bool trace = true, int world_offset = 0)
{
    return vt_mpi_run_groups(std::vector<int>{size}, seed, [&](MPI_Comm c, int, int r) { body(c, r); }, trace, world_offset);
}

#endif
