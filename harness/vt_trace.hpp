// NDJSON trace sink, interning, exact projections (DESIGN.md 3.1).  Header-only.
#ifndef VT_TRACE_HPP
#define VT_TRACE_HPP

#include <cmath>
#include <csignal>
#include <cstdint>
#include <cstdio>
#include <cstdlib>
#include <cstring>
#include <exception>
#include <limits>
#include <map>
#include <mutex>
#include <sstream>
#include <string>
#include <unistd.h>
#include <vector>

namespace vt
{

struct sink
{
    FILE* f = nullptr;
    std::mutex m;
    long lines = 0;
    void open(char const* path)
    {
        f = std::fopen(path, "w");
        if (!f) { std::perror(path); std::_Exit(2); }
    }
    void close() { if (f) { std::fclose(f); f = nullptr; } }
    // per thread: events are collected in a buffer instead (replayed into the file later, e.g. one group of ranks after the other)
    static std::vector<std::string>*& capture() { static thread_local std::vector<std::string>* c = nullptr; return c; }
    void write(std::string const& s)
    {
        if (capture()) { std::lock_guard<std::mutex> g(m); capture()->push_back(s); return; }
        std::lock_guard<std::mutex> g(m);
        if (!f) return;
        std::fputs(s.c_str(), f);
        std::fputc('\n', f);
        ++lines;
    }
};

inline sink& out() { static sink s; return s; }

// one JSON object per event; values are integers, strings, or arrays of those
class ev
{
public:
    explicit ev(char const* name) { s_ << "{\"e\":\"" << name << "\""; }
    ev& i(char const* k, long long v) { s_ << ",\"" << k << "\":" << v; return *this; }
    ev& s(char const* k, std::string const& v) { s_ << ",\"" << k << "\":\"" << esc(v) << "\""; return *this; }
    ev& b(char const* k, bool v) { s_ << ",\"" << k << "\":" << (v ? "true" : "false"); return *this; }
    template <typename V> ev& a(char const* k, V const& v)
    {
        s_ << ",\"" << k << "\":[";
        bool first = true;
        for (auto const& x : v) { if (!first) s_ << ','; first = false; s_ << (long long) x; }
        s_ << "]";
        return *this;
    }
    ev& as(char const* k, std::vector<std::string> const& v)
    {
        s_ << ",\"" << k << "\":[";
        bool first = true;
        for (auto const& x : v) { if (!first) s_ << ','; first = false; s_ << '"' << esc(x) << '"'; }
        s_ << "]";
        return *this;
    }
    // array of arrays of integers
    ev& aa(char const* k, std::vector<std::vector<long long>> const& v)
    {
        s_ << ",\"" << k << "\":[";
        for (std::size_t r = 0; r != v.size(); ++r)
        {
            if (r) s_ << ',';
            s_ << '[';
            for (std::size_t c = 0; c != v[r].size(); ++c) { if (c) s_ << ','; s_ << v[r][c]; }
            s_ << ']';
        }
        s_ << "]";
        return *this;
    }
    ev& raw(char const* k, std::string const& json) { s_ << ",\"" << k << "\":" << json; return *this; }
    void emit() { s_ << "}"; out().write(s_.str()); }
    std::string str() { return s_.str() + "}"; }
private:
    static std::string esc(std::string const& v)
    {
        std::string r;
        for (char c : v)
        {
            if (c == '"' || c == '\\') { r += '\\'; r += c; }
            else if (c == '\n') r += "\\n";
            else if ((unsigned char) c < 0x20) { char b[8]; std::snprintf(b, sizeof b, "\\u%04x", c); r += b; }
            else r += c;
        }
        return r;
    }
    std::ostringstream s_;
};

// ---- interning: stable small integer per distinct text (bit-identical values <=> same id)
class interner
{
public:
    bool hash = false; // content-based ids (needed when several processes must agree on ids)
    long id(std::string const& text)
    {
        if (hash)
        {
            std::uint64_t h = 1469598103934665603ULL;
            for (unsigned char c : text) { h ^= c; h *= 1099511628211ULL; }
            return (long) ((h ^ (h >> 31)) & 0x3fffffffULL) + 1;
        }
        std::lock_guard<std::mutex> g(m_);
        auto it = ids_.find(text);
        if (it != ids_.end()) return it->second;
        long n = (long) ids_.size() + 1;
        ids_[text] = n;
        return n;
    }
    std::size_t size() const { return ids_.size(); }
private:
    std::map<std::string, long> ids_;
    std::mutex m_;
};

inline interner& ids() { static interner i; return i; }

template <typename T> inline std::string hexfloat(T x)
{
    char b[64];
    std::snprintf(b, sizeof b, "%La", (long double) x);
    return b;
}

template <typename V> inline std::string hexvec(V const& v)
{
    std::string s;
    for (auto const& x : v) { s += hexfloat(x); s += ' '; }
    return s;
}

// ---- projections
struct inexact : std::exception
{
    char const* what() const noexcept override { return "projection not exact"; }
};

// x * 2^s as an integer; throws if it is not one or does not fit 31 bits
template <typename T> inline long long exact_scaled(T x, int s, long long limit = 2147483647LL)
{
    long double y = std::ldexp((long double) x, s);
    if (!(std::fabs(y) <= (long double) limit) || y != std::floor(y)) throw inexact();
    return (long long) y;
}

template <typename T> inline bool is_exact_scaled(T x, int s, long long limit = 2147483647LL)
{
    long double y = std::ldexp((long double) x, s);
    return (std::fabs(y) <= (long double) limit) && y == std::floor(y);
}

// monotone projection floor(x * 2^s), clamped
template <typename T> inline long long mono_scaled(T x, int s)
{
    long double y = std::floor(std::ldexp((long double) x, s));
    if (y > 2147483647.0L) return 2147483647LL;
    if (y < -2147483647.0L) return -2147483647LL;
    return (long long) y;
}

template <typename T> inline std::string tag(T x)
{
    if (std::isnan(x)) return "nan";
    if (std::isinf(x)) return x > 0 ? "+inf" : "-inf";
    return "fin";
}

// simple deterministic generator for driver-side choices (never the library's engine)
struct rng
{
    std::uint64_t s;
    explicit rng(std::uint64_t seed) : s(seed * 0x9E3779B97F4A7C15ULL + 0x1234567ULL) {}
    std::uint64_t next()
    {
        s += 0x9E3779B97F4A7C15ULL;
        std::uint64_t z = s;
        z = (z ^ (z >> 30)) * 0xBF58476D1CE4E5B9ULL;
        z = (z ^ (z >> 27)) * 0x94D049BB133111EBULL;
        return z ^ (z >> 31);
    }
    std::uint64_t below(std::uint64_t n) { return n ? next() % n : 0; }
    long range(long lo, long hi) { return lo + (long) below((std::uint64_t)(hi - lo + 1)); }
};

// An exception escaping from the library, an assert firing inside it or a crash must end up as a
// rejected trace (an "Abort" event no specification accepts), not as a truncated one.
inline void abort_event(char const* why)
{
    static bool once = false;
    if (once) std::_Exit(0);
    once = true;
    if (out().f)
    {
        std::fprintf(out().f, "{\"e\":\"Abort\",\"why\":\"%s\"}\n", why);
        std::fflush(out().f);
    }
    std::_Exit(0);
}
inline void install_abort_handler()
{
    std::set_terminate([] { abort_event("terminate"); });
    std::signal(SIGABRT, [](int) { abort_event("SIGABRT"); });
    std::signal(SIGSEGV, [](int) { abort_event("SIGSEGV"); });
    std::signal(SIGFPE, [](int) { abort_event("SIGFPE"); });
}

template <typename T> struct type_name;
template <> struct type_name<float> { static char const* get() { return "float"; } };
template <> struct type_name<double> { static char const* get() { return "double"; } };
template <> struct type_name<long double> { static char const* get() { return "ldouble"; } };

} // namespace vt

#endif
