// C04 driver: the MPI integrators under the shim (or real MPI with -DVT_REAL_MPI) against the serial run.
//   drv_c04 <out.ndjson> <seed> <thorough>
#ifdef VT_REAL_MPI
#include <mpi.h>
#else
#include "mpi.h" // the shim
#endif
#include "hep/mc-mpi.hpp"
#include "vt_engines.hpp"
#include "vt_trace.hpp"

#include <cmath>
#include <cstdlib>
#include <iostream>
#include <limits>
#include <random>
#include <sstream>

using namespace vt;

template <typename C> static std::string text_of(C const& c)
{
    std::ostringstream o;
    c.serialize(o);
    return o.str();
}

#ifdef VT_REAL_MPI
static long real_seq = 0;
static int my_rank() { int r = 0; MPI_Comm_rank(MPI_COMM_WORLD, &r); return r; }
// profiling interface: every collective the library issues is logged (entry and exit) and forwarded
extern "C" int MPI_Allreduce(void const* s, void* r, int count, MPI_Datatype t, MPI_Op op, MPI_Comm c)
{
    ++real_seq;
    long seq = real_seq;
    int code = t == MPI_FLOAT ? 1 : (t == MPI_DOUBLE ? 2 : (t == MPI_LONG_DOUBLE ? 3 : (t == MPI_UNSIGNED_LONG ? 5 : 6)));
    vt::ev("Enter").i("rank", my_rank()).i("seq", seq).i("count", count).i("type", code).i("g", 0).emit();
    int rc = PMPI_Allreduce(s, r, count, t, op, c);
    vt::ev("Leave").i("rank", my_rank()).i("seq", seq).i("g", 0).emit();
    return rc;
}
#else
static int my_rank() { return vt_this_rank(); }
#endif

// ---- stream position revealed by a canonical number
template <typename T, int BITS> struct reveal { static long long pos(T) { return -1; } static int k() { return 0; } };
template <typename T> struct reveal<T, 64> { static long long pos(T x) { return (long long) std::ldexp((long double) x, 23); } static int k() { return 1; } };
template <> struct reveal<float, 32> { static long long pos(float x) { return (long long) std::ldexp((long double) x, 32); } static int k() { return 1; } };
template <> struct reveal<double, 32>
{
    static long long pos(double x) { long double v = std::ldexp((long double) x, 64); return (long long) std::fmod(v, 4294967296.0L); }
    static int k() { return 2; }
};
template <> struct reveal<long double, 32>
{
    static long long pos(long double x) { long double v = std::ldexp(x, 64); return (long long) std::fmod(v, 4294967296.0L); }
    static int k() { return 2; }
};

struct eval_ctx
{
    bool log = false;
    bool has_pos = false;
    int iter = 0;       // iteration in progress (0-based), maintained by the callback wrapper
    bool fine = false;  // long double values with bits below double's precision (PLAIN only)
};
static thread_local eval_ctx ectx;

template <typename T> static T fine(long long) { return T(); }
// long double: a part below double's precision, so that the values (and their exact sums) are not representable in double
template <> long double fine<long double>(long long pos) { return std::ldexp((long double) (pos % 7), -50); }
template <typename T> static T value_at(long long pos, T x)
{
    if (pos < 0) return T(1) + std::floor(x * T(3));
    if (pos % 5 == 0) return T();
    // non-finite evaluations: counted as calls, not as finite ones, and contribute nothing
    if (pos % 7 == 3) return pos % 2 ? std::numeric_limits<T>::quiet_NaN() : std::numeric_limits<T>::infinity();
    return T(1 + pos % 3) + (ectx.fine ? fine<T>(pos) : T());
}

// ---- kinds
template <typename T, typename E, int BITS> struct plain_k
{
    typedef decltype(hep::make_plain_chkpt<T, E>(E())) chk;
    static char const* name() { return "plain"; }
    static std::size_t d() { return 2; }
    static std::size_t per_call() { return 2; }
    static chk fresh(E const& e) { return hep::make_plain_chkpt<T, E>(e); }
    static long state_id(chk const&) { return 0; }
    template <typename R> static long recorded(R const&) { return 0; }
    template <typename R> static long derived(chk const&, R const&) { return 0; }
    template <typename R> static std::vector<long long> coarse(R const&) { return std::vector<long long>(); }
    static T eval(hep::mc_point<T> const& p)
    {
        long long pos = ectx.has_pos ? reveal<T, BITS>::pos(p.point()[0]) : -1;
        if (ectx.log) ev("Eval").i("rank", my_rank()).i("pos", pos).emit();
        return value_at<T>(pos, p.point()[0]);
    }
    // with two distributions (a 1-d one with 3 bins, a 2-d one with 3 x 2 bins): the bins travel through the reduction too
    static T eval_dist(hep::mc_point<T> const& p, hep::projector<T>& pr)
    {
        T v = eval(p);
        T x = p.point()[0] - std::floor(p.point()[0] * T(4)) / T(4);   // exact: multiples of 2^-23 folded into [0, 1/4)
        // (the two-dimensional distribution comes first: what follows it in the reduction buffers is addressed past all of its bins)
        pr.add(1, x * T(4), v);
        pr.add(0, x * T(4), p.point()[1] < T(0.5) ? T(0.25) : T(0.75), v + T(1));
        // several entries of one call in the same bin (jets of one event): five more in the middle bin for stretches of four calls, none for
        // the next four - the counters of that bin exceed the calls of some ranks and stay below those of others
        long long const pos = ectx.has_pos ? reveal<T, BITS>::pos(p.point()[0]) : -1;
        if (pos >= 0 ? (pos / 8) % 2 == 0 : p.point()[1] < T(0.5)) for (int k = 0; k != 5; ++k) pr.add(1, T(0.5), T(1));
        return v;
    }
    template <typename CB> static chk serial(chk const& c, std::vector<std::size_t> const& plan, CB cb)
    {
        return hep::plain(hep::make_integrand<T>([](hep::mc_point<T> const& p, hep::projector<T>& pr) { return eval_dist(p, pr); }, d(),
            hep::distribution_parameters<T>(3, 2, T(), T(1), T(), T(1), "two"), hep::make_dist_params<T>(3, T(), T(1), "one")), plan, c, cb);
    }
    template <typename CB> static chk parallel(MPI_Comm comm, chk const& c, std::vector<std::size_t> const& plan, CB cb)
    {
        return hep::mpi_plain(comm, hep::make_integrand<T>([](hep::mc_point<T> const& p, hep::projector<T>& pr) { return eval_dist(p, pr); }, d(),
            hep::distribution_parameters<T>(3, 2, T(), T(1), T(), T(1), "two"), hep::make_dist_params<T>(3, T(), T(1), "one")), plan, c, cb);
    }
};
// PLAIN with one large two-dimensional distribution (300 x 220 bins): the reduction buffer has more than 2^17 elements
template <typename T, typename E, int BITS> struct plainwide_k : plain_k<T, E, BITS>
{
    typedef typename plain_k<T, E, BITS>::chk chk;
    static char const* name() { return "plain"; }
    static T eval_wide(hep::mc_point<T> const& p, hep::projector<T>& pr)
    {
        T v = plain_k<T, E, BITS>::eval(p);
        // the first number is a small multiple of 2^-23: spread it over the x range; y from the second number
        T x = std::fmod(p.point()[0] * T(8388608) * T(37), T(300)) / T(300);
        pr.add(0, x, p.point()[1], v + T(1));
        return v;
    }
    template <typename CB> static chk serial(chk const& c, std::vector<std::size_t> const& plan, CB cb)
    {
        return hep::plain(hep::make_integrand<T>([](hep::mc_point<T> const& p, hep::projector<T>& pr) { return eval_wide(p, pr); }, 2,
            hep::distribution_parameters<T>(300, 220, T(), T(1), T(), T(1), "wide")), plan, c, cb);
    }
    template <typename CB> static chk parallel(MPI_Comm comm, chk const& c, std::vector<std::size_t> const& plan, CB cb)
    {
        return hep::mpi_plain(comm, hep::make_integrand<T>([](hep::mc_point<T> const& p, hep::projector<T>& pr) { return eval_wide(p, pr); }, 2,
            hep::distribution_parameters<T>(300, 220, T(), T(1), T(), T(1), "wide")), plan, c, cb);
    }
};
template <typename T, typename E, int BITS> struct vegas_k
{
    typedef decltype(hep::make_vegas_chkpt<T, E>(4, T(1.5), E())) chk;
    static char const* name() { return "vegas"; }
    static std::size_t d() { return 1; }
    static std::size_t per_call() { return 1; }
    static chk fresh(E const& e) { return hep::make_vegas_chkpt<T, E>(4, T(1.5), e); }
    static std::string grid(hep::vegas_pdf<T> const& p)
    {
        std::string s;
        for (std::size_t b = 0; b <= p.bins(); ++b) s += hexfloat(p.bin_left(0, b)) + " ";
        return "g:" + s;
    }
    template <typename R> static long recorded(R const& r) { return ids().id(grid(r.pdf())); }
    // the grid the iteration was sampled with, at a resolution of 2^-12 (insensitive to the order of a reduction)
    template <typename R> static std::vector<long long> coarse(R const& r)
    {
        std::vector<long long> q;
        for (std::size_t b = 0; b <= r.pdf().bins(); ++b) q.push_back(mono_scaled(r.pdf().bin_left(0, b), 12));
        return q;
    }
    template <typename R> static long derived(chk const& c, R const& r) { return ids().id(grid(hep::vegas_refine_pdf(r.pdf(), c.alpha(), r.adjustment_data()))); }
    static T eval(hep::vegas_point<T> const& p)
    {
        // the point is the random number itself only on the uniform grid of the first iteration
        long long pos = (ectx.has_pos && ectx.iter == 0) ? reveal<T, BITS>::pos(p.point()[0]) : -1;
        if (ectx.log) ev("Eval").i("rank", my_rank()).i("pos", pos).emit();
        // values depend on the point only through a coarse, rounding-insensitive function
        return pos >= 0 ? value_at<T>(pos, p.point()[0]) : T(1 + (long) (p.bin()[0] % 3));
    }
    // one distribution with 4 bins filled from the bin index of the point (insensitive to rounding of the grid)
    static T eval_dist(hep::vegas_point<T> const& p, hep::projector<T>& pr)
    {
        T v = eval(p);
        pr.add(0, (T(p.bin()[0]) + T(0.5)) / T(4), v + T(2));
        return v;
    }
    template <typename CB> static chk serial(chk const& c, std::vector<std::size_t> const& plan, CB cb)
    {
        return hep::vegas(hep::make_integrand<T>([](hep::vegas_point<T> const& p, hep::projector<T>& pr) { return eval_dist(p, pr); }, d(),
            hep::make_dist_params<T>(4, T(), T(1), "bins")), plan, c, cb);
    }
    template <typename CB> static chk parallel(MPI_Comm comm, chk const& c, std::vector<std::size_t> const& plan, CB cb)
    {
        return hep::mpi_vegas(comm, hep::make_integrand<T>([](hep::vegas_point<T> const& p, hep::projector<T>& pr) { return eval_dist(p, pr); }, d(),
            hep::make_dist_params<T>(4, T(), T(1), "bins")), plan, c, cb);
    }
};
template <typename T, typename E, int BITS> struct mc_k
{
    typedef decltype(hep::make_multi_channel_chkpt<T, E>(T(), T(0.25), E())) chk;
    static char const* name() { return "mc"; }
    static std::size_t d() { return 1; }
    static std::size_t per_call() { return 2; }
    static chk fresh(E const& e) { return hep::make_multi_channel_chkpt<T, E>(std::vector<T>{T(1), T(1), T(0), T(2)}, T(0.01), T(0.5), e); }
    template <typename R> static long recorded(R const& r) { return ids().id("w:" + hexvec(r.channel_weights())); }
    template <typename R> static std::vector<long long> coarse(R const& r)
    {
        std::vector<long long> q;
        for (T w : r.channel_weights()) q.push_back(mono_scaled(w, 12));
        return q;
    }
    template <typename R> static long derived(chk const& c, R const& r)
    {
        return ids().id("w:" + hexvec(hep::multi_channel_refine_weights(r.channel_weights(), r.adjustment_data(), c.min_weight(), c.beta())));
    }
    static T eval(hep::multi_channel_point<T> const& p)
    {
        long long pos = ectx.has_pos ? reveal<T, BITS>::pos(p.point()[0]) : -1;
        if (ectx.log) ev("Eval").i("rank", my_rank()).i("pos", pos).emit();
        return value_at<T>(pos, p.point()[0]);
    }
    struct map_t
    {
        bool single;
        T operator()(std::size_t ch, std::vector<T> const& r, std::vector<T>& co, std::vector<std::size_t> const&, std::vector<T>& de, hep::multi_channel_map) const
        {
            co[0] = r[0];
            // different densities per channel (so that the weights adapt), dyadic so that the first iteration is exact
            // (with the single enabled channel 1 the total density is de[1]: dyadic as well)
            de[0] = T(0.5); de[1] = single ? T(0.5) : T(1.5); de[2] = T(1); de[3] = T(1);
            (void) ch;
            return T(1);
        }
    };
    // one distribution with 4 bins filled from the selected channel
    static T eval_dist(hep::multi_channel_point<T> const& p, hep::projector<T>& pr)
    {
        T v = eval(p);
        pr.add(0, (T(p.channel()) + T(0.5)) / T(4), v + T(2));
        return v;
    }
    template <typename CB> static chk serial(chk const& c, std::vector<std::size_t> const& plan, CB cb)
    {
        return hep::multi_channel(hep::make_multi_channel_integrand<T>([](hep::multi_channel_point<T> const& p, hep::projector<T>& pr) { return eval_dist(p, pr); },
            1, map_t{c.channel_weights()[0] == T()}, 1, 4, hep::make_dist_params<T>(4, T(), T(1), "channels")), plan, c, cb);
    }
    template <typename CB> static chk parallel(MPI_Comm comm, chk const& c, std::vector<std::size_t> const& plan, CB cb)
    {
        return hep::mpi_multi_channel(comm, hep::make_multi_channel_integrand<T>([](hep::multi_channel_point<T> const& p, hep::projector<T>& pr) { return eval_dist(p, pr); },
            1, map_t{c.channel_weights()[0] == T()}, 1, 4, hep::make_dist_params<T>(4, T(), T(1), "channels")), plan, c, cb);
    }
};
// exactly one channel: the channel selection still consumes its random number
template <typename T, typename E, int BITS> struct mc1c_k : mc_k<T, E, BITS>
{
    typedef typename mc_k<T, E, BITS>::chk chk;
    static char const* name() { return "mc1"; }
    static chk fresh(E const& e) { return hep::make_multi_channel_chkpt<T, E>(std::vector<T>{T(1)}, T(0.01), T(0.5), e); }
    struct map1_t
    {
        T operator()(std::size_t, std::vector<T> const& r, std::vector<T>& co, std::vector<std::size_t> const&, std::vector<T>& de, hep::multi_channel_map) const
        {
            co[0] = r[0];
            de[0] = T(0.5);
            return T(1);
        }
    };
    template <typename CB> static chk serial(chk const& c, std::vector<std::size_t> const& plan, CB cb)
    {
        return hep::multi_channel(hep::make_multi_channel_integrand<T>([](hep::multi_channel_point<T> const& p) { return mc_k<T, E, BITS>::eval(p); }, 1, map1_t(), 1, 1),
            plan, c, cb);
    }
    template <typename CB> static chk parallel(MPI_Comm comm, chk const& c, std::vector<std::size_t> const& plan, CB cb)
    {
        return hep::mpi_multi_channel(comm, hep::make_multi_channel_integrand<T>([](hep::multi_channel_point<T> const& p) { return mc_k<T, E, BITS>::eval(p); },
            1, map1_t(), 1, 1), plan, c, cb);
    }
};
// beta = 0 with a minimum weight that clamps: every refinement still moves the weights (clamp, renormalise), under MPI as in the serial run
template <typename T, typename E, int BITS> struct mcb0_k : mc_k<T, E, BITS>
{
    typedef typename mc_k<T, E, BITS>::chk chk;
    static chk fresh(E const& e) { return hep::make_multi_channel_chkpt<T, E>(std::vector<T>{T(0.02), T(0.98), T(0), T(1)}, T(0.1), T(), e); }
};
// more coordinates (3) than random numbers (1): the consumption follows the random numbers
template <typename T, typename E, int BITS> struct mcmd_k : mc_k<T, E, BITS>
{
    typedef typename mc_k<T, E, BITS>::chk chk;
    static char const* name() { return "mc"; }
    struct mapmd_t
    {
        T operator()(std::size_t, std::vector<T> const& r, std::vector<T>& co, std::vector<std::size_t> const&, std::vector<T>& de, hep::multi_channel_map) const
        {
            co[0] = r[0]; co[1] = r[0]; co[2] = r[0];
            de[0] = T(0.5); de[1] = T(1.5); de[2] = T(1); de[3] = T(1);
            return T(1);
        }
    };
    template <typename CB> static chk serial(chk const& c, std::vector<std::size_t> const& plan, CB cb)
    {
        return hep::multi_channel(hep::make_multi_channel_integrand<T>([](hep::multi_channel_point<T> const& p) { return mc_k<T, E, BITS>::eval(p); }, 1, mapmd_t(), 3, 4),
            plan, c, cb);
    }
    template <typename CB> static chk parallel(MPI_Comm comm, chk const& c, std::vector<std::size_t> const& plan, CB cb)
    {
        return hep::mpi_multi_channel(comm, hep::make_multi_channel_integrand<T>([](hep::multi_channel_point<T> const& p) { return mc_k<T, E, BITS>::eval(p); },
            1, mapmd_t(), 3, 4), plan, c, cb);
    }
};
// VEGAS with alpha = 0 and an integrand that vanishes on the lower half: the grid still moves (empty bins are squeezed out), and the
// MPI run must sample every iteration with the same grid as the serial run
template <typename T, typename E, int BITS> struct vegas0_k : vegas_k<T, E, BITS>
{
    typedef typename vegas_k<T, E, BITS>::chk chk;
    static chk fresh(E const& e) { return hep::make_vegas_chkpt<T, E>(8, T(), e); }
    static T eval0(hep::vegas_point<T> const& p)
    {
        if (ectx.log) ev("Eval").i("rank", my_rank()).i("pos", -1).emit();
        return p.point()[0] < T(0.5) ? T() : T(1 + (long) (p.bin()[0] % 3));
    }
    template <typename CB> static chk serial(chk const& c, std::vector<std::size_t> const& plan, CB cb)
    {
        return hep::vegas(hep::make_integrand<T>([](hep::vegas_point<T> const& p) { return eval0(p); }, 1), plan, c, cb);
    }
    template <typename CB> static chk parallel(MPI_Comm comm, chk const& c, std::vector<std::size_t> const& plan, CB cb)
    {
        return hep::mpi_vegas(comm, hep::make_integrand<T>([](hep::vegas_point<T> const& p) { return eval0(p); }, 1), plan, c, cb);
    }
};
// multi channel with a single enabled channel: the channel selection still consumes its random number
template <typename T, typename E, int BITS> struct mc1_k : mc_k<T, E, BITS>
{
    typedef typename mc_k<T, E, BITS>::chk chk;
    static char const* name() { return "mc1"; }
    static chk fresh(E const& e) { return hep::make_multi_channel_chkpt<T, E>(std::vector<T>{T(0), T(1), T(0), T(0)}, T(0.01), T(0.5), e); }
};

template <typename T, typename R> static std::string result_text(R const& r)
{
    std::string s = hexfloat(r.sum()) + " " + hexfloat(r.sum_of_squares()) + " " + std::to_string(r.calls()) + " " + std::to_string(r.non_zero_calls()) + " " +
        std::to_string(r.finite_calls());
    // every bin of every distribution: estimate, counters and the full number of calls
    for (auto const& d : r.distributions())
        for (auto const& b : d.results())
            s += " | " + hexfloat(b.sum()) + " " + hexfloat(b.sum_of_squares()) + " " + std::to_string(b.calls()) + " " + std::to_string(b.non_zero_calls()) + " " +
                std::to_string(b.finite_calls());
    return s;
}

// the same without the sums of squares (whose roundings depend on the order of summation when the values have many bits)
template <typename T, typename R> static std::string sum_text(R const& r)
{
    std::string s = hexfloat(r.sum()) + " " + std::to_string(r.calls()) + " " + std::to_string(r.non_zero_calls()) + " " + std::to_string(r.finite_calls());
    for (auto const& d : r.distributions())
        for (auto const& b : d.results())
            s += " | " + hexfloat(b.sum()) + " " + std::to_string(b.calls()) + " " + std::to_string(b.non_zero_calls()) + " " + std::to_string(b.finite_calls());
    return s;
}

// position of a generator as an integer if it has one, else an interned id of its text
template <typename E> static long long gen_id(E const& e) { std::ostringstream o; o << e; return ids().id("e:" + o.str()); }

// the observed callback: logs one event per invocation, then delegates to the built-in (mpi_)callback
template <typename K, typename T, typename C> struct obs_cb
{
    hep::callback<C> serial_inner;
    hep::mpi_callback<C> mpi_inner;
    bool serial;
    long* prev_derived; // derived state of the previous result (per rank)
    void log(C const& c)
    {
        auto const& r = c.results().back();
        long rec = K::recorded(r);
        ev(serial ? "SerialIter" : "Add").i("rank", serial ? -1 : my_rank()).i("n", (long long) c.results().size()).i("rid", ids().id("r:" + result_text<T>(r))).i("sid", ids().id("s:" + sum_text<T>(r)))
            .i("sumQ", mono_scaled(r.sum(), 6)).i("sumsqQ", mono_scaled(r.sum_of_squares(), 4)).i("calls", (long long) r.calls())
            .i("nz", (long long) r.non_zero_calls()).i("fin", (long long) r.finite_calls()).i("gen", gen_id(c.generator()))
            .i("recorded", rec).i("derivedPrev", *prev_derived).a("stateQ", K::coarse(r)).emit();
        *prev_derived = K::derived(c, r);
        ++ectx.iter;
    }
    bool operator()(C const& c) { log(c); return serial_inner(c); }
    bool operator()(MPI_Comm comm, C const& c)
    {
        log(c);
        bool ret = mpi_inner(comm, c);
        ev("Ret").i("rank", my_rank()).i("n", (long long) c.results().size()).i("ret", ret ? 1 : 0).emit();
        return ret;
    }
};

static int run_counter = 0;

template <typename E> static long long start_pos(E const&) { return 0; }
template <int B> static long long start_pos(counter_engine<B> const& e) { return (long long) e.pos(); }

template <typename K, typename T, typename E>
static void one_run(char const* ename, E const& engine, bool has_pos, int world, std::vector<std::size_t> const& plan, double target,
    hep::callback_mode mode = hep::callback_mode::silent, std::size_t pre = 0, bool fine_values = false, bool big = false, bool loose = false)
{
    typedef typename K::chk C;
    int id = run_counter++;
    bool root = true;
#ifdef VT_REAL_MPI
    root = my_rank() == 0;
    MPI_Comm_size(MPI_COMM_WORLD, &world);
#endif
    std::size_t k = hep::random_number_usage<T, E>();
    // optionally continue from a checkpoint that already holds `pre` results (produced serially, not part of the trace)
    C start = K::fresh(engine);
    if (pre)
    {
        ectx.log = false; ectx.has_pos = false; ectx.iter = 1000;
        start = K::serial(start, std::vector<std::size_t>(pre, 64), hep::callback<C>(hep::callback_mode::silent));
    }
    ev("MRun").i("run", id).s("kind", K::name()).s("T", type_name<T>::get()).s("engine", ename).i("P", world).a("plan", plan)
        .i("usage", (long long) (K::per_call() * k)).i("hasPos", has_pos ? 1 : 0).i("base", start_pos(engine)).i("posMod", std::string(ename) == "counter32" ? 1048576 : 8388608).i("target", target > 0 ? 1 : 0)
        .i("exactFirstOnly", std::string(K::name()) == "plain" ? 0 : 1).i("n0", (long long) pre).i("sqExact", fine_values ? 0 : 1).i("big", big ? 1 : 0).i("loose", loose ? 1 : 0).emit();
    ectx.fine = fine_values;
    // serial reference
    if (root)
    {
        ectx.log = false; ectx.has_pos = has_pos && !pre; ectx.iter = (int) pre;
        long pd = 0;
        C s = K::serial(start, plan, obs_cb<K, T, C>{hep::callback<C>(hep::callback_mode::silent, "", T(target)),
            hep::mpi_callback<C>(hep::callback_mode::silent, "", T(target)), true, &pd});
        ev("SerialFinal").i("n", (long long) s.results().size()).i("text", ids().id("t:" + text_of(s))).emit();
    }
#ifdef VT_REAL_MPI
    real_seq = 0;
#endif
    auto body = [&](MPI_Comm comm, int rank) {
        ectx.log = !big; ectx.has_pos = has_pos && !pre; ectx.iter = (int) pre; ectx.fine = fine_values;
        long pd = 0;
        C r = K::parallel(comm, start, plan, obs_cb<K, T, C>{hep::callback<C>(hep::callback_mode::silent, "", T(target)),
            hep::mpi_callback<C>(mode, "", T(target)), false, &pd});
        ectx.log = false;
        ev("Returned").i("rank", rank).i("n", (long long) r.results().size()).i("text", ids().id("t:" + text_of(r))).emit();
    };
#ifdef VT_REAL_MPI
    body(MPI_COMM_WORLD, my_rank());
    ev("MEnd").i("ok", 1).emit();
#else
    bool ok = vt_mpi_run(world, (unsigned long long) id * 2654435761ULL, body, true);
    ev("MEnd").i("ok", ok ? 1 : 0).emit();
#endif
}

static std::vector<std::size_t> make_plan(rng& g, int world)
{
    std::vector<std::size_t> p;
    std::size_t n = 2 + g.below(2);
    for (std::size_t i = 0; i != n; ++i)
    {
        switch (g.below(5))
        {
        case 0: p.push_back(g.below((unsigned) world)); break;                           // fewer calls than ranks (incl. zero)
        case 1: p.push_back((std::size_t) world * (1 + g.below(3))); break;               // divisible
        case 2: p.push_back((std::size_t) world * (1 + g.below(3)) + 1 + g.below((unsigned) world)); break; // remainder
        case 3: p.push_back(0); break;
        default: p.push_back(1 + g.below(40)); break;
        }
    }
    return p;
}

template <typename T> static void family(rng& g, std::vector<int> const& worlds, bool thorough)
{
    for (int w : worlds)
    {
        unsigned s = 1 + (unsigned) g.below(1000);
        one_run<plain_k<T, counter_engine<64>, 64>, T>("counter64", counter_engine<64>(s), true, w, make_plan(g, w), 0.0);
        one_run<vegas_k<T, counter_engine<64>, 64>, T>("counter64", counter_engine<64>(s), true, w, make_plan(g, w), 0.0);
        one_run<mc_k<T, counter_engine<64>, 64>, T>("counter64", counter_engine<64>(s), true, w, make_plan(g, w), 0.0);
        one_run<plain_k<T, counter_engine<32>, 32>, T>("counter32", counter_engine<32>(s), true, w, make_plan(g, w), 0.0);
        one_run<mc_k<T, counter_engine<32>, 32>, T>("counter32", counter_engine<32>(s), true, w, make_plan(g, w), 0.0);
        one_run<mc1_k<T, counter_engine<64>, 64>, T>("counter64", counter_engine<64>(s), true, w, make_plan(g, w), 0.0);
        one_run<mc1c_k<T, counter_engine<64>, 64>, T>("counter64", counter_engine<64>(s), true, w, make_plan(g, w), 0.0);
        one_run<mcmd_k<T, counter_engine<64>, 64>, T>("counter64", counter_engine<64>(s), true, w, make_plan(g, w), 0.0);
        one_run<mcb0_k<T, std::mt19937, 0>, T>("mt19937", std::mt19937(s), false, w, std::vector<std::size_t>{60, 50, 70}, 0.0, hep::callback_mode::silent, 0, false,
            false, true);
        one_run<vegas0_k<T, std::mt19937, 0>, T>("mt19937", std::mt19937(s), false, w, std::vector<std::size_t>{120, 90, 150}, 0.0);
        if (w >= 2)
        {
            // an iteration in which some ranks have no calls at all (and one in which a rank has a single call with value zero), followed
            // by another one: every rank must go on with the refinement of the *reduced* result
            std::vector<std::size_t> forced{(std::size_t) w + 1, (std::size_t) w - 1, 2 * (std::size_t) w + 1};
            one_run<mc_k<T, counter_engine<64>, 64>, T>("counter64", counter_engine<64>(s), true, w, forced, 0.0);
            one_run<vegas_k<T, counter_engine<64>, 64>, T>("counter64", counter_engine<64>(s), true, w, forced, 0.0);
        }
        // values with more bits than a double holds (long double only): the reduction must be carried out in T
        if (sizeof(T) > sizeof(double))
            one_run<plain_k<T, counter_engine<64>, 64>, T>("counter64", counter_engine<64>(s), true, w, make_plan(g, w), 0.0, hep::callback_mode::silent, 0, true);
        // continued from a checkpoint with results (in memory): the first resumed iteration must use the refinement of the last result
        one_run<vegas_k<T, std::mt19937, 0>, T>("mt19937", std::mt19937(s), false, w, make_plan(g, w), 0.0, hep::callback_mode::silent, 1 + g.below(2));
        one_run<mc_k<T, std::mt19937, 0>, T>("mt19937", std::mt19937(s), false, w, make_plan(g, w), 0.0, hep::callback_mode::silent, 1);
        one_run<plain_k<T, counter_engine<64>, 64>, T>("counter64", counter_engine<64>(s), false, w, make_plan(g, w), 0.0, hep::callback_mode::silent, 2);
        if (thorough || w <= 4)
        {
            one_run<plain_k<T, std::mt19937, 0>, T>("mt19937", std::mt19937(s), false, w, std::vector<std::size_t>{300, 300, 300, 300}, 0.05);
            // the default (verbose) mode with a target precision: non-root ranks are silenced but must take the same decisions
            one_run<vegas_k<T, std::mt19937_64, 0>, T>("mt19937_64", std::mt19937_64(s), false, w, std::vector<std::size_t>{200, 200, 200, 200}, 0.1,
                hep::callback_mode::verbose);
            // an engine with an odd range: the number of raw draws per call must be predicted correctly for the skips
            one_run<plain_k<T, range_engine<1, 100000000>, 0>, T>("range1e8", range_engine<1, 100000000>(s), false, w, make_plan(g, w), 0.0);
            one_run<mc_k<T, range_engine<0, 999>, 0>, T>("range1000", range_engine<0, 999>(s), false, w, make_plan(g, w), 0.0);
            one_run<vegas_k<T, std::ranlux24, 0>, T>("ranlux24", std::ranlux24(s), false, w, make_plan(g, w), 0.0);
            one_run<mc_k<T, std::minstd_rand, 0>, T>("minstd_rand", std::minstd_rand(s), false, w, make_plan(g, w), 0.0);
        }
    }
}

int main(int argc, char** argv)
{
#ifdef VT_REAL_MPI
    MPI_Init(&argc, &argv);
    ids().hash = true;
    std::string path = std::string(argv[1]) + "." + std::to_string(my_rank());
    out().open(path.c_str());
#else
    out().open(argv[1]);
#endif
    if (argc < 4) return 2;
    install_abort_handler();
    rng g(std::strtoull(argv[2], nullptr, 10));
    bool thorough = std::atoi(argv[3]) != 0;
#ifdef VT_REAL_MPI
    int wsize = 1;
    MPI_Comm_size(MPI_COMM_WORLD, &wsize);
    std::vector<int> worlds{wsize};
#else
    std::vector<int> worlds = thorough ? std::vector<int>{1, 2, 3, 4, 5, 6, 7, 8, 9, 16, 17, 32, 33} : std::vector<int>{1, 2, 3, 4, 7, 8, 33};
#endif
    // verbose modes print: keep the output out of the way
    struct nullbuf : std::streambuf { int overflow(int c) override { return c; } } nb;
    std::streambuf* oldbuf = std::cout.rdbuf(&nb);
    (void) oldbuf;
    if (std::atoi(argv[3]) == 2)
    {
        // only the very long run: more non-zero evaluations than a float counts exactly (2^24)
        one_run<plain_k<float, counter_engine<64>, 64>, float>("counter64", counter_engine<64>(7), false, worlds.size() > 1 ? 3 : worlds[0],
            std::vector<std::size_t>{(std::size_t) (1u << 24) + 5 + 2 * g.below(10), 3} /* odd: not a float */, 0.0, hep::callback_mode::silent, 0, false, true);
        out().close();
#ifdef VT_REAL_MPI
        MPI_Finalize();
#endif
        return 0;
    }
    family<double>(g, worlds, thorough);
    // one large distribution (only here: its text is megabytes per result)
    one_run<plainwide_k<double, counter_engine<64>, 64>, double>("counter64", counter_engine<64>(3), true, worlds.size() > 1 ? 3 : worlds[0],
        std::vector<std::size_t>{40, 7}, 0.0);
    family<float>(g, thorough ? worlds : std::vector<int>{2, 5}, thorough);
    family<long double>(g, thorough ? worlds : std::vector<int>{3}, thorough);
    out().close();
#ifdef VT_REAL_MPI
    MPI_Finalize();
#endif
    return 0;
}
