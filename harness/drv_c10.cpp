// C10 driver: every call consumes a fixed, predictable amount of generator output.
//   drv_c10 <out.ndjson> <seed> <thorough>      (compile with -DVT_TYPE=float|double|"long double")
#include "vt_call.hpp"

#include <cstdlib>
#include <random>

using namespace vt;
#ifndef VT_TYPE
#define VT_TYPE double
#endif
typedef VT_TYPE T;

static std::vector<value_spec> make_plan(rng& g)
{
    std::vector<value_spec> p(37);
    static char const* tags[3] = {"nan", "+inf", "-inf"};
    for (auto& v : p)
    {
        int k = (int) g.below(10);
        v.f = k < 4 ? 0 : (int) g.range(-3, 3);
        v.tag = g.below(6) == 0 ? tags[g.below(3)] : "fin";
        v.wreq = g.below(2) == 0;
    }
    return p;
}

template <typename E>
static void zoo(rng& g, char const* name, E const& base, bool thorough)
{
    typedef counting<E> CE;
    CE engine(base);
    ev("Engine").s("name", name).s("T", type_name<T>::get()).i("digits", std::numeric_limits<T>::digits).i("lg", floor_log2_range<E>()).emit();
    std::vector<std::size_t> iters{0, 1, 5, 16};
    for (std::size_t d = 1; d <= (thorough ? 4u : 2u); ++d)
    {
        call_ctx<T> c;
        c.cfg.kind = "plain";
        c.cfg.d = d;
        c.plan = make_plan(g);
        c.dists = g.below(2) == 0;
        run_plain<T>(c, engine, iters);
    }
    {
        // once more with fewer dimensions than the run before (the same instantiation of the integrator is reused)
        call_ctx<T> c;
        c.cfg.kind = "plain";
        c.cfg.d = 1;
        c.plan = make_plan(g);
        run_plain<T>(c, engine, std::vector<std::size_t>{3, 7});
    }
    {
        std::size_t d = 1 + g.below(thorough ? 4 : 2);
        hep::vegas_pdf<T> pdf(d, 4);
        for (std::size_t j = 0; j != d; ++j) { pdf.set_bin_left(j, 1, T(0.0625)); pdf.set_bin_left(j, 2, T(0.25)); pdf.set_bin_left(j, 3, T(0.5)); }
        call_ctx<T> c;
        c.cfg.kind = "vegas";
        c.plan = make_plan(g);
        c.dists = g.below(2) == 0;
        run_vegas<T>(c, engine, pdf, iters, T(1.5));
    }
    for (int fam = 0; fam != 3; ++fam)
    {
        // (fam 2: exactly one channel - the selection still costs its number)
        std::vector<T> w = fam == 0 ? std::vector<T>{T(2), T(1), T(1), T(0)} : (fam == 1 ? std::vector<T>{T(0), T(1), T(0)} : std::vector<T>{T(1)});
        call_ctx<T> c;
        c.cfg.kind = "mc";
        c.cfg.d = 1 + g.below(thorough ? 3 : 2);
        c.cfg.densfam = fam % 2;
        c.plan = make_plan(g);
        c.dists = g.below(2) == 0;
        c.md = c.cfg.d + g.below(3); // more coordinates than random numbers: the consumption follows the random numbers
        run_mc<T>(c, engine, w, iters);
    }
}

// scripted generator outputs incl. the exact canonical number 0 (and the largest below 1) with leading / trailing disabled channels:
// the selector must still cost exactly one number
static void scripted_family(rng& g)
{
    std::vector<std::uint64_t> sc;
    for (int i = 0; i != 97; ++i) { int k = (int) g.below(4); sc.push_back(k == 0 ? 0ULL : (k == 1 ? ~0ULL : g.next())); }
    script_engine engine(script_registry::add(sc)); // counts its own draws
    ev("Engine").s("name", "script64").s("T", type_name<T>::get()).i("digits", std::numeric_limits<T>::digits).i("lg", 64).emit();
    for (int fam = 0; fam != 3; ++fam)
    {
        std::vector<T> w = fam == 0 ? std::vector<T>{T(0), T(1), T(0)} : (fam == 1 ? std::vector<T>{T(0), T(0), T(2), T(1)} : std::vector<T>{T(1), T(1), T(0)});
        call_ctx<T> c;
        c.cfg.kind = "mc";
        c.cfg.d = 1 + (std::size_t) fam % 2;
        c.cfg.densfam = 0;
        c.plan = make_plan(g);
        c.md = fam == 2 ? 3 : 0;
        c.dists = fam != 0;
        run_mc<T>(c, engine, w, std::vector<std::size_t>{0, 1, 5, 16, 40});
    }
    // the same scripted outputs for PLAIN and VEGAS: an exact zero is a number like any other
    {
        call_ctx<T> c;
        c.cfg.kind = "plain";
        c.cfg.d = 2;
        c.plan = make_plan(g);
        run_plain<T>(c, engine, std::vector<std::size_t>{0, 1, 5, 16, 40});
    }
    for (std::size_t d = 1; d <= 2; ++d)
    {
        hep::vegas_pdf<T> pdf(d, 4);
        for (std::size_t j = 0; j != d; ++j) { pdf.set_bin_left(j, 1, T(0.0625)); pdf.set_bin_left(j, 2, T(0.25)); pdf.set_bin_left(j, 3, T(0.5)); }
        call_ctx<T> c;
        c.cfg.kind = "vegas";
        c.plan = make_plan(g);
        c.dists = d == 2;
        run_vegas<T>(c, engine, pdf, std::vector<std::size_t>{0, 1, 5, 16, 40}, T(1.5));
    }
}

int main(int argc, char** argv)
{
    if (argc < 4) return 2;
    out().open(argv[1]);
    install_abort_handler();
    rng g(std::strtoull(argv[2], nullptr, 10));
    bool thorough = std::atoi(argv[3]) == 1;
    unsigned s = (unsigned) g.below(100000) + 1;
    if (std::atoi(argv[3]) == 2)
    {
        // probe: std::independent_bits_engine with 2^7, 2^24 and 2^53 values (each engine goes to a trace of its own, see checks/C10.py)
        zoo(g, "ibe_mt_24", std::independent_bits_engine<std::mt19937, 24, unsigned long>(std::mt19937(s)), false);
        zoo(g, "ibe_mt_7", std::independent_bits_engine<std::mt19937, 7, unsigned long>(std::mt19937(s)), false);
        zoo(g, "ibe_mt64_53", std::independent_bits_engine<std::mt19937_64, 53, unsigned long>(std::mt19937_64(s)), false);
        out().close();
        return 0;
    }
    scripted_family(g);
    zoo(g, "minstd_rand0", std::minstd_rand0(s), thorough);
    zoo(g, "minstd_rand", std::minstd_rand(s), thorough);
    zoo(g, "mt19937", std::mt19937(s), thorough);
    zoo(g, "mt19937_64", std::mt19937_64(s), thorough);
    zoo(g, "ranlux24_base", std::ranlux24_base(s), thorough);
    zoo(g, "ranlux48_base", std::ranlux48_base(s), thorough);
    zoo(g, "ranlux24", std::ranlux24(s), thorough);
    zoo(g, "ranlux48", std::ranlux48(s), thorough);
    zoo(g, "knuth_b", std::knuth_b(s), thorough);
    // synthetic engines with odd ranges: 3, 5, 255, 1000, 10^8, 2^16+1, 2^17, 2^31-2, 2^48
    zoo(g, "range3", range_engine<0, 2>(s), thorough);
    zoo(g, "range5", range_engine<1, 5>(s), thorough);
    zoo(g, "range255", range_engine<0, 254>(s), thorough);
    zoo(g, "range1000", range_engine<0, 999>(s), thorough);
    zoo(g, "range1e8", range_engine<1, 100000000>(s), thorough);
    zoo(g, "range65537", range_engine<0, 65536>(s), thorough);
    zoo(g, "range2^17", range_engine<0, 131071>(s), thorough);
    zoo(g, "range2^31-2", range_engine<1, 2147483646>(s), thorough);
    zoo(g, "range2^48", range_engine<0, 281474976710655ULL>(s), thorough);
    // ranges that start far from zero: what counts is the number of values, max - min + 1 (2^16, 3 and 2^32 of them)
    zoo(g, "shift2^31+2^16", range_engine<2147483648ULL, 2147549183ULL>(s), thorough);
    zoo(g, "shift10^6+3", range_engine<1000000, 1000002>(s), thorough);
    zoo(g, "shift2^40+2^32", range_engine<1099511627776ULL, 1103806595071ULL>(s), thorough);
    out().close();
    return 0;
}
