// System-call interposer for C18 (LD_PRELOAD).  Logs every call that touches a file below
// $VT_WATCH_DIR as one NDJSON event to $VT_SYSLOG, and can kill the process at a chosen point:
//   VT_KILL_AT=<n>:<when>   n = index (from 1) of the watched call; when = "b" (before the call), "a" (after it),
//                           or a number of bytes for write calls (only that prefix reaches the file)
// Paths starting with /vt-marker/ are never opened; they are logged as Marker events (the driver uses
// them to announce which checkpoint the following calls write).
#define _GNU_SOURCE
#include <dlfcn.h>
#include <errno.h>
#include <fcntl.h>
#include <stdarg.h>
#include <stdio.h>
#include <stdlib.h>
#include <string.h>
#include <sys/syscall.h>
#include <sys/uio.h>
#include <unistd.h>

static int log_fd = -1;
static long counter = 0;
static long kill_at = -1;
static char kill_when[32] = "";
static char watch[512] = "";
static char fd_path[1024][256];
static int initialised = 0;

static void init(void)
{
    if (initialised) return;
    initialised = 1;
    char const* l = getenv("VT_SYSLOG");
    char const* w = getenv("VT_WATCH_DIR");
    char const* k = getenv("VT_KILL_AT");
    if (w) strncpy(watch, w, sizeof watch - 1);
    if (l) log_fd = (int) syscall(SYS_openat, AT_FDCWD, l, O_WRONLY | O_CREAT | O_APPEND, 0644);
    if (k) { kill_at = atol(k); char const* c = strchr(k, ':'); if (c) strncpy(kill_when, c + 1, sizeof kill_when - 1); }
}
static void logline(char const* s) { if (log_fd >= 0) syscall(SYS_write, log_fd, s, strlen(s)); }
static int watched_path(char const* p) { return watch[0] && p && strncmp(p, watch, strlen(watch)) == 0; }
static int watched_fd(int fd) { return fd >= 0 && fd < 1024 && fd_path[fd][0]; }
static char const* base(char const* p) { char const* b = strrchr(p, '/'); return b ? b + 1 : p; }
static void die(void) { logline("{\"e\":\"Killed\"}\n"); syscall(SYS_exit_group, 137); }
// returns 1 if this is the call to be killed at
static int tick(void) { ++counter; return kill_at == counter; }

static int marker(char const* path)
{
    if (path && strncmp(path, "/vt-marker/", 11) == 0)
    {
        init();
        char b[512];
        snprintf(b, sizeof b, "{\"e\":\"Marker\",\"text\":\"%s\"}\n", path + 11);
        logline(b);
        errno = ENOENT;
        return 1;
    }
    return 0;
}

static int do_open(char const* path, int flags, mode_t mode, int dirfd)
{
    init();
    if (marker(path)) return -1;
    int w = watched_path(path);
    int k = 0;
    if (w) { k = tick(); if (k && kill_when[0] == 'b') die(); }
    int fd = (int) syscall(SYS_openat, dirfd, path, flags, mode);
    if (w && fd >= 0 && fd < 1024)
    {
        strncpy(fd_path[fd], base(path), 255);
        char b[512];
        snprintf(b, sizeof b, "{\"e\":\"Open\",\"path\":\"%s\",\"fd\":%d,\"trunc\":%d,\"creat\":%d,\"wr\":%d,\"n\":%ld,\"tid\":%ld}\n", base(path), fd,
            (flags & O_TRUNC) ? 1 : 0, (flags & O_CREAT) ? 1 : 0, (flags & (O_WRONLY | O_RDWR)) ? 1 : 0, counter, (long) syscall(SYS_gettid));
        logline(b);
    }
    if (w && k) die();
    return fd;
}
int open(char const* path, int flags, ...) { mode_t m = 0; if (flags & O_CREAT) { va_list a; va_start(a, flags); m = va_arg(a, mode_t); va_end(a); } return do_open(path, flags, m, AT_FDCWD); }
int open64(char const* path, int flags, ...) { mode_t m = 0; if (flags & O_CREAT) { va_list a; va_start(a, flags); m = va_arg(a, mode_t); va_end(a); } return do_open(path, flags, m, AT_FDCWD); }
int openat(int dirfd, char const* path, int flags, ...) { mode_t m = 0; if (flags & O_CREAT) { va_list a; va_start(a, flags); m = va_arg(a, mode_t); va_end(a); } return do_open(path, flags, m, dirfd); }

static FILE* do_fopen(char const* path, char const* mode)
{
    init();
    if (marker(path)) return NULL;
    int flags = 0;
    if (mode[0] == 'r') flags = strchr(mode, '+') ? O_RDWR : O_RDONLY;
    else if (mode[0] == 'w') flags = (strchr(mode, '+') ? O_RDWR : O_WRONLY) | O_CREAT | O_TRUNC;
    else flags = (strchr(mode, '+') ? O_RDWR : O_WRONLY) | O_CREAT | O_APPEND;
    int fd = do_open(path, flags, 0666, AT_FDCWD);
    if (fd < 0) return NULL;
    return fdopen(fd, mode);
}
FILE* fopen(char const* path, char const* mode) { return do_fopen(path, mode); }
FILE* fopen64(char const* path, char const* mode) { return do_fopen(path, mode); }

static ssize_t logged_write(int fd, void const* buf, size_t n)
{
    int k = tick();
    size_t todo = n;
    if (k)
    {
        if (kill_when[0] == 'b') die();
        if (kill_when[0] >= '0' && kill_when[0] <= '9') { size_t lim = (size_t) atol(kill_when); if (lim < todo) todo = lim; }
    }
    ssize_t r = todo ? syscall(SYS_write, fd, buf, todo) : 0;
    char b[512];
    snprintf(b, sizeof b, "{\"e\":\"Write\",\"path\":\"%s\",\"fd\":%d,\"req\":%zu,\"done\":%zd,\"n\":%ld}\n", fd_path[fd], fd, n, r, counter);
    logline(b);
    if (k) die();
    return r;
}
ssize_t write(int fd, void const* buf, size_t n)
{
    init();
    if (!watched_fd(fd)) return syscall(SYS_write, fd, buf, n);
    return logged_write(fd, buf, n);
}
ssize_t writev(int fd, struct iovec const* iov, int cnt)
{
    init();
    if (!watched_fd(fd)) return syscall(SYS_writev, fd, iov, cnt);
    // flatten so that byte prefixes are well defined
    size_t total = 0;
    for (int i = 0; i != cnt; ++i) total += iov[i].iov_len;
    char* tmp = (char*) malloc(total ? total : 1);
    size_t off = 0;
    for (int i = 0; i != cnt; ++i) { memcpy(tmp + off, iov[i].iov_base, iov[i].iov_len); off += iov[i].iov_len; }
    ssize_t r = logged_write(fd, tmp, total);
    free(tmp);
    return r;
}
int close(int fd)
{
    init();
    if (!watched_fd(fd)) return (int) syscall(SYS_close, fd);
    int k = tick();
    if (k && kill_when[0] == 'b') die();
    int r = (int) syscall(SYS_close, fd);
    char b[512];
    snprintf(b, sizeof b, "{\"e\":\"Close\",\"path\":\"%s\",\"fd\":%d,\"n\":%ld}\n", fd_path[fd], fd, counter);
    logline(b);
    fd_path[fd][0] = 0;
    if (k) die();
    return r;
}
int rename(char const* from, char const* to)
{
    init();
    if (!watched_path(from) && !watched_path(to)) return (int) syscall(SYS_renameat, AT_FDCWD, from, AT_FDCWD, to);
    int k = tick();
    if (k && kill_when[0] == 'b') die();
    int r = (int) syscall(SYS_renameat, AT_FDCWD, from, AT_FDCWD, to);
    char b[768];
    snprintf(b, sizeof b, "{\"e\":\"Rename\",\"from\":\"%s\",\"to\":\"%s\",\"ok\":%d,\"n\":%ld}\n", base(from), base(to), r == 0 ? 1 : 0, counter);
    logline(b);
    if (k) die();
    return r;
}
int unlink(char const* path)
{
    init();
    if (!watched_path(path)) return (int) syscall(SYS_unlinkat, AT_FDCWD, path, 0);
    int k = tick();
    if (k && kill_when[0] == 'b') die();
    int r = (int) syscall(SYS_unlinkat, AT_FDCWD, path, 0);
    char b[512];
    snprintf(b, sizeof b, "{\"e\":\"Unlink\",\"path\":\"%s\",\"ok\":%d,\"n\":%ld}\n", base(path), r == 0 ? 1 : 0, counter);
    logline(b);
    if (k) die();
    return r;
}
