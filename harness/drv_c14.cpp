// C14 driver: long sums do not lose accuracy with the number of calls.
//  (1) hep::accumulate<minifloat<P>> - the library's own template on the toy format of spec/Kahan.tla - over
//      exhaustive short and adversarial long sequences;
//  (2) hep::plain on float / double / long double with N up to 10^5 (10^7 thorough), against an exact integer sum.
//   drv_c14 <out.ndjson> <seed> <thorough>
#include "hep/mc.hpp"
#include "vt_minifloat.hpp"
#include "vt_trace.hpp"

#include <cmath>
#include <cstdlib>
#include <vector>

using namespace vt;

static long long const alphabet[8] = {1, -1, 3, -5, 16, 48, -80, 256};

// run-length encoded sequence: pairs (value, count)
typedef std::vector<std::pair<long long, long long>> rle;

template <int P> static void toy(rle const& s, char const* family)
{
    minifloat<P> sum, sumsq, comp;
    for (auto const& pr : s) for (long long k = 0; k != pr.second; ++k) hep::accumulate(sum, sumsq, comp, minifloat<P>(pr.first));
    std::vector<long long> flat;
    for (auto const& pr : s) { flat.push_back(pr.first); flat.push_back(pr.second); }
    ev("Toy").i("P", P).s("family", family).a("rle", flat).i("sum", sum.v).emit();
}
template <int P> static void toy_long(rng& g, bool thorough);
template <int P> static void toy_all(rng& g, bool thorough)
{
    // exhaustive: all sequences over the alphabet up to length 4 (5 in thorough)
    int maxlen = thorough ? 5 : 4;
    for (int len = 0; len <= maxlen; ++len)
    {
        long total = 1;
        for (int k = 0; k != len; ++k) total *= 8;
        for (long code = 0; code != total; ++code)
        {
            rle s;
            long c = code;
            for (int k = 0; k != len; ++k) { s.push_back({alphabet[c % 8], 1}); c /= 8; }
            toy<P>(s, "exhaustive");
        }
    }
}
// adversarial long sequences (P = 16: the second-order term n u^2 of the error bound is negligible)
template <int P> static void toy_long(rng& g, bool thorough)
{
    for (int k = 0; k != (thorough ? 200 : 40); ++k)
    {
        long long big = 1LL << (P + 1 + g.below(6)), n = 10 + (long long) g.below(thorough ? 100000 : 3000);
        toy<P>(rle{{big, 1}, {1, n}}, "large-then-small");
        toy<P>(rle{{big, 1}, {-1, n}, {3, n / 2}}, "large-then-small-mixed");
        rle alt;
        for (int i = 0; i != 40; ++i) alt.push_back({(i % 2 ? -1 : 1) * (long long) (1 + g.below(300)), 1 + (long long) g.below(5)});
        toy<P>(alt, "alternating");
        rle geo;
        for (long long v = 1LL << (P + 4); v >= 1; v /= 2) geo.push_back({v, 1 + (long long) g.below(50)});
        toy<P>(geo, "geometric");
        rle rnd;
        for (int i = 0; i != 60; ++i) rnd.push_back({(long long) (g.below(2) ? 1 : -1) * (1LL << g.below(P + 4)) * (1 + (long long) g.below(3)), 1 + (long long) g.below(20)});
        toy<P>(rnd, "random-magnitudes");
    }
}

// ---- real types through hep::plain; values are integers times 2^-e so that the exact sum fits __int128
template <typename T> struct seqgen
{
    int family;
    long long N;
    rng g;
    long long big;
    seqgen(int f, long long n, unsigned long long seed) : family(f), N(n), g(seed), big(1LL << 40) {}
    long long at(long long i)
    {
        switch (family)
        {
        case 0: return i == 0 ? big : 1;                                        // one large then very many small
        case 1: return (i % 2 ? -1 : 1) * (long long) (1 + g.below(1000000));   // alternating signs
        case 2: return big >> (i < 40 ? i : 40);                                // geometric decay
        case 3: return (long long) (g.below(2) ? 1 : -1) * (1LL << g.below(40)); // random magnitudes
        default: return i % 1000 == 0 ? big : -((long long) g.below(7));         // large spikes between small negative values
        }
    }
};
static char const* famname(int f) { static char const* n[5] = {"large-then-small", "alternating", "geometric", "random-magnitudes", "spikes"}; return n[f]; }

template <typename T> static long long err_ulps(T got, __int128 exact, __int128 abssum, int e)
{
    // everything in units of 2^-e; ulp of the sum of magnitudes in T
    long double a = std::ldexp((long double) abssum, -e);
    int ex;
    std::frexp((T) a, &ex);
    long double ulp = std::ldexp(1.0L, ex - std::numeric_limits<T>::digits);
    long double want = std::ldexp((long double) exact, -e); // |exact| < 2^64 * ..., long double carries 64 bits: adequate as reference for T up to double;
    long double diff = std::fabs((long double) got - want);
    return (long long) std::ceil(diff / ulp);
}

template <typename T> static void real_run(int family, long long N, unsigned long long seed, bool huge = false)
{
    int const e = 20; // values are integers * 2^-20
    // huge: every value is scaled by a power of two that puts it above the square root of the largest finite number (the squares overflow,
    // the values and their sum are as finite as before)
    int const shift = huge ? std::numeric_limits<T>::max_exponent / 2 + 24 : 0;
    seqgen<T> gen(family, N, seed);
    std::vector<long long> vals((std::size_t) N);
    // distribution 0 is two-dimensional (2 x 2 bins), distribution 1 has two bins: call i goes to distribution i % 2, bin (i / 2) % (number of bins)
    __int128 exact = 0, abssum = 0, bexact[3][4] = {{0, 0, 0, 0}, {0, 0, 0, 0}, {0, 0, 0, 0}}, babs[3][4] = {{0, 0, 0, 0}, {0, 0, 0, 0}, {0, 0, 0, 0}};
    // distribution 2 (two bins) is filled twice in every call, each time with the value: its bin (i % 2) holds twice the sum of those values
    for (long long i = 0; i != N; ++i)
    {
        long long v = gen.at(i);
        vals[(std::size_t) i] = v;
        exact += v; abssum += v < 0 ? -v : v;
        int d = (int) (i % 2), b = (int) ((i / 2) % (d == 0 ? 4 : 2));
        bexact[d][b] += v; babs[d][b] += v < 0 ? -v : v;
        bexact[2][i % 2] += 2 * v; babs[2][i % 2] += 2 * (v < 0 ? -v : v);
    }
    long long idx = 0;
    auto f = [&](hep::mc_point<T> const&, hep::projector<T>& pr) {
        long long i = idx++;
        T v = std::ldexp((T) vals[(std::size_t) i], -e + shift);
        if (i % 2 == 0) { long long b = (i / 2) % 4; pr.add(0, T(0.25) + T(0.5) * T(b % 2), T(0.25) + T(0.5) * T(b / 2), v); }
        else pr.add(1, T(0.25) + T(0.5) * T((i / 2) % 2), v);
        // (distribution 2 has wide bins: [0, 2048) in two bins of size 1024)
        pr.add(2, T(256) + T(1024) * T(i % 2), v);
        pr.add(2, T(256) + T(1024) * T(i % 2), v);
        return v;
    };
    auto r = hep::plain(hep::make_integrand<T>(f, 1, hep::distribution_parameters<T>(2, 2, T(), T(1), T(), T(1), "a"), hep::make_dist_params<T>(2, T(), T(1), "b"), hep::make_dist_params<T>(2, T(), T(2048), "c")),
        std::vector<std::size_t>{(std::size_t) N}, hep::make_plain_chkpt<T>(), hep::callback<hep::default_plain_chkpt<T>>(hep::callback_mode::silent));
    auto const& res = r.results()[0];
    std::vector<long long> bins;
    for (int d = 0; d != 3; ++d)
        for (int b = 0; b != (d == 0 ? 4 : 2); ++b)
        {
            // the bin stores sum / bin size (0.25, 0.5 resp. 1024): multiply back (exact)
            T s = std::ldexp(res.distributions()[(std::size_t) d].results()[(std::size_t) b].sum() * (d == 0 ? T(0.25) : (d == 1 ? T(0.5) : T(1024))), -shift);
            bins.push_back(err_ulps<T>(s, bexact[d][b], babs[d][b] ? babs[d][b] : 1, e));
        }
    ev("SumCheck").s("T", type_name<T>::get()).s("family", std::string(famname(family)) + (huge ? "-huge" : "")).i("N", N)
        .i("errUlps", err_ulps<T>(std::ldexp(res.sum(), -shift), exact, abssum ? abssum : 1, e)).a("binErrUlps", bins).emit();
}

// very many contributions to the same bin within a single call: 1 followed by 4096 values of a quarter ulp of 1 - every single one of
// them is below half an ulp of the running sum, together they are 2048 ulp per call
template <typename T> static void many_adds(long long N)
{
    int const e = std::numeric_limits<T>::digits + 1;   // values are integers * 2^-e
    long long const m = 4096;
    T const tiny = std::ldexp(T(1), -e);
    auto f = [&](hep::mc_point<T> const&, hep::projector<T>& pr) {
        pr.add(0, T(0.25), T(1));
        for (long long k = 0; k != m; ++k) pr.add(0, T(0.25), tiny);
        return T(1);
    };
    auto r = hep::plain(hep::make_integrand<T>(f, 1, hep::make_dist_params<T>(2, T(), T(1), "many")), std::vector<std::size_t>{(std::size_t) N},
        hep::make_plain_chkpt<T>(), hep::callback<hep::default_plain_chkpt<T>>(hep::callback_mode::silent));
    auto const& res = r.results()[0];
    __int128 exact = (__int128) N * (((__int128) 1 << e) + m), main_exact = (__int128) N << e;
    T s = res.distributions()[0].results()[0].sum() * T(0.5);
    ev("SumCheck").s("T", type_name<T>::get()).s("family", "many-adds-per-call").i("N", N).i("errUlps", err_ulps<T>(res.sum(), main_exact, main_exact, e))
        .a("binErrUlps", std::vector<long long>{err_ulps<T>(s, exact, exact, e)}).emit();
}

// several iterations in one run, no distributions: the first leaves a pending compensation behind (1024 followed by very many values far below
// its last place), the following ones are short and made of such small values only - their sums are exact
template <typename T> static void carry_run(long long N)
{
    int const e = std::numeric_limits<T>::digits + 1;
    T const tiny = std::ldexp(T(1), -e);
    long long idx = 0;
    auto f = [&](hep::mc_point<T> const&) { long long i = idx++; return i == 0 ? T(1024) : (i < N ? tiny * T(1 + i % 3) : tiny * T(3 + (i - N))); };
    auto r = hep::plain(hep::make_integrand<T>(f, 1), std::vector<std::size_t>{(std::size_t) N, 3, 1}, hep::make_plain_chkpt<T>(),
        hep::callback<hep::default_plain_chkpt<T>>(hep::callback_mode::silent));
    // second iteration: 3 + 4 + 5 = 12, third: 6 (units 2^-e)
    ev("SumCheck").s("T", type_name<T>::get()).s("family", "after-a-long-iteration").i("N", 3).i("errUlps", err_ulps<T>(r.results()[1].sum(), 12, 12, e))
        .a("binErrUlps", std::vector<long long>{err_ulps<T>(r.results()[2].sum(), 6, 6, e)}).emit();
}

// values in the subnormal range (small multiples of the smallest positive number): sums of them are exact in every order, for the
// integral and for the bins - nothing of them may be dropped
template <typename T> static void subnormal_run(long long N, unsigned long long seed)
{
    rng g(seed);
    T const dm = std::numeric_limits<T>::denorm_min();
    std::vector<long long> vals((std::size_t) N);
    __int128 exact = 0, abssum = 0, bexact[2] = {0, 0}, babs[2] = {0, 0};
    for (long long i = 0; i != N; ++i)
    {
        long long v = (long long) (1 + g.below(7)) * (g.below(4) == 0 ? -1 : 1);
        vals[(std::size_t) i] = v;
        exact += v; abssum += v < 0 ? -v : v;
        bexact[i % 2] += v; babs[i % 2] += v < 0 ? -v : v;
    }
    long long idx = 0;
    auto f = [&](hep::mc_point<T> const&, hep::projector<T>& pr) {
        long long i = idx++;
        T v = T(vals[(std::size_t) i]) * dm;
        pr.add(0, T(0.25) + T(0.5) * T(i % 2), v);
        pr.add(1, T(0.25) + T(0.5) * T(i % 2), T(0.25), v);
        return v;
    };
    auto r = hep::plain(hep::make_integrand<T>(f, 1, hep::make_dist_params<T>(2, T(), T(1), "s"), hep::distribution_parameters<T>(2, 1, T(), T(1), T(), T(1), "s2")),
        std::vector<std::size_t>{(std::size_t) N}, hep::make_plain_chkpt<T>(), hep::callback<hep::default_plain_chkpt<T>>(hep::callback_mode::silent));
    auto const& res = r.results()[0];
    // in units of the smallest positive number (= one ulp everywhere in the subnormal range); the bins store sum / 0.5
    auto units = [&](T x, __int128 want) { long double d = std::fabs((long double) x / (long double) dm - (long double) want); return (long long) std::ceil(d); };
    std::vector<long long> bins;
    for (int d = 0; d != 2; ++d) for (int b = 0; b != 2; ++b) bins.push_back(units(res.distributions()[(std::size_t) d].results()[(std::size_t) b].sum() * T(0.5), bexact[b]));
    ev("SumCheck").s("T", type_name<T>::get()).s("family", "subnormal").i("N", N).i("errUlps", units(res.sum(), exact)).a("binErrUlps", bins).emit();
}

template <typename T> static void real_family(rng& g, bool thorough)
{
    subnormal_run<T>(1000, g.next());
    subnormal_run<T>(1, g.next());
    std::vector<long long> Ns{1, 1000, 100000};
    if (thorough) { Ns.push_back(3000000); Ns.push_back(10000000); }
    for (int f = 0; f != 5; ++f) for (long long N : Ns) real_run<T>(f, N, g.next());
    for (int f = 0; f != 5; ++f) real_run<T>(f, 1000, g.next(), true);
    many_adds<T>(thorough ? 4000 : 800);
    carry_run<T>(thorough ? 1000000 : 100000);
}

int main(int argc, char** argv)
{
    if (argc < 4) return 2;
    out().open(argv[1]);
    install_abort_handler();
    rng g(std::strtoull(argv[2], nullptr, 10));
    bool thorough = std::atoi(argv[3]) != 0;
    toy_all<3>(g, thorough); toy_all<4>(g, thorough); toy_all<5>(g, thorough); toy_long<16>(g, thorough);
    real_family<float>(g, thorough);
    real_family<double>(g, thorough);
    real_family<long double>(g, thorough);
    out().close();
    return 0;
}
