// (the binnings of the two distributions - 25 bins on [0.1, 1), 6 x 7 bins on [0.2, 1) x [0.1, 1) - have bin sizes that are not exactly
// representable: what the text stores must reproduce them bit for bit)
// Session driver (C03, C15, C19): executes histories of run / save+load / file / rollback / resume on
// the real integrators and records one event per action of spec/Trace_Session.tla.
//   drv_session <out.ndjson> <seed> <thorough> <scratch-dir>     (-DVT_TYPE=float|double|"long double")
#include "hep/mc.hpp"
#include "vt_engines.hpp"
#include "vt_trace.hpp"

#include <cmath>
#include <cstdlib>
#include <fstream>
#include <functional>
#include <locale>
#include <random>
#include <sstream>
#include <stdexcept>

using namespace vt;
#ifndef VT_TYPE
#define VT_TYPE double
#endif
typedef VT_TYPE T;

static std::string scratch;
static int cfg_counter = 0;
static int mode_mask = 3; // 1: compositions, 2: rollback histories

struct ctx
{
    bool used_ok = true;
    std::vector<T> expect_weights;                 // mc: weights the current iteration must sample with
    std::vector<std::vector<T>> expect_grid;       // vegas: grid the current iteration must sample with
    int dists = 0;
    bool half = false;   // integrand vanishes on half of the domain
    bool constant = false; // (PLAIN) the integrand is constant
    long iter = 0;       // index (0-based, counted over the whole history) of the iteration in progress
    long zero_iter = -1; // the integrand is identically zero in this iteration
    std::vector<std::string> names;
};

template <typename C> static std::string text_of(C const& c)
{
    std::ostringstream o;
    c.serialize(o);
    return o.str();
}

static bool close_to(T a, T b, T tol) { return std::fabs(a - b) <= tol * std::fabs(b); }

// ------------------------------------------------------------------------------------------------
// integrator kinds
struct plain_kind
{
    static char const* name() { return "plain"; }
    template <typename E> struct types { typedef decltype(hep::make_plain_chkpt<T, E>(E())) chk; };
    typedef hep::plain_chkpt<T> base; // the checkpoint type without the generators (what examples instantiate the callback with)
    template <typename E> static typename types<E>::chk fresh(E const& e, int) { return hep::make_plain_chkpt<T, E>(e); }
    template <typename E> static typename types<E>::chk load(std::istream& in) { return hep::make_plain_chkpt<T, E>(in); }
    template <typename C> static void prepare(C&) {}
    template <typename C> static long state_id(C const&) { return 0; }
    template <typename C> static long derived_id(C const&) { return 0; }
    template <typename R> static long recorded_id(R const&) { return 0; }
    template <typename C> static void expect(ctx&, C const&) {}
    template <typename C, typename CB> static C run(ctx& x, C const& c, std::vector<std::size_t> const& calls, CB cb)
    {
        // (constant: every result has the variance zero, the combination of the results is not a number - a checkpoint like any other)
        auto f0 = [&x](hep::mc_point<T> const& p) { return x.constant ? T(2) : p.point()[0] * p.point()[0] + T(0.25) * p.point()[1]; };
        std::vector<std::string> const& nm = x.names;
        auto f1 = [](hep::mc_point<T> const& p, hep::projector<T>& pr) {
            T v = p.point()[0] * p.point()[0] + T(0.25) * p.point()[1];
            pr.add(0, p.point()[0], v);
            pr.add(1, p.point()[0], p.point()[1], v);
            // an observable may be filled more than once per call: a bin can then hold more entries than the iteration had calls
            for (int rep = 0; rep != 3; ++rep) pr.add(0, T(0.5), v * T(0.5));
            return v;
        };
        if (x.dists)
            return hep::plain(hep::make_integrand<T>(f1, 2, hep::make_dist_params<T>(25, T(0.1), T(1), nm[0]),
                hep::distribution_parameters<T>(6, 7, T(0.2), T(1), T(0.1), T(1), nm[1])), calls, c, cb);
        return hep::plain(hep::make_integrand<T>(f0, 2), calls, c, cb);
    }
};

struct vegas_kind
{
    static char const* name() { return "vegas"; }
    template <typename E> struct types { typedef decltype(hep::make_vegas_chkpt<T, E>(8, T(1.5), E())) chk; };
    typedef hep::vegas_chkpt<T> base;
    template <typename E> static typename types<E>::chk fresh(E const& e, int variant)
    {
        if (variant == 0) return hep::make_vegas_chkpt<T, E>(8, T(1.5), e);
        if (variant == 2) return hep::make_vegas_chkpt<T, E>(16, T(), e);   // no damping at all
        hep::vegas_pdf<T> pdf(2, 6);
        static double const g[7] = {0.0, 0.05, 0.2, 0.3, 0.55, 0.9, 1.0};
        // (a grid may be filled in any order: the second dimension from the right to the left)
        for (std::size_t b = 1; b != 6; ++b) pdf.set_bin_left(0, b, T(g[b]));
        for (std::size_t b = 5; b != 0; --b) pdf.set_bin_left(1, b, T(g[b]) + T(0.01));
        return hep::make_vegas_chkpt<T, E>(pdf, T(0.8), e);
    }
    template <typename E> static typename types<E>::chk load(std::istream& in) { return hep::make_vegas_chkpt<T, E>(in); }
    template <typename C> static void prepare(C& c) { c.dimensions(2); }
    static std::string grid_text(hep::vegas_pdf<T> const& p)
    {
        std::string s;
        for (std::size_t d = 0; d != p.dimensions(); ++d) for (std::size_t b = 0; b <= p.bins(); ++b) s += hexfloat(p.bin_left(d, b)) + " ";
        return "g:" + s;
    }
    template <typename C> static long state_id(C const& c) { return ids().id(grid_text(c.pdf())); }
    // the refinement of the last result, computed with the library's refinement function directly
    template <typename C> static long derived_id(C const& c)
    {
        auto const& r = c.results().back();
        return ids().id(grid_text(hep::vegas_refine_pdf(r.pdf(), c.alpha(), r.adjustment_data())));
    }
    template <typename R> static long recorded_id(R const& r) { return ids().id(grid_text(r.pdf())); }
    template <typename C> static void expect(ctx& x, C const& c)
    {
        auto p = c.pdf();
        x.expect_grid.assign(p.dimensions(), std::vector<T>());
        for (std::size_t d = 0; d != p.dimensions(); ++d) for (std::size_t b = 0; b <= p.bins(); ++b) x.expect_grid[d].push_back(p.bin_left(d, b));
    }
    static void observe(ctx& x, hep::vegas_point<T> const& p)
    {
        T w = T(1);
        for (std::size_t d = 0; d != x.expect_grid.size(); ++d)
        {
            std::size_t b = p.bin()[d];
            std::vector<T> const& g = x.expect_grid[d];
            if (b + 1 >= g.size() || !(g[b] <= p.point()[d] && p.point()[d] <= g[b + 1])) { x.used_ok = false; return; }
            w *= (g[b + 1] - g[b]) * T(g.size() - 1);
        }
        if (!close_to(p.weight(), w, T(8) * std::numeric_limits<T>::epsilon())) x.used_ok = false;
    }
    template <typename C, typename CB> static C run(ctx& x, C const& c, std::vector<std::size_t> const& calls, CB cb)
    {
        auto f0 = [&x](hep::vegas_point<T> const& p) {
            observe(x, p);
            if (x.iter == x.zero_iter) return T();
            T d = (p.point()[0] - T(0.3)) * T(8);
            if (x.half && p.point()[0] > T(0.5)) return T();
            return T(1) / (T(1) + d * d) + p.point()[1];
        };
        auto f1 = [&x](hep::vegas_point<T> const& p, hep::projector<T>& pr) {
            observe(x, p);
            if (x.iter == x.zero_iter) return T();
            T d = (p.point()[0] - T(0.3)) * T(8);
            T v = T(1) / (T(1) + d * d) + p.point()[1];
            pr.add(0, p.point()[0], v);
            pr.add(1, p.point()[0], p.point()[1], v);
            for (int rep = 0; rep != 3; ++rep) pr.add(0, T(0.5), v * T(0.5));
            return v;
        };
        std::vector<std::string> const& nm = x.names;
        if (x.dists)
            return hep::vegas(hep::make_integrand<T>(f1, 2, hep::make_dist_params<T>(25, T(0.1), T(1), nm[0]),
                hep::distribution_parameters<T>(6, 7, T(0.2), T(1), T(0.1), T(1), nm[1])), calls, c, cb);
        return hep::vegas(hep::make_integrand<T>(f0, 2), calls, c, cb);
    }
};

struct mc_kind
{
    static char const* name() { return "mc"; }
    template <typename E> struct types { typedef decltype(hep::make_multi_channel_chkpt<T, E>(T(), T(0.25), E())) chk; };
    typedef hep::multi_channel_chkpt<T> base;
    template <typename E> static typename types<E>::chk fresh(E const& e, int variant)
    {
        if (variant == 0) return hep::make_multi_channel_chkpt<T, E>(T(0.02), T(0.25), e);
        // user weights whose normalisation is clamped by the minimum weight (normalising twice would change them)
        if (variant == 2) return hep::make_multi_channel_chkpt<T, E>(std::vector<T>{T(18), T(0), T(1), T(1)}, T(0.1), T(0.25), e);
        // user weights: unnormalised, with a disabled channel
        // a minimum weight that all channels together cannot have (4 x 0.3 > 1): every weight is raised to it, then they are normalised
        if (variant == 3) return hep::make_multi_channel_chkpt<T, E>(std::vector<T>{T(3), T(1), T(1), T(1)}, T(0.3), T(0.5), e);
        return hep::make_multi_channel_chkpt<T, E>(std::vector<T>{T(2), T(0), T(1), T(1)}, T(0.05), T(0.5), e);
    }
    template <typename E> static typename types<E>::chk load(std::istream& in) { return hep::make_multi_channel_chkpt<T, E>(in); }
    template <typename C> static void prepare(C& c) { c.channels(4); }
    template <typename C> static long state_id(C const& c) { return ids().id("w:" + hexvec(c.channel_weights())); }
    template <typename C> static long derived_id(C const& c)
    {
        auto const& r = c.results().back();
        return ids().id("w:" + hexvec(hep::multi_channel_refine_weights(r.channel_weights(), r.adjustment_data(), c.min_weight(), c.beta())));
    }
    template <typename R> static long recorded_id(R const& r) { return ids().id("w:" + hexvec(r.channel_weights())); }
    template <typename C> static void expect(ctx& x, C const& c) { x.expect_weights = c.channel_weights(); }
    static void dens(T y, std::vector<T>& d)
    {
        d[0] = T(1);
        d[1] = y > T() ? T(0.5) / std::sqrt(y) : T(1e6);
        d[2] = T(2) * y;
        d[3] = T(3) * y * y;
    }
    template <typename C, typename CB> static C run(ctx& x, C const& c, std::vector<std::size_t> const& calls, CB cb)
    {
        auto map = [](std::size_t ch, std::vector<T> const& r, std::vector<T>& co, std::vector<std::size_t> const&, std::vector<T>& de,
            hep::multi_channel_map action) {
            T u = r[0];
            co[0] = ch == 0 ? u : (ch == 1 ? u * u : (ch == 2 ? std::sqrt(u) : std::cbrt(u)));
            if (action == hep::multi_channel_map::calculate_densities) dens(co[0], de);
            return T(1);
        };
        auto obs = [&x](hep::multi_channel_point<T> const& p) {
            std::vector<T> d(4);
            dens(p.coordinates()[0], d);
            T tot = T();
            for (std::size_t j = 0; j != 4; ++j) tot += x.expect_weights[j] * d[j];
            if (x.expect_weights[p.channel()] == T()) x.used_ok = false;
            if (!close_to(p.weight(), T(1) / tot, T(16) * std::numeric_limits<T>::epsilon())) x.used_ok = false;
        };
        auto f0 = [obs, &x](hep::multi_channel_point<T> const& p) { obs(p); if (x.iter == x.zero_iter) return T(); T y = p.coordinates()[0]; return y * (T(1) - y) * T(6); };
        auto f1 = [obs, &x](hep::multi_channel_point<T> const& p, hep::projector<T>& pr) {
            obs(p);
            if (x.iter == x.zero_iter) return T();
            T y = p.coordinates()[0];
            T v = y * (T(1) - y) * T(6);
            pr.add(0, y, v);
            pr.add(1, y, p.point()[0], v);
            for (int rep = 0; rep != 3; ++rep) pr.add(0, T(0.5), v * T(0.5));
            return v;
        };
        std::vector<std::string> const& nm = x.names;
        if (x.dists)
            return hep::multi_channel(hep::make_multi_channel_integrand<T>(f1, 1, map, 1, 4, hep::make_dist_params<T>(25, T(0.1), T(1), nm[0]),
                hep::distribution_parameters<T>(6, 7, T(0.2), T(1), T(0.1), T(1), nm[1])), calls, c, cb);
        return hep::multi_channel(hep::make_multi_channel_integrand<T>(f0, 1, map, 1, 4), calls, c, cb);
    }
};

// ------------------------------------------------------------------------------------------------
// the logging callback: wraps the built-in callback (mode / file / target), one Iter event per call
template <typename K, typename C>
struct logging_cb
{
    ctx* x;
    hep::callback<C> inner;
    // the same built-in callback instantiated with the base checkpoint type: what it writes to its file is the whole checkpoint all the same
    hep::callback<typename K::base> inner_base;
    bool use_base;
    std::vector<std::size_t> const* calls;
    std::size_t* index; // index into calls of the iteration that just finished
    bool* last;         // what the wrapped callback returned last
    bool operator()(C const& c)
    {
        auto const& r = c.results().back();
        long derived = K::derived_id(c); // refinement of the state and data recorded in the last result under alpha / beta / min weight
        ev("Iter").i("chkstate", K::state_id(c)).i("calls", (long long) (*calls)[*index]).i("n", (long long) c.results().size()).i("text", ids().id("t:" + text_of(c)))
            .i("recorded", K::recorded_id(r)).i("derived", derived).i("usedOk", x->used_ok ? 1 : 0).i("rcalls", (long long) r.calls()).emit();
        ++*index;
        ++x->iter;
        x->used_ok = true;
        K::expect(*x, c);
        *last = use_base ? inner_base(c) : inner(c);
        return *last;
    }
};

enum transport { t_none, t_memory, t_text, t_file };
static char const* tname(int t) { return t == t_memory ? "memory" : (t == t_text ? "text" : (t == t_file ? "file" : "none")); }

template <typename K, typename E>
struct session
{
    typedef typename K::template types<E>::chk C;
    ctx x;
    int variant;
    T target;
    std::string file;
    E seed_engine;

    C fresh() { C c = K::fresh(seed_engine, variant); K::prepare(c); return c; }

    // run one segment from checkpoint c; returns the checkpoint and whether the callback stopped the run
    C segment(C c, std::vector<std::size_t> const& calls, int via, bool write_file, bool& stopped)
    {
        K::prepare(c);
        ev b("Begin");
        b.s("via", tname(via)).i("state", K::state_id(c));
        b.emit();
        std::size_t index = 0;
        x.iter = (long) c.results().size();
        x.used_ok = true;
        K::expect(x, c);
        hep::callback_mode const mode = write_file ? hep::callback_mode::silent_and_write_chkpt : hep::callback_mode::silent;
        logging_cb<K, C> cb{&x, hep::callback<C>(mode, file, target), hep::callback<typename K::base>(mode, file, target), calls.size() % 2 == 0,
            &calls, &index, &stopped};
        stopped = true;
        C r = K::run(x, c, calls, cb);
        stopped = !calls.empty() && !stopped; // the callback asked to stop (possibly exactly at the end of this segment)
        ev("End").i("n", (long long) r.results().size()).i("stopped", stopped ? 1 : 0).emit();
        return r;
    }

    C reload(C const& c, int via)
    {
        std::string t = text_of(c);
        if (via == t_file)
        {
            std::ifstream in(file.c_str());
            std::stringstream ss;
            ss << in.rdbuf();
            std::string ft = ss.str();
            std::istringstream is(ft);
            C r = K::template load<E>(is);
            ev("Reload").s("via", "file").i("textBefore", ids().id("t:" + ft)).i("textAfter", ids().id("t:" + text_of(r))).i("good", is.fail() ? 0 : 1).emit();
            return r;
        }
        std::istringstream is(t);
        C r = K::template load<E>(is);
        ev("Reload").s("via", "text").i("textBefore", ids().id("t:" + t)).i("textAfter", ids().id("t:" + text_of(r))).i("good", is.fail() ? 0 : 1).emit();
        return r;
    }

    void start()
    {
        C c = fresh();
        ev("New").i("first", K::state_id(c)).emit();
    }

    // a history: the calls list cut into segments (given by their lengths), with a transport between consecutive segments
    void composition(std::vector<std::size_t> const& calls, std::vector<std::size_t> const& cuts, std::vector<int> const& via, bool reload_first = false)
    {
        start();
        C c = fresh();
        if (reload_first) c = reload(c, t_text); // interrupted before the first iteration: the untouched checkpoint goes through text
        std::size_t pos = 0;
        bool stopped = false;
        for (std::size_t s = 0; s != cuts.size() && !stopped; ++s)
        {
            int v = s == 0 ? t_none : via[s - 1];
            bool next_is_file = s + 1 < cuts.size() && via[s] == t_file;
            if (v == t_text || v == t_file) c = reload(c, v);
            std::vector<std::size_t> part(calls.begin() + (long) pos, calls.begin() + (long) (pos + cuts[s]));
            c = segment(c, part, v, next_is_file, stopped);
            pos += cuts[s];
        }
        ev("Final").i("n", (long long) c.results().size()).i("text", ids().id("t:" + text_of(c))).emit();
    }

    void rollback_history(std::vector<std::size_t> const& calls, std::size_t k, bool reload_first, std::vector<std::size_t> const& resume_calls)
    {
        start();
        C c = fresh();
        bool stopped = false;
        c = segment(c, calls, t_none, false, stopped);
        if (reload_first) c = reload(c, t_text);
        // every other history: the checkpoint is first copy-assigned onto an existing checkpoint object that started from a different
        // first grid / other first weights - the copy is the same checkpoint in every respect
        C other = K::fresh(seed_engine, variant == 1 ? 0 : 1);
        K::prepare(other);
        if (k % 2 == 0) { other = c; return rollback_tail(other, calls, k, resume_calls, stopped); }
        return rollback_tail(c, calls, k, resume_calls, stopped);
    }

    void rollback_tail(C& c, std::vector<std::size_t> const& calls, std::size_t k, std::vector<std::size_t> const& resume_calls, bool stopped)
    {
        (void) calls;
        bool threw = false;
        // (every other time through a reference to the checkpoint type without generators, or to the bare list of results)
        static int via = 0;
        ++via;
        try
        {
            if (via % 3 == 1) { typename K::base& b = c; b.rollback(k); }
            else if (via % 3 == 2) { hep::chkpt<typename C::result_type>& b = c; b.rollback(k); }
            else c.rollback(k);
        }
        catch (std::out_of_range const&) { threw = true; }
        C probe = c;
        K::prepare(probe);
        // the checkpoint after the (possibly rejected) rollback, as text and as the state the next iteration would use
        ev("Rollback").i("k", (long long) (k > 1000000 ? 1000000 : k)).i("threw", threw ? 1 : 0).i("text", ids().id("t:" + text_of(probe))).i("state", K::state_id(probe))
            .i("n", (long long) c.results().size()).emit();
        if (!resume_calls.empty() && !stopped)
        {
            if (k % 2) c = reload(c, t_text);
            c = segment(c, resume_calls, t_memory, false, stopped);
        }
        ev("Final").i("n", -1).i("text", ids().id("t:" + text_of(c))).emit();
    }

    // two rollbacks in a row (k1 >= k2), optionally after a text round trip, then the run is resumed
    void rollback_twice(std::vector<std::size_t> const& calls, std::size_t k1, std::size_t k2, bool reload_first)
    {
        start();
        C c = fresh();
        bool stopped = false;
        c = segment(c, calls, t_none, false, stopped);
        if (reload_first) c = reload(c, t_text);
        for (std::size_t k : {k1, k2})
        {
            bool threw = false;
            try { c.rollback(k); } catch (std::out_of_range const&) { threw = true; }
            C probe = c;
            K::prepare(probe);
            ev("Rollback").i("k", (long long) k).i("threw", threw ? 1 : 0).i("text", ids().id("t:" + text_of(probe))).i("state", K::state_id(probe))
                .i("n", (long long) c.results().size()).emit();
        }
        if (!stopped && k2 < calls.size())
        {
            std::vector<std::size_t> rest(calls.begin() + (long) k2, calls.end());
            c = segment(c, rest, t_memory, false, stopped);
        }
        ev("Final").i("n", -1).i("text", ids().id("t:" + text_of(c))).emit();
    }
};

// growth: make_*_chkpt(istream&) on an empty stream is the default checkpoint (documented by the tests for PLAIN)
template <typename K, typename E> static void empty_stream_case(char const* ename)
{
    typedef typename K::template types<E>::chk C;
    std::istringstream in;
    C a = K::template load<E>(in);
    C b = K::template load<E>(in); // a second time: the stream is still empty
    K::prepare(a); K::prepare(b);
    bool threw = false;
    std::string ta, tb;
    try { ta = text_of(a); tb = text_of(b); } catch (std::exception const&) { threw = true; }
    ev("EmptyStream").s("kind", K::name()).s("engine", ename).i("equal", (!threw && ta == tb) ? 1 : 0).i("n", (long long) a.results().size())
        .i("text", ids().id("t:" + ta)).emit();
}

template <typename K, typename E>
static void run_cfg(rng& g, char const* ename, E const& engine, int variant, int dists, T target, bool thorough, long zero_iter = -1)
{
    session<K, E> s;
    s.variant = variant;
    s.target = target;
    s.seed_engine = engine;
    s.x.dists = dists;
    s.x.half = variant == 2;
    s.x.constant = variant == 4;
    s.x.zero_iter = zero_iter;
    static char const* names[6] = {"", " ", "a b", " lead", "trail ", "x"};
    s.x.names = std::vector<std::string>{names[g.below(6)], names[g.below(6)]};
    s.file = scratch + "/chk_" + std::to_string(cfg_counter) + ".txt";
    std::size_t n = thorough ? 5 : 4;
    std::vector<std::size_t> calls;
    for (std::size_t i = 0; i != n; ++i) calls.push_back(target > T() ? 300 : 30 + 10 * g.below(5));
    ev("Cfg").i("cfg", cfg_counter++).s("kind", K::name()).s("T", type_name<T>::get()).s("engine", ename).i("variant", variant).i("dists", dists)
        .i("target", target > T() ? 1 : 0).a("calls", calls).s("name0", s.x.names[0]).s("name1", s.x.names[1]).emit();
    // all compositions of n (subsets of the n-1 boundaries); transports cycle through memory / text / file
    unsigned tr = (unsigned) g.below(3);
    for (unsigned mask = 0; mask != (1u << (n - 1)); ++mask)
    {
        if (!(mode_mask & 1) && mask != 0) break; // the uninterrupted run is always the reference
        std::vector<std::size_t> cuts;
        std::vector<int> via;
        std::size_t len = 1;
        for (std::size_t b = 0; b + 1 < n; ++b)
        {
            if (mask & (1u << b)) { cuts.push_back(len); len = 1; via.push_back(1 + (int) (tr++ % 3)); }
            else ++len;
        }
        cuts.push_back(len);
        s.composition(calls, cuts, via, mask % 3 == 1);
        if (mask == 0) s.composition(calls, cuts, via, true);
    }
    if (target > T() || !(mode_mask & 2)) return;
    // rollback histories: every k in 0..n+1, in memory and after a text round trip, then resume
    for (std::size_t k = 0; k <= n + 1; ++k)
        for (int rl = 0; rl != 2; ++rl)
        {
            std::vector<std::size_t> rest;
            if (k <= n) rest.assign(calls.begin() + (long) k, calls.end());
            if (k < n && (g.below(2) || (!rl && k + 2 <= n))) rest[0] += 7; // a different continuation after the rollback (in memory as well)
            s.rollback_history(calls, k, rl != 0, rest);
        }
    // two rollbacks in a row: to j, then to a smaller (or the same) k
    for (std::size_t j = 0; j <= n; ++j)
        for (std::size_t k = 0; k <= j; ++k)
            if (g.below(2) || (k == 0 && j > 0 && j < n)) s.rollback_twice(calls, j, k, (j + k) % 2 == 0 || k == 0);
    // far beyond the number of results (k + 1 wraps around): rejected like n + 1, nothing changes
    std::size_t const huge[4] = {n + 2, ~std::size_t(0), ~std::size_t(0) - 1, ~std::size_t(0) / 2 + 1};
    for (int i = 0; i != 4; ++i) s.rollback_history(calls, huge[i], i % 2 != 0, std::vector<std::size_t>());
}

int main(int argc, char** argv)
{
    if (argc < 5) return 2;
    out().open(argv[1]);
    install_abort_handler();
    rng g(std::strtoull(argv[2], nullptr, 10));
    bool thorough = std::atoi(argv[3]) != 0;
    scratch = argv[4];
    if (argc > 5) mode_mask = std::atoi(argv[5]);
    unsigned s = 1 + (unsigned) g.below(100000);
    empty_stream_case<plain_kind, std::mt19937>("mt19937");
    empty_stream_case<vegas_kind, std::mt19937>("mt19937");
    empty_stream_case<mc_kind, std::ranlux48>("ranlux48");
    // kind x variant x distributions x engine; the numeric type is fixed per binary
    run_cfg<plain_kind>(g, "mt19937", std::mt19937(s), 0, 0, T(), thorough);
    run_cfg<plain_kind>(g, "minstd_rand", std::minstd_rand(s), 0, 1, T(), thorough);
    run_cfg<vegas_kind>(g, "mt19937", std::mt19937(s), 0, 1, T(), thorough);
    run_cfg<vegas_kind>(g, "ranlux48", std::ranlux48(s), 1, 0, T(), thorough);
    run_cfg<vegas_kind>(g, "ranlux48_base", std::ranlux48_base(s), 2, 0, T(), thorough);
    run_cfg<mc_kind>(g, "mt19937", std::mt19937(s), 0, 0, T(), thorough);
    run_cfg<mc_kind>(g, "knuth_b", std::knuth_b(s), 1, 1, T(), thorough);
    run_cfg<mc_kind>(g, "counter64", counter_engine<64>(s), 1, 0, T(), thorough);
    run_cfg<mc_kind>(g, "minstd_rand0", std::minstd_rand0(s), 3, 0, T(), false);
    run_cfg<plain_kind>(g, "ranlux24_base", std::ranlux24_base(s), 4, 0, T(), false);
    run_cfg<mc_kind>(g, "ranlux24_base", std::ranlux24_base(s), 2, 0, T(), thorough);
    // an iteration whose sampled values are all zero (third iteration): the state must stay as it was
    run_cfg<vegas_kind>(g, "mt19937", std::mt19937(s), 1, 0, T(), thorough, 2);
    run_cfg<mc_kind>(g, "mt19937", std::mt19937(s), 1, 0, T(), thorough, 1);
    // early stop by target precision (built-in callback): resumed runs must stop at the same iteration
    run_cfg<plain_kind>(g, "mt19937_64", std::mt19937_64(s), 0, 0, T(0.02), thorough);
    run_cfg<vegas_kind>(g, "mt19937", std::mt19937(s), 0, 0, T(0.01), thorough);
    // a process whose global locale writes a decimal comma: what the built-in callback writes to its file is read back by the user's own
    // stream in the same process - every history must come out as it does anywhere else
    {
        struct comma : std::numpunct<char> { char do_decimal_point() const override { return ','; } };
        std::locale old = std::locale::global(std::locale(std::locale::classic(), new comma));
        run_cfg<plain_kind>(g, "mt19937", std::mt19937(s), 0, 1, T(), false);
        run_cfg<vegas_kind>(g, "minstd_rand", std::minstd_rand(s), 1, 0, T(), false);
        std::locale::global(old);
    }
    if (thorough)
    {
        run_cfg<plain_kind>(g, "ranlux24", std::ranlux24(s), 0, 1, T(), true);
        run_cfg<vegas_kind>(g, "minstd_rand0", std::minstd_rand0(s), 1, 1, T(), true);
        run_cfg<mc_kind>(g, "mt19937_64", std::mt19937_64(s), 0, 1, T(0.01), true);
    }
    out().close();
    return 0;
}
