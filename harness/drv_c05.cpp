// C05 driver: the checkpoint text format is lossless.  Builds checkpoints through the public
// constructors with edge-case field values, writes them, reads them back and compares field by
// field, bit for bit; logs the token shape of the text for comparison with spec/Format.tla.
//   drv_c05 <out.ndjson> <seed> <thorough>     (-DVT_TYPE=...)
#include "hep/mc.hpp"
#include "vt_engines.hpp"
#include "vt_trace.hpp"

#include <cmath>
#include <cstdlib>
#include <cstring>
#include <iomanip>
#include <limits>
#include <locale>
#include <random>
#include <sstream>

using namespace vt;
#ifndef VT_TYPE
#define VT_TYPE double
#endif
typedef VT_TYPE T;

static bool same_bits(T a, T b)
{
    // long double has padding bytes: compare value and sign instead of raw memory
    return (a == b && std::signbit(a) == std::signbit(b)) || (std::isnan(a) && std::isnan(b));
}

static T pick_value(rng& g)
{
    typedef std::numeric_limits<T> L;
    switch (g.below(14))
    {
    case 0: return T();
    case 1: return -T();
    case 2: return T(1);
    case 3: return -T(1) / T(3);
    case 4: return L::denorm_min();
    case 5: return L::min();
    case 6: return L::max();
    case 7: return L::lowest();
    case 8: return T(1) + L::epsilon();
    case 9: return T(0.1);
    case 10: return std::nextafter(T(1000), T(2000));
    case 11: return -L::denorm_min() * T(3);
    default:
    {
        // random finite bit pattern: random mantissa and exponent
        T m = T(1) + T(g.next() >> 11) / T(9007199254740992.0L) + T(g.next() >> 40) * L::epsilon();
        int e = (int) g.range(L::min_exponent - 1, L::max_exponent - 1);
        T v = std::ldexp(m, e);
        if (!std::isfinite(v)) v = L::max();
        return g.below(2) ? v : -v;
    }
    }
}
static std::size_t pick_count(rng& g)
{
    switch (g.below(5))
    {
    case 0: return 0;
    case 1: return std::numeric_limits<std::size_t>::max();
    case 2: return 1;
    default: return (std::size_t) g.next() >> g.below(60);
    }
}

struct dist_desc { std::string name; std::size_t bx, by; };

static hep::mc_result<T> rand_mc(rng& g) { return hep::mc_result<T>(pick_count(g), pick_count(g), pick_count(g), pick_value(g), pick_value(g)); }

static hep::plain_result<T> rand_plain(rng& g, std::vector<dist_desc> const& dd)
{
    std::vector<hep::distribution_result<T>> ds;
    for (auto const& d : dd)
    {
        // parameters: x_min, x_max etc. chosen so that the derived bin sizes are finite (possibly huge / tiny)
        T xmin = pick_value(g), ymin = pick_value(g);
        if (!(std::fabs(xmin) < std::numeric_limits<T>::max() / T(8))) xmin = T(-2);
        if (!(std::fabs(ymin) < std::numeric_limits<T>::max() / T(8))) ymin = T(3);
        T wx = std::fabs(pick_value(g)), wy = std::fabs(pick_value(g));
        if (!(wx < std::numeric_limits<T>::max() / T(8))) wx = T(1.1);
        if (!(wy < std::numeric_limits<T>::max() / T(8))) wy = T(0.7);
        hep::distribution_parameters<T> p(d.bx, d.by, xmin, xmin + wx, ymin, ymin + wy, d.name);
        std::vector<hep::mc_result<T>> bins;
        for (std::size_t b = 0; b != d.bx * d.by; ++b) bins.push_back(rand_mc(g));
        ds.emplace_back(p, bins);
    }
    return hep::plain_result<T>(ds, pick_count(g), pick_count(g), pick_count(g), pick_value(g), pick_value(g));
}

static bool eq_mc(hep::mc_result<T> const& a, hep::mc_result<T> const& b, std::string& why)
{
    if (a.calls() != b.calls() || a.non_zero_calls() != b.non_zero_calls() || a.finite_calls() != b.finite_calls()) { why = "counter"; return false; }
    if (!same_bits(a.sum(), b.sum()) || !same_bits(a.sum_of_squares(), b.sum_of_squares())) { why = "sum"; return false; }
    return true;
}
static bool eq_plain(hep::plain_result<T> const& a, hep::plain_result<T> const& b, std::string& why)
{
    if (!eq_mc(a, b, why)) return false;
    if (a.distributions().size() != b.distributions().size()) { why = "ndist"; return false; }
    for (std::size_t i = 0; i != a.distributions().size(); ++i)
    {
        auto const& p = a.distributions()[i].parameters();
        auto const& q = b.distributions()[i].parameters();
        if (p.name() != q.name()) { why = "name"; return false; }
        if (p.bins_x() != q.bins_x() || p.bins_y() != q.bins_y()) { why = "bins"; return false; }
        if (!same_bits(p.x_min(), q.x_min()) || !same_bits(p.y_min(), q.y_min()) || !same_bits(p.bin_size_x(), q.bin_size_x()) ||
            !same_bits(p.bin_size_y(), q.bin_size_y())) { why = "dist-parameter"; return false; }
        if (a.distributions()[i].results().size() != b.distributions()[i].results().size()) { why = "nbins"; return false; }
        for (std::size_t k = 0; k != a.distributions()[i].results().size(); ++k)
            if (!eq_mc(a.distributions()[i].results()[k], b.distributions()[i].results()[k], why)) { why = "bin-" + why; return false; }
    }
    return true;
}
static bool eq_pdf(hep::vegas_pdf<T> const& a, hep::vegas_pdf<T> const& b)
{
    if (a.bins() != b.bins() || a.dimensions() != b.dimensions()) return false;
    for (std::size_t d = 0; d != a.dimensions(); ++d) for (std::size_t k = 0; k <= a.bins(); ++k) if (!same_bits(a.bin_left(d, k), b.bin_left(d, k))) return false;
    return true;
}
static bool eq_vec(std::vector<T> const& a, std::vector<T> const& b)
{
    if (a.size() != b.size()) return false;
    for (std::size_t i = 0; i != a.size(); ++i) if (!same_bits(a[i], b[i])) return false;
    return true;
}

// token shape of a text: n = newline, s = blank, w = maximal run of other characters
static std::string shape_of(std::string const& t)
{
    std::string s;
    bool in_word = false;
    for (char c : t)
    {
        if (c == '\n') { s += 'n'; in_word = false; }
        else if (c == ' ') { s += 's'; in_word = false; }
        else { if (!in_word) s += 'w'; in_word = true; }
    }
    return s;
}
// 0 = newline, 1 = blank, 2 = word
static std::vector<long long> shape_ints(std::string const& t)
{
    std::vector<long long> r;
    for (char c : shape_of(t)) r.push_back(c == 'n' ? 0 : (c == 's' ? 1 : 2));
    return r;
}
template <typename E> static std::size_t gen_words(E const& e)
{
    std::ostringstream o;
    o << e;
    std::string s = shape_of(o.str());
    std::size_t n = 0;
    for (char c : s) if (c == 'w') ++n;
    return n;
}

static void emit_case(char const* kind, char const* engine, std::size_t nres, std::vector<dist_desc> const& dd, std::size_t bins, std::size_t dims,
    std::size_t channels, std::size_t gw, std::string const& text, bool good, bool equal, bool gens_equal, std::string const& why)
{
    // for engines with a long state only the part in front of the generators is compared token by token; the generator
    // lines (one per line, gw words separated by single blanks) are summarised
    bool strip = gw > 30;
    std::string head = text;
    bool tail_ok = true;
    if (strip)
    {
        std::string sh = shape_of(text);
        std::string line = "n";
        for (std::size_t k = 0; k != gw; ++k) { if (k) line += 's'; line += 'w'; }
        std::string tail;
        for (std::size_t k = 0; k != nres + 1; ++k) tail += line;
        tail_ok = sh.size() >= tail.size() && sh.compare(sh.size() - tail.size(), tail.size(), tail) == 0;
        // cut the text after the same number of shape tokens
        std::size_t keep = tail_ok ? sh.size() - tail.size() : sh.size();
        std::size_t tok = 0, pos = 0;
        bool in_word = false;
        for (; pos != text.size() && tok <= keep; ++pos)
        {
            char c = text[pos];
            if (c == '\n' || c == ' ') { ++tok; in_word = false; }
            else if (!in_word) { ++tok; in_word = true; }
            if (tok > keep) break;
        }
        head = text.substr(0, pos);
    }
    std::vector<std::vector<long long>> names;
    std::vector<long long> bx, by;
    for (auto const& d : dd)
    {
        std::vector<long long> pat; // 1 = blank, 2 = other character
        for (char c : d.name) pat.push_back(c == ' ' ? 1 : 2); // (any character that is not a blank - also a tab or a carriage return - is just a character of the name)
        names.push_back(pat);
        bx.push_back((long long) d.bx);
        by.push_back((long long) d.by);
    }
    ev("Case").s("kind", kind).s("T", type_name<T>::get()).s("engine", engine).i("nres", (long long) nres).aa("names", names).a("bx", bx).a("by", by)
        .i("bins", (long long) bins).i("dims", (long long) dims).i("channels", (long long) channels).i("gw", (long long) gw)
        .a("shape", strip ? shape_ints(head) : shape_ints(text)).i("genTail", strip ? (tail_ok ? 1 : 0) : -1)
        .i("good", good ? 1 : 0).i("equal", equal ? 1 : 0).i("gensEqual", gens_equal ? 1 : 0).s("why", why).i("len", (long long) text.size()).emit();
}

template <typename E> static E advanced(E e, rng& g) { e.discard(g.below(1000)); return e; }
// the stream a checkpoint is written to belongs to the caller: it may carry format flags of its own
struct grouping_punct : std::numpunct<char>
{
    char do_thousands_sep() const override { return '\''; }
    std::string do_grouping() const override { return "\3"; }
};
static void user_flags(std::ostream& o, rng& g)
{
    switch (g.below(6))
    {
    case 0: o << std::fixed; break;
    case 1: o << std::uppercase << std::showpos; break;
    case 2: o << std::fixed << std::setprecision(2); break;
    case 3: o << std::hexfloat; break;
    // a locale of the caller's own on this one stream (the global locale stays classic): digits of integers come in groups of three; the
    // stream the text is read from carries the same locale
    case 4: o.imbue(std::locale(std::locale::classic(), new grouping_punct)); break;
    default: break;
    }
}

template <typename E>
static void one_case(rng& g, char const* ename, E const& base, int kind, std::size_t nres, std::vector<dist_desc> const& dd)
{
    std::string why;
    if (kind == 0)
    {
        auto c = hep::make_plain_chkpt<T, E>(advanced(base, g));
        for (std::size_t i = 0; i != nres; ++i) c.add(rand_plain(g, dd), advanced(base, g));
        std::ostringstream o;
        user_flags(o, g);
        c.serialize(o);
        std::istringstream in(o.str());
        in.imbue(o.getloc());
        auto r = hep::make_plain_chkpt<T, E>(in);
        bool equal = r.results().size() == c.results().size();
        for (std::size_t i = 0; equal && i != nres; ++i) equal = eq_plain(c.results()[i], r.results()[i], why);
        bool ge = true;
        {
            auto a = c, b = r;
            for (std::size_t k = nres + 1; k-- > 0;) { if (!(a.generator() == b.generator())) ge = false; if (k) { a.rollback(k - 1); if (b.results().size() >= k) b.rollback(k - 1); } }
        }
        emit_case("plain", ename, nres, dd, 0, 0, 0, gen_words(base), o.str(), !in.fail(), equal, ge, why);
    }
    else if (kind == 1)
    {
        std::size_t bins = 1 + g.below(3), dims = 1 + g.below(2);
        auto mkpdf = [&]() { hep::vegas_pdf<T> p(dims, bins); for (std::size_t d = 0; d != dims; ++d) for (std::size_t b = 0; b <= bins; ++b) p.set_bin_left(d, b, pick_value(g)); return p; };
        T alpha = g.below(3) ? pick_value(g) : T(1) + T(1) / T(3);
        auto c = hep::make_vegas_chkpt<T, E>(mkpdf(), alpha, advanced(base, g));
        for (std::size_t i = 0; i != nres; ++i)
        {
            std::vector<T> adj;
            for (std::size_t k = 0; k != bins * dims; ++k) adj.push_back(pick_value(g));
            c.add(hep::vegas_result<T>(rand_plain(g, dd), mkpdf(), adj), advanced(base, g));
        }
        std::ostringstream o;
        user_flags(o, g);
        c.serialize(o);
        std::istringstream in(o.str());
        in.imbue(o.getloc());
        auto r = hep::make_vegas_chkpt<T, E>(in);
        bool equal = r.results().size() == c.results().size() && same_bits(r.alpha(), c.alpha());
        if (!equal) why = "alpha";
        for (std::size_t i = 0; equal && i != nres; ++i)
        {
            equal = eq_plain(c.results()[i], r.results()[i], why);
            if (equal && !eq_pdf(c.results()[i].pdf(), r.results()[i].pdf())) { equal = false; why = "grid"; }
            if (equal && !eq_vec(c.results()[i].adjustment_data(), r.results()[i].adjustment_data())) { equal = false; why = "adjustment"; }
        }
        if (equal && nres == 0 && !eq_pdf(c.pdf(), r.pdf())) { equal = false; why = "first-grid"; }
        bool ge = c.generator() == r.generator();
        emit_case("vegas", ename, nres, dd, bins, dims, 0, gen_words(base), o.str(), !in.fail(), equal, ge, why);
    }
    else if (kind == 3)
    {
        // a checkpoint that has only been told its parameters: no results, no weights, not even the number of channels yet
        auto c = hep::make_multi_channel_chkpt<T, E>(T(0.1) / T(3), T(0.25), advanced(base, g));
        std::ostringstream o;
        user_flags(o, g);
        c.serialize(o);
        std::istringstream in(o.str());
        in.imbue(o.getloc());
        auto r = hep::make_multi_channel_chkpt<T, E>(in);
        bool equal = r.results().empty() && same_bits(r.beta(), c.beta()) && same_bits(r.min_weight(), c.min_weight()) && eq_vec(c.channel_weights(), r.channel_weights());
        if (!equal) why = "fresh";
        // (both written once more to streams in their default state: the caller's flags are not part of a checkpoint)
        std::ostringstream o1, o2;
        c.serialize(o1);
        r.serialize(o2);
        if (equal && o2.str() != o1.str()) { equal = false; why = "fresh-text"; }
        emit_case("mc", ename, 0, dd, 0, 0, 0, gen_words(base), o.str(), !in.fail(), equal, c.generator() == r.generator(), why);
    }
    else
    {
        std::size_t n = 1 + g.below(4);
        std::vector<T> w0;
        for (std::size_t k = 0; k != n; ++k) w0.push_back(T(1 + g.below(5)) / T(3));
        T beta = g.below(2) ? T(0.25) : T(1) / T(3), minw = g.below(2) ? T() : T(0.1) / T(3);
        if (g.below(2) && n >= 2)
        {
            // weights that the minimum weight clamps (normalising them a second time would change them), with a disabled channel
            w0.assign(n, T(0.05));
            w0[0] = T(0.9);
            if (n >= 3) w0[n - 1] = T();
            minw = T(0.1);
        }
        if (nres == 0 && g.below(2))
        {
            // no results yet: the first weights are stored as they are - also when their floating-point sum is one ulp off one
            static std::size_t const ns[7] = {6, 7, 9, 10, 11, 12, 4};
            n = ns[g.below(7)];
            w0.assign(n, T(1));
            if (n == 4) { w0[0] = T(0.3); w0[1] = T(0.3); w0[2] = T(0.3); w0[3] = T(0.1); }
            minw = T();
        }
        auto c = hep::make_multi_channel_chkpt<T, E>(w0, minw, beta, advanced(base, g));
        for (std::size_t i = 0; i != nres; ++i)
        {
            std::vector<T> adj, w;
            for (std::size_t k = 0; k != n; ++k) { adj.push_back(pick_value(g)); w.push_back(pick_value(g)); }
            c.add(hep::multi_channel_result<T>(rand_plain(g, dd), adj, w), advanced(base, g));
        }
        std::ostringstream o;
        user_flags(o, g);
        c.serialize(o);
        std::istringstream in(o.str());
        in.imbue(o.getloc());
        auto r = hep::make_multi_channel_chkpt<T, E>(in);
        bool equal = r.results().size() == c.results().size() && same_bits(r.beta(), c.beta()) && same_bits(r.min_weight(), c.min_weight());
        if (!equal) why = "beta/min_weight";
        for (std::size_t i = 0; equal && i != nres; ++i)
        {
            equal = eq_plain(c.results()[i], r.results()[i], why);
            if (equal && !eq_vec(c.results()[i].adjustment_data(), r.results()[i].adjustment_data())) { equal = false; why = "adjustment"; }
            if (equal && !eq_vec(c.results()[i].channel_weights(), r.results()[i].channel_weights())) { equal = false; why = "weights"; }
        }
        if (equal && nres == 0 && !eq_vec(c.channel_weights(), r.channel_weights())) { equal = false; why = "first-weights"; }
        bool ge = c.generator() == r.generator();
        emit_case("mc", ename, nres, dd, 0, 0, n, gen_words(base), o.str(), !in.fail(), equal, ge, why);
    }
}

// distribution parameters on their own: many ranges and bin counts that are not powers of two - what is read back has the same bin sizes
// (and lower ends), bit for bit, whichever of the equivalent sets of numbers the text stores
static void params_family(rng& g, int count)
{
    static std::size_t const counts[8] = {7, 25, 50, 100, 11, 13, 3, 41};
    long long bad = 0, good = 1;
    std::string first_bad;
    for (int k = 0; k != count; ++k)
    {
        std::size_t bx = counts[g.below(8)], by = g.below(2) ? 1 : counts[g.below(8)];
        T x0 = k == 0 ? T(0.1) : T((long long) g.below(2001) - 1000) / T(10 + g.below(90));
        T x1 = k == 0 ? T(1) : x0 + T(1 + g.below(100000)) / T(1 + g.below(1000));
        T y0 = T((long long) g.below(2001) - 1000) / T(1000);
        T y1 = y0 + T(1 + g.below(1000)) / T(7);
        hep::distribution_parameters<T> p(k == 0 ? 25 : bx, by, x0, x1, y0, y1, k % 3 == 1 ? "x" : (k % 3 ? "m(\\nu\\nu)" : " an observable"));
        std::ostringstream o;
        p.serialize(o);
        std::istringstream in(o.str());
        in.imbue(o.getloc());
        hep::distribution_parameters<T> q(in);
        if (in.fail()) good = 0;
        if (q.name() != p.name() || q.bins_x() != p.bins_x() || q.bins_y() != p.bins_y() || !same_bits(p.x_min(), q.x_min()) || !same_bits(p.y_min(), q.y_min()) ||
            !same_bits(p.bin_size_x(), q.bin_size_x()) || !same_bits(p.bin_size_y(), q.bin_size_y()))
        {
            if (!bad) first_bad = o.str();
            ++bad;
        }
    }
    ev("Params").s("T", type_name<T>::get()).i("n", count).i("bad", bad).i("good", good).s("firstBad", first_bad).emit();
}

template <typename E> static void engine_family(rng& g, char const* ename, E const& base, bool thorough, bool heavy)
{
    // (a name is any line of text: it may look like a comment, a number or a header)
    static char const* names[18] = {"", "x", " ", " x", "x ", "x y", "  ", "a b c", "#jets", "# 1 17", "12", "-1.5e+00 3", "cr\r", "\r", "tab\t",
        // (backslashes are characters like any other: a LaTeX-style name, a path, a trailing backslash)
        "p_T(\\ell\\nu)", "C:\\new\\table", "\\"};
    for (int kind = 0; kind != 3; ++kind)
        for (std::size_t nres = 0; nres <= (heavy ? 1u : 2u); ++nres)
        {
            std::vector<std::vector<dist_desc>> sets{{}};
            if (nres && heavy) sets.push_back({dist_desc{names[g.below(18)], 1, 1}, dist_desc{names[g.below(18)], 2, 1 + g.below(2)}});
            else if (nres)
            {
                for (int k = 0; k != (thorough ? 8 : 4); ++k)
                {
                    sets.push_back({dist_desc{names[g.below(18)], 1 + g.below(2), 1 + g.below(2)}});
                    sets.push_back({dist_desc{names[g.below(18)], 1, 1}, dist_desc{names[g.below(18)], 2, 1 + g.below(2)}});
                }
                sets.push_back({dist_desc{"", 1, 1}});
                sets.push_back({dist_desc{" x", 2, 2}, dist_desc{"", 1, 1}, dist_desc{" ", 1, 2}});
            }
            for (auto const& dd : sets) one_case(g, ename, base, kind, nres, dd);
        }
    one_case(g, ename, base, 3, 0, std::vector<dist_desc>());
}

int main(int argc, char** argv)
{
    if (argc < 4) return 2;
    out().open(argv[1]);
    install_abort_handler();
    rng g(std::strtoull(argv[2], nullptr, 10));
    bool thorough = std::atoi(argv[3]) != 0;
    unsigned s = 1 + (unsigned) g.below(100000);
    params_family(g, thorough ? 4000 : 1000);
    engine_family(g, "minstd_rand0", std::minstd_rand0(s), thorough, false);
    engine_family(g, "minstd_rand", std::minstd_rand(s), thorough, false);
    engine_family(g, "ranlux24_base", std::ranlux24_base(s), thorough, false);
    engine_family(g, "ranlux48_base", std::ranlux48_base(s), thorough, true);
    engine_family(g, "ranlux24", std::ranlux24(s), thorough, true);
    engine_family(g, "ranlux48", std::ranlux48(s), thorough, true);
    engine_family(g, "knuth_b", std::knuth_b(s), thorough, true);
    engine_family(g, "mt19937", std::mt19937(s), thorough, true);
    engine_family(g, "mt19937_64", std::mt19937_64(s), thorough, true);
    out().close();
    return 0;
}
