// Callback driver (C12: loop protocol and stop decisions; C20: the four callback modes are
// observationally equivalent).  Serial and shim-MPI forms of the three integrators.
//   drv_callback <out.ndjson> <seed> <thorough> <scratch-dir> <what: 12 | 20>
#include "mpi.h" // the shim
#include "hep/mc-mpi.hpp"
#include "vt_engines.hpp"
#include "vt_trace.hpp"

#include <atomic>
#include <cmath>
#include <cstdlib>
#include <cstring>
#include <fstream>
#include <functional>
#include <iostream>
#include <limits>
#include <random>
#include <sstream>

using namespace vt;

static std::string scratch;

// ---- std::cout capture that attributes every byte to the (simulated) rank that printed it
struct rank_counting_buf : std::streambuf
{
    std::atomic<long> bytes[64];
    std::string text0; // what rank 0 printed
    std::mutex m;
    rank_counting_buf() { for (auto& b : bytes) b = 0; }
    int overflow(int c) override
    {
        ++bytes[vt_this_rank() & 63];
        if (vt_this_rank() == 0) { std::lock_guard<std::mutex> g(m); text0 += (char) c; }
        return c;
    }
    std::streamsize xsputn(char const* p, std::streamsize n) override
    {
        bytes[vt_this_rank() & 63] += (long) n;
        if (vt_this_rank() == 0) { std::lock_guard<std::mutex> g(m); text0.append(p, (std::size_t) n); }
        return n;
    }
    void reset() { for (auto& b : bytes) b = 0; text0.clear(); }
};
static rank_counting_buf capture;

template <typename C> static std::string text_of(C const& c)
{
    std::ostringstream o;
    c.serialize(o);
    return o.str();
}

// integrand shapes
// s_gap (not part of the shape loops): ordinary, except that the second iteration of the run yields zeros only
enum shape { s_ordinary = 0, s_zero, s_const, s_zero_mean, s_nonfinite, s_negative, s_count, s_gap = s_count, s_gap0, s_cancel0, s_const01, s_inf0, s_onehit };
static thread_local long alt_calls = 0; // evaluations of this rank in the current run
static thread_local int iter_no = 0; // callbacks seen by this rank in the current run
static thread_local int last_hit_iter = -1; // (shape onehit) the iteration whose single non-zero evaluation has been handed out
static char const* shape_name(int s)
{
    static char const* n[] = {"ordinary", "zero", "const", "zero_mean", "nonfinite", "negative", "gap", "gap0", "cancel0", "const01", "inf0", "onehit"};
    return n[s];
}
template <typename T> static T shape_value(int s, T x)
{
    switch (s)
    {
    case s_zero: return T();
    case s_gap: return iter_no == 1 ? T() : x * x + T(0.1);
    case s_gap0: return iter_no == 0 ? T() : x * x + T(0.1);   // the first iteration yields zeros only
    // the values of the first iteration cancel exactly (estimate 0 with a small error): a result like any other
    case s_cancel0: return iter_no == 0 ? (alt_calls++ % 2 ? T(-0.125) : T(0.125)) : x * x + T(0.1);
    // every non-zero value of the first iteration is infinite: that result has non-zero calls, the estimate 0 and the variance 0
    case s_inf0: return iter_no == 0 ? (x < T(0.5) ? std::numeric_limits<T>::infinity() : T()) : x * x + T(0.1);
    // exactly one non-zero evaluation per iteration (the first one): a result like any other, with a relative error of almost one
    case s_onehit: if (last_hit_iter != iter_no) { last_hit_iter = iter_no; return T(3); } return T();
    case s_const: return T(2);
    case s_const01: return T(0.1);   // a constant that is not a short binary fraction: the sample variance is zero up to rounding (of either sign)
    case s_zero_mean: return x < T(0.5) ? T(1) : T(-1);
    case s_nonfinite: return std::numeric_limits<T>::quiet_NaN();
    case s_negative: return -(x * x + T(0.1));
    default: return x * x + T(0.1);
    }
}

// thread-local (per simulated rank) sink of per-call events
struct call_log
{
    bool on = false;
    int rank = 0;
};
static thread_local call_log clog_;

template <typename T> static T eval(int s, T x)
{
    if (clog_.on) ev("Call").i("rank", clog_.rank).emit();
    return shape_value<T>(s, x);
}

// ---- kinds -------------------------------------------------------------------------------------
template <typename T> struct plain_k
{
    typedef hep::default_plain_chkpt<T> chk;
    static char const* name() { return "plain"; }
    static chk fresh(int) { return hep::make_plain_chkpt<T>(); }
    // variant >= 1: the integrand books a histogram; variant 2: ... but the checkpoint the run is continued from was produced without it
    static int pre_variant(int variant) { return variant == 2 ? 0 : variant; }
    template <typename CB> static chk run(int s, int variant, chk const& c, std::vector<std::size_t> const& calls, CB cb)
    {
        auto f = [s](hep::mc_point<T> const& p) { return eval<T>(s, p.point()[0]); };
        auto fd = [s](hep::mc_point<T> const& p, hep::projector<T>& pr) { T v = eval<T>(s, p.point()[0]); pr.add(0, p.point()[0], v); return v; };
        if (variant >= 1) return hep::plain(hep::make_integrand<T>(fd, 1, hep::make_dist_params<T>(5, T(), T(1), "x")), calls, c, cb);
        return hep::plain(hep::make_integrand<T>(f, 1), calls, c, cb);
    }
    template <typename CB> static chk mpi_run(MPI_Comm comm, int s, int, chk const& c, std::vector<std::size_t> const& calls, CB cb)
    {
        auto f = [s](hep::mc_point<T> const& p) { return eval<T>(s, p.point()[0]); };
        return hep::mpi_plain(comm, hep::make_integrand<T>(f, 1), calls, c, cb);
    }
};
template <typename T> struct vegas_k
{
    typedef hep::default_vegas_chkpt<T> chk;
    static char const* name() { return "vegas"; }
    static chk fresh(int) { return hep::make_vegas_chkpt<T>(8, T(1.5)); }
    static int pre_variant(int variant) { return variant == 2 ? 0 : variant; }
    template <typename CB> static chk run(int s, int variant, chk const& c, std::vector<std::size_t> const& calls, CB cb)
    {
        auto f = [s](hep::vegas_point<T> const& p) { return eval<T>(s, p.point()[0]); };
        auto fd = [s](hep::vegas_point<T> const& p, hep::projector<T>& pr) { T v = eval<T>(s, p.point()[0]); pr.add(0, p.point()[0], v); return v; };
        if (variant >= 1) return hep::vegas(hep::make_integrand<T>(fd, 1, hep::make_dist_params<T>(5, T(), T(1), "x")), calls, c, cb);
        return hep::vegas(hep::make_integrand<T>(f, 1), calls, c, cb);
    }
    template <typename CB> static chk mpi_run(MPI_Comm comm, int s, int, chk const& c, std::vector<std::size_t> const& calls, CB cb)
    {
        auto f = [s](hep::vegas_point<T> const& p) { return eval<T>(s, p.point()[0]); };
        return hep::mpi_vegas(comm, hep::make_integrand<T>(f, 1), calls, c, cb);
    }
};
// channel-weight patterns for the multi channel summary: variant encodes (channels, pattern)
static std::vector<double> mc_weights(int variant)
{
    static int const chans[8] = {1, 2, 12, 40, 12, 14, 20, 5};
    int n = chans[variant % 8];
    int pat = variant / 8; // 0 all equal, 1 all but one minimal, 2 few non-minimal rest disabled, 3 graded, 4 disabled in front
    std::vector<double> w((std::size_t) n, 1.0);
    if (pat == 1) { for (auto& x : w) x = 0.001; w[(std::size_t) (n / 2)] = 1.0; }
    else if (pat == 2) { for (auto& x : w) x = 0.0; for (int i = 0; i != std::min(n, 2 + variant % 3); ++i) w[(std::size_t) ((i * 5) % n)] = 1.0 + i; }
    else if (pat == 3) { for (int i = 0; i != n; ++i) w[(std::size_t) i] = 1.0 + i; }
    else if (pat == 4) { for (int i = 0; i != n; ++i) w[(std::size_t) i] = i < n / 2 ? 0.0 : 1.0 + (i % 3); }
    return w;
}
template <typename T> struct mc_k
{
    typedef hep::default_multi_channel_chkpt<T> chk;
    static char const* name() { return "mc"; }
    static int pre_variant(int variant) { return variant; }
    static chk fresh(int variant)
    {
        std::vector<T> w;
        for (double x : mc_weights(variant)) w.push_back(T(x));
        return hep::make_multi_channel_chkpt<T>(w, T(0.001), T(0.25));
    }
    struct map_t
    {
        std::size_t n;
        T operator()(std::size_t ch, std::vector<T> const& r, std::vector<T>& co, std::vector<std::size_t> const&, std::vector<T>& de, hep::multi_channel_map) const
        {
            T u = r[0];
            co[0] = (ch % 2) ? u * u : u;
            for (std::size_t j = 0; j != n; ++j) de[j] = (j % 2) ? (co[0] > T() ? T(0.5) / std::sqrt(co[0]) : T(1e6)) : T(1);
            return T(1);
        }
    };
    template <typename CB> static chk run(int s, int variant, chk const& c, std::vector<std::size_t> const& calls, CB cb)
    {
        std::size_t n = mc_weights(variant).size();
        auto f = [s](hep::multi_channel_point<T> const& p) { return eval<T>(s, p.coordinates()[0]); };
        return hep::multi_channel(hep::make_multi_channel_integrand<T>(f, 1, map_t{n}, 1, n), calls, c, cb);
    }
    template <typename CB> static chk mpi_run(MPI_Comm comm, int s, int variant, chk const& c, std::vector<std::size_t> const& calls, CB cb)
    {
        std::size_t n = mc_weights(variant).size();
        auto f = [s](hep::multi_channel_point<T> const& p) { return eval<T>(s, p.coordinates()[0]); };
        return hep::mpi_multi_channel(comm, hep::make_multi_channel_integrand<T>(f, 1, map_t{n}, 1, n), calls, c, cb);
    }
};

// relative-error class of the variance-weighted combination of the results so far, w.r.t. the target - computed here from the
// documented formula (E = S^2 sum E_i / S_i^2, S^-2 = sum S_i^-2 over the results with non-zero calls), not with hep::accumulate.
// "edge": within the rounding of the library's (value, error) <-> (sum, sum of squares) conversion of the target, or degenerate
// (a vanishing or non-finite variance somewhere): either decision is accepted.  "nan": no non-zero call at all (0 / 0).
template <typename T, typename C> static char const* rel_class(C const& c, T target)
{
    T est = T(), inv = T();
    std::size_t nz = 0, calls = 0;
    bool degenerate = false;
    for (auto const& r : c.results())
    {
        calls += r.calls();
        nz += r.non_zero_calls();
        // a result with non-zero calls whose estimate and variance are both exactly zero (all its non-zero values were non-finite) enters
        // the documented formula as 1 / 0 times 0: the combination is not a number, whatever the other results are
        if (r.non_zero_calls() != 0 && r.variance() == T() && r.value() == T()) return "nan";
        if (r.non_zero_calls() != 0)
        {
            T v = r.variance();
            if (!(v > T()) || !std::isfinite(v) || !std::isfinite(r.value())) degenerate = true;
            T t = T(1) / v;
            inv += t;
            est += t * r.value();
        }
    }
    if (nz == 0) return "nan";
    if (degenerate || !(inv > T()) || !std::isfinite(inv) || !std::isfinite(est)) return "edge";
    T var = T(1) / inv;
    est *= var;
    T rel = std::sqrt(var) / std::fabs(est);
    if (!std::isfinite(rel) || !(rel > T())) return "edge";
    // conditioning of error^2 recovered from N E^2 + N (N - 1) S^2
    T kappa = T(1) + T(1) / (T(calls > 1 ? calls - 1 : 1) * rel * rel);
    if (std::fabs(rel - target) <= T(64) * std::numeric_limits<T>::epsilon() * kappa * std::fmax(rel, target)) return "edge";
    return rel <= target ? "le" : "gt";
}

// ---- C12 ---------------------------------------------------------------------------------------
// user callback scripted to return false at position `stop_at` (counting callbacks of this run from 1)
template <typename C> struct scripted_cb
{
    int stop_at;
    int* count;   // (kept for the callers; the decision uses the object's own state)
    int rank;
    int own;      // state of the callback object itself: the integrator invokes the object it was given, every time
    scripted_cb(int s, int* c, int r) : stop_at(s), count(c), rank(r), own(0) {}
    // the answer is a count (iterations this callback still wants to see; zero = stop): anything that converts to true means "go on"
    int operator()(C const& c)
    {
        ++*count;
        ++own;
        bool ret = own != stop_at;
        // want: what an object that has seen every invocation of this run answers (the driver's count is shared by all copies)
        ev("Callback").i("rank", rank).i("n", (long long) c.results().size()).i("ret", ret ? 1 : 0).s("cls", "user").i("want", *count != stop_at ? 1 : 0).emit();
        return ret ? (stop_at > own ? stop_at - own : own + 1) : 0;
    }
    int operator()(MPI_Comm, C const& c) { return (*this)(c); }
};
// the built-in callback, wrapped only to observe its argument and its answer
template <typename T, typename C> struct observed_builtin
{
    hep::callback<C> inner;
    T target;
    int rank;
    bool quiet;   // (an earlier use of the same callback object that is not part of the trace)
    bool operator()(C const& c)
    {
        char const* cls = rel_class<T>(c, target);
        bool ret = inner(c);
        ++iter_no;
        if (!quiet) ev("Callback").i("rank", rank).i("n", (long long) c.results().size()).i("ret", ret ? 1 : 0).s("cls", cls).emit();
        return ret;
    }
};
template <typename T, typename C> struct observed_mpi_builtin
{
    hep::mpi_callback<C> inner;
    T target;
    bool operator()(MPI_Comm comm, C const& c)
    {
        char const* cls = rel_class<T>(c, target);
        bool ret = inner(comm, c);
        ++iter_no;
        ev("Callback").i("rank", vt_this_rank()).i("n", (long long) c.results().size()).i("ret", ret ? 1 : 0).s("cls", cls).emit();
        return ret;
    }
};

static int run_id = 0;

template <typename K, typename T>
static void c12_run(rng& g, int shp, int variant, int world, bool builtin, double target, int stop_at, bool resumed, int mode,
    std::size_t pre_calls = 20, bool reuse = false)
{
    typedef typename K::chk C;
    std::size_t n = 3 + g.below(3);
    std::vector<std::size_t> plan;
    // (iterations with no call at all or a single one are iterations like any other)
    for (std::size_t i = 0; i != n; ++i) plan.push_back(builtin && target > 0 ? 200 : g.below(8));
    C start = K::fresh(variant);
    std::size_t n0 = 0;
    if (resumed)
    {
        // a checkpoint that already holds two results (produced silently, not part of the trace)
        start = K::run(s_ordinary, K::pre_variant(variant), start, std::vector<std::size_t>{pre_calls, pre_calls}, hep::callback<C>(hep::callback_mode::silent));
        n0 = start.results().size();
    }
    ev("Run").i("run", run_id++).s("kind", K::name()).s("T", type_name<T>::get()).s("shape", shape_name(shp)).a("plan", plan).i("n0", (long long) n0)
        .i("world", world).i("builtin", builtin ? 1 : 0).i("targetPos", target > 0 ? 1 : 0).i("mode", mode).emit();
    hep::callback_mode m = (hep::callback_mode) mode;
    std::string file = scratch + "/c12.chk";
    if (world == 0)
    {
        clog_.on = true; clog_.rank = 0;
        iter_no = 0; alt_calls = 0; last_hit_iter = -1;
        C r = start;
        int count = 0;
        if (builtin && reuse)
        {
            // one callback object for two runs: it has seen another, imprecise history of the same length as the checkpoint this run starts from
            observed_builtin<T, C> obs{hep::callback<C>(m, file, T(target)), T(target), 0, true};
            clog_.on = false;
            (void) K::run(s_ordinary, K::pre_variant(variant), K::fresh(variant), std::vector<std::size_t>(n0 ? n0 : 2, 30), std::ref(obs));
            clog_.on = true;
            obs.quiet = false;
            iter_no = 0; alt_calls = 0; last_hit_iter = -1;
            r = K::run(shp, variant, start, plan, std::ref(obs));
        }
        else if (builtin) r = K::run(shp, variant, start, plan, observed_builtin<T, C>{hep::callback<C>(m, file, T(target)), T(target), 0, false});
        else r = K::run(shp, variant, start, plan, scripted_cb<C>{stop_at, &count, 0});
        clog_.on = false;
        ev("Returned").i("rank", 0).i("n", (long long) r.results().size()).emit();
    }
    else
    {
        vt_mpi_run(world, (unsigned long long) run_id * 7919ULL, [&](MPI_Comm comm, int rank) {
            clog_.on = true; clog_.rank = rank;
            iter_no = 0;
            int count = 0;
            C r = start;
            if (builtin) r = K::mpi_run(comm, shp, variant, start, plan, observed_mpi_builtin<T, C>{hep::mpi_callback<C>(m, file, T(target)), T(target)});
            else r = K::mpi_run(comm, shp, variant, start, plan, scripted_cb<C>{stop_at, &count, rank});
            clog_.on = false;
            ev("Returned").i("rank", rank).i("n", (long long) r.results().size()).emit();
        }, false);
    }
    ev("RunEnd").emit();
}

// two integrations at the same time on disjoint parts of the world (as after MPI_Comm_split), with different targets: each group takes its
// own decisions.  The events of each group are collected and written as one run after the other.
template <typename K, typename T>
static void c12_groups(rng& g)
{
    typedef typename K::chk C;
    struct grp { int size; double target; std::vector<std::size_t> plan; std::vector<std::string> events; };
    std::vector<grp> gs;
    gs.push_back(grp{2, 0.04, std::vector<std::size_t>(5, 200), std::vector<std::string>()});                    // reached at the second callback
    gs.push_back(grp{2 + (int) g.below(2), 0.02, std::vector<std::size_t>(5, 200), std::vector<std::string>()}); // not reached within five iterations
    if (g.below(2)) std::swap(gs[0], gs[1]);
    C start = K::fresh(0);
    std::string file = scratch + "/c12g.chk";
    vt_mpi_run_groups(std::vector<int>{gs[0].size, gs[1].size}, 4242 + g.below(1000), [&](MPI_Comm comm, int gi, int rank) {
        vt::sink::capture() = &gs[(std::size_t) gi].events;
        clog_.on = true; clog_.rank = rank;
        iter_no = 0;
        T target = T(gs[(std::size_t) gi].target);
        C r = K::mpi_run(comm, s_ordinary, 0, start, gs[(std::size_t) gi].plan,
            observed_mpi_builtin<T, C>{hep::mpi_callback<C>(hep::callback_mode::silent, file, target), target});
        clog_.on = false;
        ev("Returned").i("rank", rank).i("n", (long long) r.results().size()).emit();
        vt::sink::capture() = nullptr;
    }, false);
    for (auto const& gr : gs)
    {
        ev("Run").i("run", run_id++).s("kind", K::name()).s("T", type_name<T>::get()).s("shape", "ordinary").a("plan", gr.plan).i("n0", 0)
            .i("world", gr.size).i("builtin", 1).i("targetPos", 1).i("mode", 0).i("group", 1).emit();
        for (auto const& e : gr.events) out().write(e);
        ev("RunEnd").emit();
    }
}

// a target that is *exactly* the relative error reached after two iterations: the first run (no target) measures it, the second run - the
// same ranks, the same reduction order - must stop there on every rank (the decision is the same expression everywhere)
template <typename K, typename T>
static void c12_exact_target(rng& g, int world)
{
    typedef typename K::chk C;
    std::vector<std::size_t> plan(4, 200);
    C start = K::fresh(0);
    unsigned long long seed = 777 + g.below(1000);
    std::string file = scratch + "/c12x.chk";
    C measured = start;
    vt_mpi_run(world, seed, [&](MPI_Comm comm, int rank) {
        iter_no = 0;
        C r = K::mpi_run(comm, s_ordinary, 0, start, plan, hep::mpi_callback<C>(hep::callback_mode::silent, file, T()));
        if (rank == 0) measured = r;
    }, false);
    auto two = hep::accumulate<hep::weighted_with_variance>(measured.results().begin(), measured.results().begin() + 2);
    T target = two.error() / std::fabs(two.value());
    ev("Run").i("run", run_id++).s("kind", K::name()).s("T", type_name<T>::get()).s("shape", "ordinary").a("plan", plan).i("n0", 0)
        .i("world", world).i("builtin", 1).i("targetPos", 1).i("mode", 0).i("exactTarget", 1).emit();
    vt_mpi_run(world, seed, [&](MPI_Comm comm, int rank) {
        clog_.on = true; clog_.rank = rank;
        iter_no = 0;
        C r = K::mpi_run(comm, s_ordinary, 0, start, plan, observed_mpi_builtin<T, C>{hep::mpi_callback<C>(hep::callback_mode::silent, file, target), target});
        clog_.on = false;
        ev("Returned").i("rank", rank).i("n", (long long) r.results().size()).emit();
    }, false);
    ev("RunEnd").emit();
}

template <typename T> static void c12_family(rng& g, bool thorough)
{
    c12_exact_target<plain_k<T>, T>(g, 2);
    c12_exact_target<vegas_k<T>, T>(g, 3);
    c12_groups<plain_k<T>, T>(g);
    c12_groups<vegas_k<T>, T>(g);
    // user callbacks returning false at every position, fresh and resumed, serial and MPI
    for (int stop = 0; stop <= 6; ++stop)
    {
        int world = stop % 3 == 0 ? 0 : (stop % 3 == 1 ? 2 : 3);
        c12_run<plain_k<T>, T>(g, s_ordinary, 0, world, false, 0, stop, stop % 2 == 1, 0);
        c12_run<vegas_k<T>, T>(g, s_ordinary, 0, stop % 2 ? 0 : 2, false, 0, stop, stop % 2 == 0, 0);
        c12_run<mc_k<T>, T>(g, s_ordinary, 1, stop % 2 ? 3 : 0, false, 0, stop, false, 0);
    }
    // the built-in callback: all shapes x targets
    static double const targets[5] = {0.0, 0.1, 0.001, 1.0, 0.02};
    for (int shp = 0; shp != s_count; ++shp)
        for (int t = 0; t != 5; ++t)
        {
            if (!thorough && g.below(2)) continue;
            int mode = (int) g.below(4);
            int world = (int) g.below(3) == 0 ? 0 : 0;
            int pick = (int) g.below(3);
            if (pick == 0) c12_run<plain_k<T>, T>(g, shp, 0, world, true, targets[t], 0, g.below(3) == 0, mode);
            else if (pick == 1) c12_run<vegas_k<T>, T>(g, shp, 0, world, true, targets[t], 0, g.below(3) == 0, mode);
            else c12_run<mc_k<T>, T>(g, shp, (int) g.below(8), world, true, targets[t], 0, false, mode);
        }
    // an iteration without any non-zero value between informative ones carries no weight: with 200 calls per iteration the relative
    // error is about 0.05, 0.05, 0.035 after the first three callbacks - the target 0.04 is reached at the third
    for (int world = 0; world != 3; ++world)
    {
        c12_run<plain_k<T>, T>(g, s_gap, 0, world == 1 ? 0 : world, true, 0.04, 0, false, (int) g.below(4));
        if (world != 1) c12_run<mc_k<T>, T>(g, s_gap, 1, world, true, 0.04, 0, false, 0);
        // (first iteration empty: the target 0.04 is reached at the third callback as well)
        c12_run<plain_k<T>, T>(g, s_gap0, 0, world == 1 ? 0 : world, true, 0.04, 0, false, (int) g.below(4));
        if (world == 2) c12_run<vegas_k<T>, T>(g, s_gap0, 0, world, true, 0.04, 0, false, 0);
    }
    // first result 0 +- 0.009 (200 values +-1/8 that cancel), then 0.43 +- 0.02 per iteration: the combination is 0.07 +- 0.008 (relative
    // error 0.12) after two and 0.12 +- 0.008 (0.065) after three iterations - a target of 0.085 is reached at the third callback
    c12_run<plain_k<T>, T>(g, s_cancel0, 0, 0, true, 0.085, 0, false, (int) g.below(4));
    c12_run<vegas_k<T>, T>(g, s_cancel0, 0, 0, true, 0.085, 0, false, 0);
    // one non-zero evaluation per iteration (200 calls): every result is 0.015 +- 0.015, the combination of k of them has a relative error of
    // 0.9975 / sqrt(k) - a target of 0.6 is reached at the third callback
    c12_run<plain_k<T>, T>(g, s_onehit, 0, 0, true, 0.6, 0, false, (int) g.below(4));
    c12_run<plain_k<T>, T>(g, s_onehit, 1, 0, true, 0.45, 0, false, 0);
    // a checkpoint produced without histograms, continued with an integrand that books one (with and without a target)
    c12_run<plain_k<T>, T>(g, s_ordinary, 2, 0, true, 0.0, 0, true, (int) g.below(4), 50);
    c12_run<vegas_k<T>, T>(g, s_ordinary, 2, 0, true, 0.03, 0, true, 0, 200);
    c12_run<plain_k<T>, T>(g, s_ordinary, 1, 0, true, 0.04, 0, true, 0, 200);
    // first iteration: infinite values only - the combination stays undefined, no target is ever reached
    c12_run<plain_k<T>, T>(g, s_inf0, 0, 0, true, 0.04, 0, false, (int) g.below(4));
    c12_run<vegas_k<T>, T>(g, s_inf0, 0, 2, true, 0.04, 0, false, 0);
    // many channels, some of them disabled or at the minimum weight, progress printed (mode 2, 3): the summary of the weights is part of the
    // callback - it neither ends nor breaks the run
    // (a target far out of reach: iterations of 200 calls, so that the channels differ in their expected numbers of calls)
    c12_run<mc_k<T>, T>(g, s_ordinary, 35, 0, true, 1e-6, 0, false, 2);
    c12_run<mc_k<T>, T>(g, s_ordinary, 22, 0, true, 1e-6, 0, false, 3);
    c12_run<mc_k<T>, T>(g, s_ordinary, 38, 0, true, 1e-6, 0, false, 2);
    c12_run<mc_k<T>, T>(g, s_ordinary, 11, 2, true, 1e-6, 0, false, 2);
    // a constant integrand (variance 0 +- rounding): nothing is thrown, nothing stops early without a reached target
    c12_run<plain_k<T>, T>(g, s_const01, 0, 0, true, 0.0, 0, false, (int) g.below(4));
    c12_run<vegas_k<T>, T>(g, s_const01, 0, 0, true, 0.01, 0, false, 0);
    c12_run<plain_k<T>, T>(g, s_const01, 0, 2, true, 0.01, 0, false, 2);
    // a precise checkpoint (two results of 20000 calls: combined relative error about 0.0035) continued with short iterations (500 calls,
    // relative error 0.03 each): a target of 0.005 is reached by the combination at the first callback, however imprecise the last result
    c12_run<plain_k<T>, T>(g, s_ordinary, 0, 0, true, 0.005, 0, true, 0, 20000);
    c12_run<vegas_k<T>, T>(g, s_ordinary, 0, 0, true, 0.005, 0, true, 2, 20000);
    // ... with a callback object that has been used for another (imprecise) run before
    c12_run<plain_k<T>, T>(g, s_ordinary, 0, 0, true, 0.005, 0, true, 0, 20000, true);
    c12_run<vegas_k<T>, T>(g, s_ordinary, 0, 0, true, 0.005, 0, true, 0, 20000, true);
    // ... and continued with iterations in which nothing is hit at all: the combination is what it was, the target is reached at the first callback
    c12_run<plain_k<T>, T>(g, s_zero, 0, 0, true, 0.005, 0, true, (int) g.below(4), 20000);
    c12_run<vegas_k<T>, T>(g, s_zero, 0, 0, true, 0.005, 0, true, 0, 20000);
    // resumed from a checkpoint whose two results (200 calls each, relative error about 0.05 each) count: together with the first new
    // iteration the combination is at about 0.03 - a target of 0.04 is reached at the first callback after the resumption
    c12_run<plain_k<T>, T>(g, s_ordinary, 0, 0, true, 0.04, 0, true, (int) g.below(4), 200);
    c12_run<vegas_k<T>, T>(g, s_ordinary, 0, 2, true, 0.04, 0, true, 0, 200);
    // built-in callback under MPI (non-root ranks are silenced but must take the same decisions)
    for (int shp = 0; shp != s_count; ++shp)
    {
        double target = shp % 2 ? 0.02 : 0.0;
        c12_run<plain_k<T>, T>(g, shp, 0, 2, true, target, 0, false, 2);
        c12_run<vegas_k<T>, T>(g, shp, 0, 3, true, shp == s_ordinary ? 0.05 : target, 0, false, 0);
        c12_run<mc_k<T>, T>(g, shp, 1, 2, true, shp == s_negative ? 0.5 : target, 0, false, 3);
    }
}

// ---- C20 ---------------------------------------------------------------------------------------
// a number as the stream of the report prints it (same flags, precision and locale as std::cout), interned
template <typename T> static long long report_token(T x)
{
    std::ostringstream os;
    os.copyfmt(std::cout);
    os << x;
    return ids().id("r:" + os.str());
}
struct report_facts { std::vector<long long> n, nz, nnf, e, err, all_e, all_err, chi; };
template <typename C> struct recording_cb
{
    hep::callback<C> inner;
    std::vector<long long>* texts;
    std::vector<long long>* rets;
    std::vector<long long>* facts; // per iteration: calls, non-finite evaluations
    report_facts* rep;             // per iteration: what Report.tla says the verbose modes report (through the public accessors)
    bool operator()(C const& c)
    {
        facts->push_back((long long) c.results().back().calls());
        facts->push_back((long long) (c.results().back().non_zero_calls() - c.results().back().finite_calls()));
        if (rep)
        {
            auto const& rs = c.results();
            rep->n.push_back((long long) rs.back().calls());
            rep->nz.push_back((long long) rs.back().non_zero_calls());
            rep->nnf.push_back((long long) (rs.back().non_zero_calls() - rs.back().finite_calls()));
            rep->e.push_back(report_token(rs.back().value()));
            rep->err.push_back(report_token(rs.back().error()));
            auto const all = hep::accumulate<hep::weighted_with_variance>(rs.begin(), rs.end());
            rep->all_e.push_back(report_token(all.value()));
            rep->all_err.push_back(report_token(all.error()));
            rep->chi.push_back(report_token(hep::chi_square_dof<hep::weighted_with_variance>(rs.begin(), rs.end())));
        }
        texts->push_back(ids().id("t:" + text_of(c)));
        bool r = inner(c);
        rets->push_back(r ? 1 : 0);
        return r;
    }
};
template <typename C> struct recording_mpi_cb
{
    hep::mpi_callback<C> inner;
    std::vector<long long>* texts;
    std::vector<long long>* rets;
    report_facts* rep;
    bool operator()(MPI_Comm comm, C const& c)
    {
        if (rep && vt_this_rank() == 0)
        {
            // (rank 0 reports for the whole communicator: the same function of the checkpoint as in a serial run)
            auto const& rs = c.results();
            rep->n.push_back((long long) rs.back().calls());
            rep->nz.push_back((long long) rs.back().non_zero_calls());
            rep->nnf.push_back((long long) (rs.back().non_zero_calls() - rs.back().finite_calls()));
            rep->e.push_back(report_token(rs.back().value()));
            rep->err.push_back(report_token(rs.back().error()));
            auto const all = hep::accumulate<hep::weighted_with_variance>(rs.begin(), rs.end());
            rep->all_e.push_back(report_token(all.value()));
            rep->all_err.push_back(report_token(all.error()));
            rep->chi.push_back(report_token(hep::chi_square_dof<hep::weighted_with_variance>(rs.begin(), rs.end())));
        }
        bool r = inner(comm, c);
        if (vt_this_rank() == 0) { texts->push_back(ids().id("t:" + text_of(c))); rets->push_back(r ? 1 : 0); }
        return r;
    }
};

static int cout_quirk = 0;
template <typename K, typename T>
static void c20_run(rng& g, int shp, int variant, int world, double target, bool sparse = false, bool badfile = false)
{
    typedef typename K::chk C;
    std::vector<std::size_t> plan{60, 80, 60, 70};
    if (sparse) plan = std::vector<std::size_t>{60, 0, 1, 70}; // an iteration without calls and one with a single call: reported like any other
    int id = run_id++;
    for (int mode = 0; mode != 4; ++mode)
    {
        std::string file = scratch + "/c20_" + std::to_string(mode) + ".chk";
        // a name in a directory that does not exist: the checkpoint cannot be written, the run is not affected
        if (badfile) file = scratch + "/no_such_directory/c20.chk";
        std::remove(file.c_str());
        std::vector<long long> texts, rets, facts;
        report_facts rep;
        std::string status = "ok";
        long long final_text = 0;
        capture.reset();
        std::streambuf* old = std::cout.rdbuf(&capture);
        // the caller's std::cout: exceptions enabled (the stream is healthy, nothing is thrown) / a number format of the caller's own
        std::ios saved_format(nullptr);
        saved_format.copyfmt(std::cout);
        if (cout_quirk == 1) std::cout.exceptions(std::ios::failbit | std::ios::badbit | std::ios::eofbit);
        if (cout_quirk == 2) { std::cout.setf(std::ios::fixed, std::ios::floatfield); std::cout.setf(std::ios::showpos); std::cout.precision(3); }
        try
        {
            if (world == 0)
            {
                C r = K::run(shp, variant, K::fresh(variant), plan, recording_cb<C>{hep::callback<C>((hep::callback_mode) mode, file, T(target)), &texts, &rets, &facts, &rep});
                final_text = ids().id("t:" + text_of(r));
            }
            else
            {
                std::vector<long long> finals((std::size_t) world, 0);
                std::vector<std::string> st((std::size_t) world, "ok");
                bool ok = vt_mpi_run(world, (unsigned long long) id * 104729ULL + (unsigned) mode, [&](MPI_Comm comm, int rank) {
                    try
                    {
                        // every process has its own working directory, as it were: the other ranks are given file names of their own
                        std::string const rfile = rank == 0 ? file : file + ".rank" + std::to_string(rank);
                        if (rank != 0) { std::remove(rfile.c_str()); std::remove((rfile + ".tmp").c_str()); }
                        C r = K::mpi_run(comm, shp, variant, K::fresh(variant), plan,
                            recording_mpi_cb<C>{hep::mpi_callback<C>((hep::callback_mode) mode, rfile, T(target)), &texts, &rets, &rep});
                        finals[(std::size_t) rank] = ids().id("t:" + text_of(r));
                    }
                    catch (vt_deadlock const&) { throw; }
                    catch (std::exception const&) { st[(std::size_t) rank] = "threw"; }
                }, false);
                final_text = finals[0];
                for (int r = 1; r < world; ++r) if (finals[(std::size_t) r] != finals[0]) status = "ranks-differ";
                for (auto const& s : st) if (s != "ok") status = s;
                if (!ok) status = "deadlock";
            }
        }
        catch (std::exception const& e) { status = "threw"; }
        std::cout.exceptions(std::ios::goodbit);
        std::cout.copyfmt(saved_format);
        std::cout.rdbuf(old);
        long long printed0 = capture.bytes[0], printed_other = 0;
        for (int r = 1; r != 64; ++r) printed_other += capture.bytes[r];
        // output on rank 0 only: files written by the other ranks
        long long files_other = 0;
        for (int r = 1; r < world; ++r)
            for (char const* suffix : {"", ".tmp"})
            {
                std::string const name = file + ".rank" + std::to_string(r) + suffix;
                std::ifstream in(name.c_str());
                if (in) { ++files_other; in.close(); std::remove(name.c_str()); }
            }
        long long file_text = -1;
        {
            std::ifstream in(file.c_str());
            if (in) { std::stringstream ss; ss << in.rdbuf(); file_text = ids().id("t:" + ss.str()); }
        }
        // what the verbose modes printed about each iteration: "iteration K finished." and "this iteration: N=<calls> ... nnf=<non-finite>"
        std::vector<long long> printed_iters, printed_n, printed_nnf, p_eff, p_e, p_err, p_all_n, p_all_e, p_all_err, p_chi;
        {
            std::istringstream in(capture.text0);
            std::string line;
            // the token between `key` and the first of `stop`
            auto token = [](std::string const& l, char const* key, char const* stop) -> std::string {
                std::size_t a = l.find(key);
                if (a == std::string::npos) return "<missing>";
                a += std::strlen(key);
                std::size_t b = l.find_first_of(stop, a);
                return l.substr(a, b == std::string::npos ? std::string::npos : b - a);
            };
            while (std::getline(in, line))
            {
                if (line.compare(0, 10, "iteration ") == 0 && line.find("finished") != std::string::npos) printed_iters.push_back(std::atoll(line.c_str() + 10));
                else if (line.compare(0, 15, "this iteration:") == 0)
                {
                    std::size_t a = line.find("N="), b = line.find("nnf=");
                    printed_n.push_back(a == std::string::npos ? -1 : std::atoll(line.c_str() + a + 2));
                    printed_nnf.push_back(b == std::string::npos ? -1 : std::atoll(line.c_str() + b + 4));
                    p_e.push_back(ids().id("r:" + token(line, " E=", " ")));
                    p_err.push_back(ids().id("r:" + token(line, " +- ", " ")));
                    std::string const eff = token(line, " eff=", "%");
                    char* end = nullptr;
                    double const x = std::strtod(eff.c_str(), &end);
                    p_eff.push_back((end == eff.c_str() || *end != 0 || !(x >= 0.0 && x <= 1000.0)) ? -1 : (long long) std::llround(x * 1000.0));
                }
                else if (line.compare(0, 15, "all iterations:") == 0)
                {
                    std::size_t a = line.find("N=");
                    p_all_n.push_back(a == std::string::npos ? -1 : std::atoll(line.c_str() + a + 2));
                    p_all_e.push_back(ids().id("r:" + token(line, " E=", " ")));
                    p_all_err.push_back(ids().id("r:" + token(line, " +- ", " ")));
                    p_chi.push_back(ids().id("r:" + token(line, "chi^2/dof=", " ")));
                }
            }
        }
        ev("Lane").i("run", id).i("mode", mode).a("facts", facts).a("pIters", printed_iters).a("pN", printed_n).a("pNnf", printed_nnf)
            .a("pEff", p_eff).a("pE", p_e).a("pErr", p_err).a("pAllN", p_all_n).a("pAllE", p_all_e).a("pAllErr", p_all_err).a("pChi", p_chi)
            .a("cN", rep.n).a("cNz", rep.nz).a("cNnf", rep.nnf).a("cE", rep.e).a("cErr", rep.err).a("cAllE", rep.all_e).a("cAllErr", rep.all_err).a("cChi", rep.chi)
            .s("kind", K::name()).s("T", type_name<T>::get()).s("shape", shape_name(shp)).i("variant", variant)
            .i("world", world).i("targetPos", target > 0 ? 1 : 0).a("texts", texts).a("rets", rets).i("final", final_text).s("status", status)
            .i("printed0", printed0).i("printedOther", printed_other).i("filesOther", files_other).i("fileText", file_text).i("badfile", badfile ? 1 : 0).emit();
    }
}

template <typename T> static void c20_family(rng& g, bool thorough)
{
    for (int shp = 0; shp != s_count; ++shp)
    {
        c20_run<plain_k<T>, T>(g, shp, 0, 0, shp == s_ordinary ? 0.05 : 0.0);
        c20_run<vegas_k<T>, T>(g, shp, 0, shp % 2 ? 2 : 0, shp == s_negative ? 0.05 : 0.0);
    }
    // fractional efficiencies and non-finite counts in the report (Report.tla): half the first iteration infinite and the rest of it zero,
    // a first iteration of zeros only, an iteration of zeros between ordinary ones
    c20_run<plain_k<T>, T>(g, s_inf0, 0, 0, 0.0);
    c20_run<vegas_k<T>, T>(g, s_gap0, 0, 0, 0.0);
    c20_run<plain_k<T>, T>(g, s_gap, 0, 0, 0.0);
    // the caller's std::cout has exceptions enabled, resp. carries the caller's own number format
    for (cout_quirk = 1; cout_quirk != 3; ++cout_quirk)
    {
        c20_run<plain_k<T>, T>(g, s_ordinary, 0, 0, 0.0);
        c20_run<vegas_k<T>, T>(g, s_nonfinite, 0, cout_quirk == 1 ? 0 : 2, 0.0);
        c20_run<mc_k<T>, T>(g, s_ordinary, 9, 0, 0.0);
    }
    cout_quirk = 0;
    c20_run<plain_k<T>, T>(g, s_ordinary, 0, 0, 0.0, true);
    c20_run<vegas_k<T>, T>(g, s_ordinary, 0, 2, 0.0, true);
    c20_run<mc_k<T>, T>(g, s_ordinary, 2, 0, 0.0, true);
    c20_run<plain_k<T>, T>(g, s_zero, 0, 3, 0.0, true);
    c20_run<plain_k<T>, T>(g, s_ordinary, 0, 0, 0.0, false, true);
    c20_run<vegas_k<T>, T>(g, s_ordinary, 0, 2, 0.05, false, true);
    // multi channel: every (channels, pattern) variant, some with non-finite / zero integrands, serial and MPI
    for (int variant = 0; variant != 40; ++variant)
    {
        if (!thorough && variant % 8 == 3 && variant > 8) continue; // 40 channels: fewer in quick
        int shp = variant % 5 == 0 ? s_zero : (variant % 7 == 0 ? s_nonfinite : (variant % 3 == 0 ? s_const : s_ordinary));
        c20_run<mc_k<T>, T>(g, shp, variant, variant % 4 == 1 ? 2 : 0, variant % 6 == 0 ? 0.05 : 0.0);
    }
}

// ---- structure of the multi channel summary (growth; spec/Summary.tla)
template <typename T> static void summary_case(std::vector<long long> const& w, long long S, long long N)
{
    std::size_t n = w.size();
    // adjustment data: small integers (the maximum difference D of the summary's first line is then an integer, too)
    std::vector<T> weights, adj(n, T(1));
    std::vector<long long> adj_int;
    for (std::size_t i = 0; i != n; ++i) { adj_int.push_back((w[i] * 3 + (long long) i * 5) % 11); adj[i] = T(adj_int.back()); }
    for (long long x : w) weights.push_back(T(x) / T(S));
    hep::plain_result<T> pr(std::vector<hep::distribution_result<T>>(), (std::size_t) N, (std::size_t) N, (std::size_t) N, T(1), T(1));
    auto chk = hep::make_multi_channel_chkpt<T>();
    chk.add(hep::multi_channel_result<T>(pr, adj, weights), std::mt19937());
    std::ostringstream o;
    std::string status = "ok";
    try { hep::multi_channel_summary(chk, o); } catch (std::exception const&) { status = "threw"; }
    std::istringstream in(o.str());
    std::string line;
    long long channels = -1, min_count = -1, wmax = -1, printed_d = -1;
    std::vector<long long> printed, runs;
    while (std::getline(in, line))
    {
        auto chan_of = [&](std::string const& l) { std::size_t p = l.rfind('#'); return p == std::string::npos ? -2LL : std::atoll(l.c_str() + p + 1); };
        if (line.compare(0, 7, "summary") == 0)
        {
            std::size_t p = line.find(" for "), q = line.find("D=");
            channels = std::atoll(line.c_str() + p + 5);
            // (an integer in every case recorded here; anything else is recorded as -1)
            char* end = nullptr;
            double const dv = q == std::string::npos ? -1.0 : std::strtod(line.c_str() + q + 2, &end);
            printed_d = (q != std::string::npos && end != line.c_str() + q + 2 && *end == ' ' && dv == std::floor(dv) && dv >= 0 && dv < 1e6) ? (long long) dv : -1;
        }
        else if (line.compare(0, 5, "wmin=") == 0)
        {
            std::size_t p = line.find(") in ");
            min_count = std::atoll(line.c_str() + p + 5);
            std::size_t h = line.find('#');
            std::string rs = line.substr(h + 1);
            std::size_t i = 0;
            while (i < rs.size())
            {
                long long a = std::atoll(rs.c_str() + i), b = a;
                while (i < rs.size() && rs[i] != '-' && rs[i] != ',') ++i;
                if (i < rs.size() && rs[i] == '-') { ++i; b = std::atoll(rs.c_str() + i); while (i < rs.size() && rs[i] != ',') ++i; }
                if (i < rs.size()) ++i;
                runs.push_back(a); runs.push_back(b);
            }
        }
        else if (line.compare(0, 5, "   w=") == 0) printed.push_back(chan_of(line));
        else if (line.compare(0, 8, "     ...") == 0) printed.push_back(-1);
        else if (line.compare(0, 5, "wmax=") == 0) wmax = chan_of(line);
    }
    ev("Summary").s("T", type_name<T>::get()).a("w", w).i("S", S).i("N", N).s("status", status).i("channels", channels).i("minCount", min_count)
        .a("minRuns", runs).a("printed", printed).i("wmax", wmax).a("adj", adj_int).i("D", printed_d)
        .i("Dfun", n >= 2 ? (long long) hep::multi_channel_max_difference(chk.results().back()) : 0).emit();
}
template <typename T> static void summary_family(rng& g, bool thorough)
{
    static int const sizes[10] = {1, 2, 3, 5, 11, 12, 13, 14, 20, 40};
    for (int k = 0; k != (thorough ? 600 : 150); ++k)
    {
        int n = sizes[g.below(10)];
        long long S = 256;
        std::vector<long long> w((std::size_t) n, 0);
        int pat = (int) g.below(6);
        long long left = S;
        for (int i = 0; i != n && left > 0; ++i)
        {
            long long x;
            if (pat == 0) x = S / n;                                   // all (nearly) equal
            else if (pat == 1) x = i == n / 2 ? S / 2 : 1;             // all but one minimal
            else if (pat == 2) x = g.below(4) == 0 ? 1 + (long long) g.below(40) : 0;   // few non-minimal, rest disabled
            else if (pat == 3) x = 1 + i;                              // graded
            else if (pat == 4) x = i < n / 2 ? 0 : 1 + (i % 3);        // disabled in front
            else x = (long long) g.below(12);
            if (x > left) x = left;
            w[(std::size_t) i] = x;
            left -= x;
        }
        w[(std::size_t) g.below((unsigned) n)] += left;               // make the weights sum to S exactly
        long long N = 256 * (1 + (long long) g.below(8));
        if (g.below(5) == 0) N = 64;                                   // few calls: many channels share the minimal count
        summary_case<T>(w, S, N);
    }
}

int main(int argc, char** argv)
{
    if (argc < 6) return 2;
    out().open(argv[1]);
    install_abort_handler();
    rng g(std::strtoull(argv[2], nullptr, 10));
    bool thorough = std::atoi(argv[3]) != 0;
    scratch = argv[4];
    int what = std::atoi(argv[5]);
    if (what == 12)
    {
        std::streambuf* old = std::cout.rdbuf(&capture); // the verbose modes print; not of interest here
        c12_family<double>(g, thorough);
        c12_family<float>(g, thorough);
        if (thorough) c12_family<long double>(g, thorough);
        std::cout.rdbuf(old);
    }
    else
    {
        summary_family<double>(g, thorough);
        summary_family<float>(g, thorough);
        c20_family<double>(g, thorough);
        if (thorough) { c20_family<float>(g, true); c20_family<long double>(g, true); }
        else c20_run<mc_k<float>, float>(g, s_ordinary, 18, 0, 0.0), c20_run<plain_k<long double>, long double>(g, s_ordinary, 0, 2, 0.01);
    }
    out().close();
    return 0;
}
