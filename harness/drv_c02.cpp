// C02 driver: every iteration result is the documented estimator of exactly the sampled values.
//   drv_c02 <out.ndjson> <seed> <thorough>
#include "vt_call.hpp"

#include <cstdlib>

using namespace vt;

static std::vector<value_spec> make_plan(rng& g, std::size_t n, int fmax, int poison)
{
    std::vector<value_spec> p(n ? n : 1);
    static char const* tags[3] = {"nan", "+inf", "-inf"};
    for (auto& v : p)
    {
        int k = (int) g.below(10);
        if (k < 3) v.f = 0;
        else v.f = (int) g.range(-fmax, fmax);
        v.tag = "fin";
        if (poison && g.below((unsigned) poison) == 0) v.tag = tags[g.below(3)];
        // the integrand asks for the weight (to record it) - except, now and then, where it returns zero: then nobody needs it
        v.wreq = !(v.f == 0 && v.tag == std::string("fin") && g.below(2) == 0);
        // now and then (multi channel only; ignored elsewhere) a finite value meets an infinite weight: all densities vanish at that point
        v.dz = v.wreq && v.f != 0 && v.tag == std::string("fin") && g.below(9) == 0;
    }
    return p;
}

static script_engine make_engine(rng& g, std::size_t len)
{
    std::vector<std::uint64_t> s;
    for (std::size_t i = 0; i != len; ++i)
    {
        int k = (int) g.below(16);
        if (k == 0) s.push_back(0);
        else if (k == 1) s.push_back(~0ULL);
        else s.push_back(dyadic(g.below(1u << 12), 12));
    }
    return script_engine(script_registry::add(s));
}

template <typename T>
static void family(rng& g, bool thorough, bool dists)
{
    std::vector<std::size_t> sizes{0, 1, 2, 3, 7, 64};
    if (thorough) sizes.push_back(255);
    // PLAIN, several dimensions, several iterations in one run
    for (std::size_t d = 1; d <= 3; ++d)
    {
        call_ctx<T> c;
        c.dists = dists;
        c.cfg.kind = "plain";
        c.cfg.d = d;
        c.plan = make_plan(g, 97, 4, 9);
        run_plain<T>(c, make_engine(g, 211), sizes);
    }
    // values in the subnormal range of T (their squares underflow): every non-zero finite evaluation still counts and is summed
    for (std::size_t d = 1; d <= 2; ++d)
    {
        call_ctx<T> c;
        c.dists = dists;
        c.cfg.kind = "plain";
        c.cfg.d = d;
        c.vexp = std::numeric_limits<T>::min_exponent - std::numeric_limits<T>::digits; // f * denorm_min
        c.plan = make_plan(g, 61, 4, 9);
        run_plain<T>(c, make_engine(g, 101), std::vector<std::size_t>{1, 7, 64});
    }
    // a valid but extremely non-uniform VEGAS grid in eight dimensions: the weight of a point in the narrow corner underflows to
    // exactly zero - the point is still sampled and the integrand evaluated
    {
        hep::vegas_pdf<T> pdf(8, 2);
        for (std::size_t j = 0; j != 8; ++j) pdf.set_bin_left(j, 1, std::ldexp(T(1), -(std::numeric_limits<T>::digits + 20)));
        std::vector<std::uint64_t> sc;
        for (int call = 0; call != 12; ++call)
            for (int j = 0; j != 8; ++j) sc.push_back(call % 3 == 0 ? dyadic(1, 2) : (g.below(2) ? dyadic(1, 2) : dyadic(3, 2)));
        call_ctx<T> c;
        c.dists = dists;
        c.cfg.kind = "vegas";
        c.plan = make_plan(g, 29, 3, 0);
        run_vegas<T>(c, script_engine(script_registry::add(sc)), pdf, std::vector<std::size_t>{12}, T(1.5));
    }
    // VEGAS with dyadic user grids (weights exact); alpha > 0 so that later iterations use adapted grids:
    // those iterations are exact only while the grid stays dyadic, otherwise counters only
    for (int gi = 0; gi != 3; ++gi)
    {
        std::size_t d = gi == 2 ? 2 : 1;
        std::size_t B = gi == 0 ? 2 : 4;
        hep::vegas_pdf<T> pdf(d, B);
        for (std::size_t j = 0; j != d; ++j)
        {
            if (B == 2) pdf.set_bin_left(j, 1, T(0.125));
            else { pdf.set_bin_left(j, 1, T(0.0625)); pdf.set_bin_left(j, 2, T(0.25)); pdf.set_bin_left(j, 3, T(0.5)); }
        }
        call_ctx<T> c;
        c.dists = dists;
        c.cfg.kind = "vegas";
        c.plan = make_plan(g, 101, 3, 11);
        run_vegas<T>(c, make_engine(g, 223), pdf, std::vector<std::size_t>{0, 1, 2, 7, 64}, T(1.5));
        // each of the sizes again as the *first* iteration of a fresh run (exact grid)
        for (std::size_t N : sizes)
        {
            call_ctx<T> c2;
            c2.dists = dists;
            c2.cfg.kind = "vegas";
            c2.plan = make_plan(g, 53, 3, 7);
            run_vegas<T>(c2, make_engine(g, 101), pdf, std::vector<std::size_t>{N}, T(1.5));
        }
    }
    // multi channel: first iterations with exact weights; channels with disabled entries
    for (int fam = 0; fam != 3; ++fam)
    {
        std::vector<T> w = fam == 1 ? std::vector<T>{T(1), T(1)} : (fam == 0 ? std::vector<T>{T(2), T(1), T(1), T(0)} : std::vector<T>{T(0), T(4), T(0)});
        for (std::size_t N : std::vector<std::size_t>{0, 1, 2, 3, 7, 64})
        {
            call_ctx<T> c;
            c.dists = dists;
            c.cfg.kind = "mc";
            c.cfg.d = fam == 2 ? 2 : 1;
            c.cfg.densfam = fam;
            c.plan = make_plan(g, 59, 2, 8);
            // every other size: the odd channels come with a negative jacobian - the weight of their points, and with it the adjustment
            // data p_i (f w)^2 w, is negative
            c.jac_neg = N % 2 == 1 || N == 64;
            run_mc<T>(c, make_engine(g, 127), w, std::vector<std::size_t>{N});
        }
        // several adaptive iterations: weights move away from dyadic values => counters only
        call_ctx<T> c;
        c.dists = dists;
        c.cfg.kind = "mc";
        c.cfg.d = 1;
        c.cfg.densfam = fam;
        c.plan = make_plan(g, 61, 2, 8);
        run_mc<T>(c, make_engine(g, 131), w, std::vector<std::size_t>{7, 7, 7});
    }
}

int main(int argc, char** argv)
{
    if (argc < 4) return 2;
    out().open(argv[1]);
    install_abort_handler();
    rng g(std::strtoull(argv[2], nullptr, 10));
    bool thorough = std::atoi(argv[3]) != 0;
    family<float>(g, thorough, false);
    family<double>(g, thorough, true);
    family<long double>(g, thorough, false);
    if (thorough) { family<float>(g, true, true); family<double>(g, true, false); family<long double>(g, true, true); }
    out().close();
    return 0;
}
