// C09 driver: channel selection.  For every weight vector and a set of canonical numbers j/2^24
// (extremes, every cumulative boundary and its lattice neighbours, a coarse lattice) record which
// index hep::discrete_distribution returns and which channel hep::multi_channel hands to the map
// and the integrand; plus full-lattice counts.
//   drv_c09 <out.ndjson> <maxlen> <seed> <thorough>
#include "hep/mc.hpp"
#include "vt_engines.hpp"
#include "vt_trace.hpp"

#include <algorithm>
#include <cmath>
#include <cstdlib>
#include <limits>
#include <random>
#include <set>
#include <vector>

static int const S24 = 24;
static long long const D = 1LL << S24;

static std::vector<long long> choose_js(std::vector<int> const& w, vt::rng& g)
{
    long long S = 0;
    for (int x : w) S += x;
    std::set<long long> js{0, 1, D - 1, D - 2};
    long long c = 0;
    for (int x : w)
    {
        c += x;
        long long f = (c * D) / S;
        for (long long k = -2; k <= 2; ++k) { long long j = f + k; if (j >= 0 && j < D) js.insert(j); }
    }
    for (int k = 0; k != 8; ++k) js.insert((long long) g.below((unsigned long long) D));
    for (int k = 0; k != 8; ++k) js.insert((D / 8) * k + D / 16);
    return std::vector<long long>(js.begin(), js.end());
}

template <typename T>
static void run_dd(std::vector<int> const& w, std::vector<long long> const& js, long double scale, char const* sc)
{
    std::vector<T> wt;
    for (int x : w) wt.push_back((T) ((long double) x * scale));
    std::vector<std::uint64_t> script;
    for (long long j : js) script.push_back(vt::dyadic((std::uint64_t) j, S24));
    vt::script_engine e(vt::script_registry::add(script));
    hep::discrete_distribution<std::size_t, T> d(wt.begin(), wt.end());
    std::vector<long long> idx;
    for (std::size_t k = 0; k != js.size(); ++k) idx.push_back((long long) d(e));
    vt::ev("Pick").s("via", "dd").s("T", vt::type_name<T>::get()).s("scale", sc).a("w", w).a("js", js).a("idx", idx)
        .i("draws", (long long) e.pos()).emit();
}

template <typename T> struct mc_log
{
    std::vector<long long> map_chan, int_chan;
    std::vector<std::vector<long long>> enabled;
    long long dens_bad = 0;
};

template <typename T>
static void run_mc(std::vector<int> const& w, std::vector<long long> const& js, long double scale, char const* sc)
{
    std::vector<T> wt;
    for (int x : w) wt.push_back((T) ((long double) x * scale));
    std::vector<std::uint64_t> script;
    // the same canonical number for the point and for the selector: the order in which a call draws them is not prescribed
    for (long long j : js) { script.push_back(vt::dyadic((std::uint64_t) j, S24)); script.push_back(vt::dyadic((std::uint64_t) j, S24)); }
    vt::script_engine e(vt::script_registry::add(script));
    mc_log<T> lg;
    std::size_t const n = w.size();
    auto map = [&lg, n](std::size_t ch, std::vector<T> const& r, std::vector<T>& c, std::vector<std::size_t> const& en,
        std::vector<T>& d, hep::multi_channel_map action) {
        if (action == hep::multi_channel_map::calculate_coordinates)
        {
            lg.map_chan.push_back((long long) ch);
            lg.enabled.emplace_back(en.begin(), en.end());
            c[0] = r[0];
        }
        else
        {
            for (std::size_t i = 0; i != n; ++i) d[i] = T(1);
        }
        return T(1);
    };
    auto fn = [&lg](hep::multi_channel_point<T> const& p) { lg.int_chan.push_back((long long) p.channel()); return T(1); };
    auto integrand = hep::make_multi_channel_integrand<T>(fn, 1, map, 1, n);
    auto chk = hep::make_multi_channel_chkpt<T, vt::script_engine>(wt, T(), T(0.25), e);
    using C = decltype(chk);
    auto r = hep::multi_channel(integrand, std::vector<std::size_t>{js.size()}, chk, hep::callback<C>(hep::callback_mode::silent));
    bool same_enabled = true;
    for (auto const& en : lg.enabled) same_enabled = same_enabled && (en == lg.enabled.front());
    // the selector normalises what it is given: its probabilities are the weights the result records only if those sum to one
    long double rsum = 0.0L;
    for (T x : r.results()[0].channel_weights()) rsum += x;
    bool const sum_ok = std::fabs(rsum - 1.0L) <= 4.0L * (long double) n * std::numeric_limits<T>::epsilon();
    vt::ev("McPick").s("via", "mc").s("T", vt::type_name<T>::get()).s("scale", sc).a("w", w).a("js", js)
        .a("idx", lg.int_chan).a("mapidx", lg.map_chan).a("enabled", lg.enabled.empty() ? std::vector<long long>() : lg.enabled.front())
        .b("sameEnabled", same_enabled).i("calls", (long long) r.results()[0].calls()).i("sumOk", sum_ok ? 1 : 0).emit();
}

// adaptive runs with a minimum weight that clamps: the weights every iteration records (and selects with) sum to one
template <typename T>
static void run_mc_norm(vt::rng& g, int run)
{
    std::size_t const n = 2 + g.below(3);
    std::vector<T> w(n, T(1));
    w[g.below(n)] = T(20 + g.below(20));
    T const minw = T(1 + g.below(3)) / T(10 * n);
    auto map = [n](std::size_t ch, std::vector<T> const& r, std::vector<T>& c, std::vector<std::size_t> const&, std::vector<T>& d, hep::multi_channel_map) {
        T u = r[0];
        c[0] = ch % 2 ? u * u : u;
        for (std::size_t j = 0; j != n; ++j) d[j] = j % 2 ? (c[0] > T() ? T(0.5) / std::sqrt(c[0]) : T(1e6)) : T(1);
        return T(1);
    };
    auto fn = [](hep::multi_channel_point<T> const& p) { T y = p.coordinates()[0]; return T(1) + y * y; };
    auto chk = hep::make_multi_channel_chkpt<T>(w, minw, T(0.5), std::mt19937((unsigned) g.below(100000)));
    using C = decltype(chk);
    auto r = hep::multi_channel(hep::make_multi_channel_integrand<T>(fn, 1, map, 1, n), std::vector<std::size_t>(3, 200), chk, hep::callback<C>(hep::callback_mode::silent));
    long long worst = 0;
    std::vector<std::vector<T>> all;
    for (auto const& it : r.results()) all.push_back(it.channel_weights());
    all.push_back(r.channel_weights());
    for (auto const& v : all)
    {
        long double s = 0.0L;
        for (T x : v) s += x;
        long double dev = std::fabs(s - 1.0L) / std::numeric_limits<T>::epsilon();
        worst = std::max(worst, std::isfinite((double) dev) ? (long long) std::ceil(dev) : 999999999LL);
    }
    vt::ev("McNorm").s("T", vt::type_name<T>::get()).i("run", run).i("n", (long long) n).i("devEps", worst).emit();
}

template <typename T>
static void run_count(std::vector<int> const& w, int s)
{
    std::vector<T> wt(w.begin(), w.end());
    std::vector<std::uint64_t> script;
    for (long long j = 0; j != (1LL << s); ++j) script.push_back(vt::dyadic((std::uint64_t) j, s));
    vt::script_engine e(vt::script_registry::add(script));
    hep::discrete_distribution<std::size_t, T> d(wt.begin(), wt.end());
    std::vector<long long> counts(w.size() + 1, 0);
    for (long long j = 0; j != (1LL << s); ++j) { std::size_t i = d(e); ++counts[i < w.size() ? i : w.size()]; }
    long long invalid = counts.back();
    counts.pop_back();
    vt::ev("Count").s("T", vt::type_name<T>::get()).a("w", w).i("D", 1LL << s).a("counts", counts).i("invalid", invalid).emit();
}

// arbitrary raw generator outputs (incl. the largest ones, which round to the largest canonical value
// below one in T) and larger, unnormalised weight vectors; the lattice index is derived from the
// canonical number the library itself will see
template <typename T>
static void run_raw(std::vector<int> const& w, std::vector<std::uint64_t> const& raws, long double scale, char const* sc)
{
    std::vector<T> wt;
    for (int x : w) wt.push_back((T) ((long double) x * scale));
    int id = vt::script_registry::add(raws);
    vt::script_engine probe(id), e(id);
    std::vector<long long> js, idx;
    for (std::size_t k = 0; k != raws.size(); ++k)
    {
        T u = std::generate_canonical<T, std::numeric_limits<T>::digits>(probe);
        long long j = (long long) std::floor(std::ldexp((long double) u, S24));
        js.push_back(j >= D ? D - 1 : j);
    }
    // the selector is an object like any other: a copy of it (the original is gone), an object that was assigned to, or one built from a range of
    // integers (scale 1: the weights are the integers themselves) selects as the original does
    static int variant = 0;
    typedef hep::discrete_distribution<std::size_t, T> dd_t;
    dd_t* orig = (++variant % 4 == 3 && scale == 1.0L) ? new dd_t(w.begin(), w.end()) : new dd_t(wt.begin(), wt.end());
    std::vector<T> other(3, T(1));
    dd_t d(other.begin(), other.end());
    if (variant % 2) { dd_t c(*orig); d = c; } else { d = *orig; }
    dd_t d2(d);
    delete orig;
    for (std::size_t k = 0; k != raws.size(); ++k) idx.push_back((long long) (k % 2 ? d(e) : d2(e)));
    vt::ev("Pick").s("via", "dd-raw").s("T", vt::type_name<T>::get()).s("scale", sc).a("w", w).a("js", js).a("idx", idx)
        .i("draws", (long long) e.pos()).emit();
}

static void raw_family(vt::rng& g, int count)
{
    for (int k = 0; k != count; ++k)
    {
        int n = (int) g.range(2, 6);
        std::vector<int> w((std::size_t) n, 0);
        int S = 0;
        for (int i = 0; i != n; ++i) { if (g.below(3) != 0) { w[(std::size_t) i] = (int) g.range(1, 25); S += w[(std::size_t) i]; } }
        if (k % 4 == 0) { w.back() = 0; if (n > 2) w[(std::size_t) n - 2] = 0; }     // trailing disabled channels
        if (k % 5 == 0) w.front() = 0;                                                // leading disabled channel
        S = 0;
        for (int x : w) S += x;
        if (S == 0) { w[1] = 1 + (int) g.below(99); S = w[1]; }
        if (k % 3 == 0)
        {
            // force a prescribed total 1..100 by adjusting the first enabled channel
            int want = (int) g.range(1, 100);
            for (int& x : w) if (x > 0) { S -= x; x = want > S ? want - S : 1; S += x; break; }
        }
        if (S > 100) continue;
        std::vector<std::uint64_t> raws{~0ULL, ~0ULL - 1, ~0ULL - (1ULL << 11), ~0ULL - (1ULL << 40), ~0ULL - (1ULL << 41), 0ULL, 1ULL,
            (1ULL << 40) - 1, 1ULL << 63, (1ULL << 63) - 1};
        for (int i = 0; i != 6; ++i) raws.push_back(g.next());
        run_raw<float>(w, raws, 1.0L, "1");
        run_raw<double>(w, raws, 1.0L, "1");
        run_raw<long double>(w, raws, 1.0L, "1");
    }
}

template <typename T>
static void any_family(vt::rng& g, int count)
{
    for (int k = 0; k != count; ++k)
    {
        int n = (int) g.range(2, 7);
        std::vector<T> w((std::size_t) n, T());
        std::vector<int> wz((std::size_t) n, 0);
        for (int i = 0; i != n; ++i)
            if (g.below(3) != 0) { w[(std::size_t) i] = T(g.range(1, 99)) / T(10) * (g.below(4) == 0 ? T(0.01) : T(1)); wz[(std::size_t) i] = 1; }
        bool any = false;
        for (int z : wz) any = any || z;
        if (!any) { w[1] = T(0.7); wz[1] = 1; }
        // every other vector is normalised in T (as the weights of a checkpoint are): its floating-point sum is then one or one ulp off
        if (k % 2)
        {
            T st = T();
            for (T x : w) st += x;
            for (T& x : w) x /= st;
        }
        // canonical numbers: the floating-point neighbours (in T) of every cumulative boundary, computed in long double
        long double S = 0;
        for (T x : w) S += x;
        std::vector<std::uint64_t> raws{0ULL, ~0ULL};
        long double c = 0;
        for (T x : w)
        {
            c += x;
            T u = (T) (c / S);
            T lo = u, hi = u;
            for (int s = 0; s != 3; ++s)
            {
                for (T v : {lo, hi})
                    if (v >= T() && v < T(1)) raws.push_back((std::uint64_t) std::ldexp((long double) v, 64));
                lo = std::nextafter(lo, T(-1)); hi = std::nextafter(hi, T(2));
            }
        }
        vt::script_engine e(vt::script_registry::add(raws));
        hep::discrete_distribution<std::size_t, T> d(w.begin(), w.end());
        std::vector<long long> idx;
        for (std::size_t i = 0; i != raws.size(); ++i) idx.push_back((long long) d(e));
        vt::ev("PickAny").s("T", vt::type_name<T>::get()).a("wz", wz).a("idx", idx).i("draws", (long long) e.pos()).i("n", (long long) raws.size()).emit();
    }
}

// selections at the full precision of T: weights k_i (1 + 2^-(digits-9)) with integers k_i of total S <= 255 (the common factor uses the
// low bits of the mantissa but does not change the probabilities k_i / S), raw 64-bit outputs r whose canonical number r / 2^64 is exact
// in T, placed 8, 64 and 1024 units (of the last place of T at one) around every cumulative boundary C_i / S.  The specification decides
// with exact integer arithmetic on 16-bit limbs which channel owns r / 2^64 (r - 4 units and r + 4 units must agree, else either).
template <typename T>
static void wide_family(vt::rng& g, int count)
{
    int const digits = std::numeric_limits<T>::digits;
    int const ushift = 64 - digits;                      // one unit = 2^ushift
    T const factor = T(1) + std::ldexp(T(1), -(digits - 9));
    for (int k = 0; k != count; ++k)
    {
        int n = (int) g.range(2, 6);
        std::vector<int> w((std::size_t) n, 0);
        int S = 0;
        for (int i = 0; i != n; ++i) if (g.below(4) != 0) { w[(std::size_t) i] = (int) g.range(1, 40); S += w[(std::size_t) i]; }
        if (k % 3 == 0) w.back() = 0;
        S = 0;
        for (int x : w) S += x;
        if (S == 0) { w[0] = 7; S = 7; }
        if (S > 255) continue;
        std::vector<T> wt;
        for (int x : w) wt.push_back(T(x) * factor);
        std::vector<std::uint64_t> raws;
        int c = 0;
        for (int x : w)
        {
            c += x;
            if (x == 0 || c == S) continue;
            unsigned __int128 b = ((unsigned __int128) c << 64) / (unsigned) S;
            std::uint64_t rb = ((std::uint64_t) b >> ushift) << ushift;
            for (long long d : {-1024LL, -64LL, -8LL, 8LL, 64LL, 1024LL})
            {
                std::uint64_t r = rb + (std::uint64_t) (d * (1LL << ushift));
                raws.push_back(r);
            }
        }
        raws.push_back((~0ULL >> ushift) << ushift); // the largest value below one
        raws.push_back(8ULL << ushift);
        vt::script_engine e(vt::script_registry::add(raws));
        hep::discrete_distribution<std::size_t, T> d(wt.begin(), wt.end());
        std::string cases = "[";
        for (std::size_t i = 0; i != raws.size(); ++i)
        {
            long long idx = (long long) d(e);
            std::uint64_t base = raws[i] - (4ULL << ushift);
            cases += std::string(i ? "," : "") + "[" + std::to_string(base & 0xffff) + "," + std::to_string((base >> 16) & 0xffff) + "," +
                std::to_string((base >> 32) & 0xffff) + "," + std::to_string((base >> 48) & 0xffff) + "," + std::to_string(idx) + "]";
        }
        cases += "]";
        vt::ev("PickWide").s("T", vt::type_name<T>::get()).a("w", w).i("ushift", ushift).raw("cases", cases).i("draws", (long long) e.pos())
            .i("n", (long long) raws.size()).emit();
    }
}

// a boundary that is exactly the largest canonical number below one: weights {2^digits - 1, 1} (total 2^digits, the quotient is exact),
// surrounded by disabled channels.  The half-open intervals [C(i-1)/S, C(i)/S) give the largest number to the channel of weight one and
// everything below it to the other.
template <typename T>
static void top_boundary(int lead, int trail)
{
    int const digits = std::numeric_limits<T>::digits;
    std::vector<T> w((std::size_t) lead, T());
    w.push_back(std::ldexp(T(1), digits) - T(1));
    w.push_back(T(1));
    for (int i = 0; i != trail; ++i) w.push_back(T());
    std::uint64_t top = (~0ULL >> (64 - digits)) << (64 - digits);
    std::uint64_t unit = 1ULL << (64 - digits);
    std::vector<std::uint64_t> raws{top, top - unit, top - 2 * unit, 0ULL, unit};
    vt::script_engine e(vt::script_registry::add(raws));
    hep::discrete_distribution<std::size_t, T> d(w.begin(), w.end());
    std::vector<long long> idx;
    for (std::size_t i = 0; i != raws.size(); ++i) idx.push_back((long long) d(e));
    vt::ev("PickTop").s("T", vt::type_name<T>::get()).i("digits", digits).i("lead", lead).i("trail", trail).a("idx", idx).i("draws", (long long) e.pos()).emit();
}

static bool dyadic_sum(std::vector<int> const& w)
{
    int S = 0;
    for (int x : w) S += x;
    return (S & (S - 1)) == 0;
}

static void norm_family(vt::rng& g, int count)
{
    for (int k = 0; k != count; ++k) { if (k % 3 == 0) run_mc_norm<float>(g, k); else if (k % 3 == 1) run_mc_norm<double>(g, k); else run_mc_norm<long double>(g, k); }
}

int main(int argc, char** argv)
{
    if (argc < 5) return 2;
    vt::out().open(argv[1]);
    vt::install_abort_handler();
    int maxlen = std::atoi(argv[2]);
    vt::rng g(std::strtoull(argv[3], nullptr, 10));
    bool thorough = std::atoi(argv[4]) != 0;
    for (int n = 1; n <= maxlen; ++n)
    {
        long total = 1;
        for (int k = 0; k != n; ++k) total *= 4;
        for (long code = 1; code != total; ++code)
        {
            std::vector<int> w;
            long c = code;
            for (int k = 0; k != n; ++k) { w.push_back((int) (c % 4)); c /= 4; }
            auto js = choose_js(w, g);
            int pick = (int) g.below(3);
            bool dy = dyadic_sum(w);
            // direct: all three types unscaled on a rotating basis (all in thorough), scaled variants
            if (thorough || pick == 0) run_dd<float>(w, js, 1.0L, "1");
            if (thorough || pick == 1) run_dd<double>(w, js, 1.0L, "1");
            if (thorough || pick == 2) run_dd<long double>(w, js, 1.0L, "1");
            run_dd<float>(w, js, 1099511627776.0L, "2^40");
            run_dd<double>(w, js, 1.0L / 3.0L, "1/3");
            if (thorough) run_dd<long double>(w, js, 7.0L, "7");
            // through the integrator
            if (dy) run_mc<float>(w, js, 1.0L, "1");
            if (thorough || pick != 0) run_mc<double>(w, js, pick == 1 ? 0.125L : 1.0L, pick == 1 ? "1/8" : "1");
            if (thorough || pick == 0) run_mc<long double>(w, js, 1.0L / 3.0L, "1/3");
            if (n <= 3 || thorough)
            {
                run_count<double>(w, 10);
                if (thorough) { run_count<float>(w, 12); run_count<long double>(w, 8); }
            }
        }
    }
    // many channels (9..40), totals that are powers of two so that every cumulative boundary is a lattice point, zero weights in between
    for (int k = 0; k != (thorough ? 400 : 80); ++k)
    {
        int n = (int) g.range(9, k % 4 == 0 ? 40 : 20);
        std::vector<int> w((std::size_t) n, 0);
        for (int& x : w) x = (int) g.below(n <= 20 ? 4 : 2);
        if (k % 3 == 0) w[0] = 0;
        int S = 0;
        for (int x : w) S += x;
        if (S >= 64) continue; // the specification's integers are 32 bits wide: total * 2^24 must fit
        int want = 16;
        while (want < S + 1) want *= 2;
        w[(std::size_t) g.below((unsigned) n)] += want - S;
        auto js = choose_js(w, g);
        run_dd<float>(w, js, 1.0L, "1");
        run_dd<double>(w, js, k % 2 ? 1.0L : 0.25L, k % 2 ? "1" : "1/4");
        run_dd<long double>(w, js, 1.0L, "1");
        if (k % 2) run_mc<double>(w, js, 1.0L, "1"); else run_mc<float>(w, js, 1.0L, "1");
    }
    for (int lead = 0; lead != 3; ++lead)
        for (int trail = 0; trail != 3; ++trail) { top_boundary<float>(lead, trail); top_boundary<double>(lead, trail); top_boundary<long double>(lead, trail); }
    raw_family(g, thorough ? 1500 : 300);
    norm_family(g, thorough ? 60 : 15);
    wide_family<float>(g, thorough ? 1000 : 200); wide_family<double>(g, thorough ? 1000 : 200); wide_family<long double>(g, thorough ? 1000 : 200);
    any_family<float>(g, thorough ? 3000 : 600); any_family<double>(g, thorough ? 3000 : 600); any_family<long double>(g, thorough ? 3000 : 600);
    vt::out().close();
    return 0;
}
