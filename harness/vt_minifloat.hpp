// minifloat<P>: integers with a P-bit significand, unbounded exponent (within long long), round to
// nearest even - exactly the arithmetic of spec/Kahan.tla - so that the library's own function
// template hep::accumulate<T> can be instantiated on it (C14).
#ifndef VT_MINIFLOAT_HPP
#define VT_MINIFLOAT_HPP

namespace vt
{

template <int P>
struct minifloat
{
    long long v;
    minifloat() : v(0) {}
    minifloat(long long x) : v(rnd(x)) {}
    static int bitlen(unsigned long long a) { int n = 0; while (a) { ++n; a >>= 1; } return n; }
    static long long rnd(long long x)
    {
        unsigned long long a = x < 0 ? (unsigned long long) (-x) : (unsigned long long) x;
        int s = bitlen(a) - P;
        if (s <= 0) return x;
        unsigned long long u = 1ULL << s, q = a >> s, rem = a & (u - 1), half = u >> 1;
        if (rem > half || (rem == half && (q & 1))) ++q;
        long long r = (long long) (q << s);
        return x < 0 ? -r : r;
    }
    friend minifloat operator+(minifloat a, minifloat b) { return minifloat(a.v + b.v); }
    friend minifloat operator-(minifloat a, minifloat b) { return minifloat(a.v - b.v); }
    friend minifloat operator*(minifloat a, minifloat b) { return minifloat(a.v * b.v); }
    minifloat& operator+=(minifloat b) { v = rnd(v + b.v); return *this; }
    friend bool operator==(minifloat a, minifloat b) { return a.v == b.v; }
    friend bool operator!=(minifloat a, minifloat b) { return a.v != b.v; }
    // the rest of what a floating-point type offers (a refactored summation may use any of it)
    friend bool operator<(minifloat a, minifloat b) { return a.v < b.v; }
    friend bool operator>(minifloat a, minifloat b) { return a.v > b.v; }
    friend bool operator<=(minifloat a, minifloat b) { return a.v <= b.v; }
    friend bool operator>=(minifloat a, minifloat b) { return a.v >= b.v; }
    minifloat operator-() const { return minifloat(-v); }
    minifloat& operator-=(minifloat b) { v = rnd(v - b.v); return *this; }
    minifloat& operator*=(minifloat b) { v = rnd(v * b.v); return *this; }
    friend minifloat fabs(minifloat a) { return minifloat(a.v < 0 ? -a.v : a.v); }
    friend minifloat abs(minifloat a) { return minifloat(a.v < 0 ? -a.v : a.v); }
};

} // namespace vt

#endif
