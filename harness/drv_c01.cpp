// C01 driver: the integrators driven by an equidistributed midpoint lattice instead of random numbers.
//   drv_c01 <out.ndjson> <seed> <thorough>
#include "hep/mc.hpp"
#include "vt_engines.hpp"
#include "vt_trace.hpp"

#include <cmath>
#include <cstdlib>
#include <random>
#include <vector>

using namespace vt;

// raw 64-bit outputs whose canonical numbers are the midpoints (2j+1)/(2M), in the order the library draws them:
// per call the d numbers of the point (fastest index first), then (multi channel) the selector
static script_engine lattice(std::vector<std::size_t> const& M, bool selector_last)
{
    std::size_t dims = M.size();
    std::size_t total = 1;
    for (std::size_t m : M) total *= m;
    std::vector<std::uint64_t> s;
    for (std::size_t k = 0; k != total; ++k)
    {
        std::size_t rest = k;
        for (std::size_t d = 0; d != dims; ++d)
        {
            std::size_t j = rest % M[d];
            rest /= M[d];
            long double u = (2.0L * j + 1.0L) / (2.0L * M[d]);
            s.push_back((std::uint64_t) std::floor(std::ldexp(u, 64)));
        }
    }
    (void) selector_last;
    return script_engine(script_registry::add(s));
}

enum fkind { f_one = 0, f_x0, f_x1, f_ind };

// ---- VEGAS (and PLAIN as the one-bin case): exact dyadic grids, exact sums
template <typename T>
static void vegas_case(std::vector<std::vector<int>> const& gx, int G, int f, int indb, std::size_t Mper)
{
    std::size_t d = gx.size(), B = gx[0].size() - 1;
    hep::vegas_pdf<T> pdf(d, B);
    for (std::size_t k = 0; k != d; ++k) for (std::size_t b = 1; b != B; ++b) pdf.set_bin_left(k, b, T(gx[k][b]) / T(G));
    std::vector<std::size_t> M(d, Mper);
    std::size_t N = 1;
    for (std::size_t m : M) N *= m;
    T edge = T(gx[0][(std::size_t) indb]) / T(G);
    auto fn = [&](hep::vegas_point<T> const& p) {
        T x = p.point()[0];
        if (f == f_one) return T(1);
        if (f == f_x0) return x;
        if (f == f_x1) return p.point()[d - 1];
        return x < edge ? T(1) : T();
    };
    // the indicator function books an observable before it decides (the event is histogrammed, then fails the cut and zero is returned)
    auto fnd = [&](hep::vegas_point<T> const& p, hep::projector<T>& pr) { pr.add(0, p.point()[0], T(1)); return fn(p); };
    auto chk = hep::make_vegas_chkpt<T, script_engine>(pdf, T(1.5), lattice(M, false));
    using C = decltype(chk);
    // every other constant / indicator integrand returns an `int` (a count, a flag): the value is converted to T before it meets the weight
    static unsigned flip = 0;
    bool const as_int = (f == f_one || f == f_ind) && (++flip % 2 == 0);
    auto fn_int = [&](hep::vegas_point<T> const& p) -> int { return (f == f_one || p.point()[0] < edge) ? 1 : 0; };
    auto fnd_int = [&](hep::vegas_point<T> const& p, hep::projector<T>& pr) -> int { pr.add(0, p.point()[0], T(1)); return fn_int(p); };
    auto r = as_int ? (f == f_ind ? hep::vegas(hep::make_integrand<T>(fnd_int, d, hep::make_dist_params<T>(4, T(), T(1), "x")), std::vector<std::size_t>{N}, chk, hep::callback<C>(hep::callback_mode::silent))
                                  : hep::vegas(hep::make_integrand<T>(fn_int, d), std::vector<std::size_t>{N}, chk, hep::callback<C>(hep::callback_mode::silent)))
           : f == f_ind ? hep::vegas(hep::make_integrand<T>(fnd, d, hep::make_dist_params<T>(4, T(), T(1), "x")), std::vector<std::size_t>{N}, chk, hep::callback<C>(hep::callback_mode::silent))
                        : hep::vegas(hep::make_integrand<T>(fn, d), std::vector<std::size_t>{N}, chk, hep::callback<C>(hep::callback_mode::silent));
    T sum = r.results()[0].sum();
    std::vector<long long> flat;
    for (auto const& g : gx) for (int v : g) flat.push_back(v);
    bool ex = is_exact_scaled(sum, 12);
    ev("VLat").s("T", type_name<T>::get()).i("d", (long long) d).i("B", (long long) B).i("G", G).a("gx", flat).i("f", f).i("indb", indb)
        .i("M", (long long) Mper).i("N", (long long) N).i("exact", ex ? 1 : 0).i("sum", ex ? exact_scaled(sum, 12) : mono_scaled(sum, 12))
        .i("value", mono_scaled(r.results()[0].value(), 20)).emit();
}

template <typename T>
static void plain_case(int f, std::size_t d, std::size_t Mper)
{
    std::vector<std::size_t> M(d, Mper);
    std::size_t N = 1;
    for (std::size_t m : M) N *= m;
    auto fn = [&](hep::mc_point<T> const& p) { return f == f_one ? T(1) : (f == f_x0 ? p.point()[0] : (f == f_x1 ? p.point()[d - 1] : (p.point()[0] < T(0.5) ? T(1) : T()))); };
    auto chk = hep::make_plain_chkpt<T, script_engine>(lattice(M, false));
    using C = decltype(chk);
    auto r = hep::plain(hep::make_integrand<T>(fn, d), std::vector<std::size_t>{N}, chk, hep::callback<C>(hep::callback_mode::silent));
    T sum = r.results()[0].sum();
    bool ex = is_exact_scaled(sum, 12);
    // PLAIN is the one-bin grid [0, 1]; the indicator's edge 1/2 is given as gx = {0, 1, 2} / 2 for the specification
    ev("VLat").s("T", type_name<T>::get()).i("d", (long long) d).i("B", 1).i("G", 2).a("gx", std::vector<int>{0, 2}).i("f", f).i("indb", 1)
        .i("M", (long long) Mper).i("N", (long long) N).i("exact", ex ? 1 : 0).i("sum", ex ? exact_scaled(sum, 12) : mono_scaled(sum, 12))
        .i("value", mono_scaled(r.results()[0].value(), 20)).i("plain", 1).emit();
}

// ---- many dimensions: the weight of a point on the default grid is exactly one, however many dimensions and bins
template <typename T>
static void vegas_highdim(std::size_t d, std::size_t bins)
{
    std::vector<std::size_t> M(d, 1);
    M[0] = 2;
    auto fn = [](hep::vegas_point<T> const&) { return T(1); };
    auto chk = hep::make_vegas_chkpt<T, script_engine>(bins, T(1.5), lattice(M, false));
    using C = decltype(chk);
    auto r = hep::vegas(hep::make_integrand<T>(fn, d), std::vector<std::size_t>{2}, chk, hep::callback<C>(hep::callback_mode::silent));
    T sum = r.results()[0].sum();
    bool ex = std::isfinite(sum) && is_exact_scaled(sum, 12);
    // reported as the one-bin case of the specification: any uniform grid is the identity map
    ev("VLat").s("T", type_name<T>::get()).i("d", (long long) d).i("B", 1).i("G", 2).a("gx", std::vector<int>{0, 2}).i("f", f_one).i("indb", 1)
        .i("M", 2).i("N", 2).i("exact", ex ? 1 : 0).i("sum", ex ? exact_scaled(sum, 12) : -1).i("value", ex ? mono_scaled(r.results()[0].value(), 20) : -1)
        .i("bins", (long long) bins).emit();
}

// ---- multi channel: channels are piecewise linear maps given by two-bin grids [0, k/4, 1]
template <typename T>
static T mc_lattice(std::vector<int> const& ks, std::vector<T> const& weights, T minw, int f, T jac, std::size_t Mu, std::size_t Ms, std::vector<T>* used = nullptr,
    T beta = T(0.25), int extra = 0)
{
    // extra = 1: two random numbers per point and one coordinate - the second number enters the integrand as the factor 2 r (mean 1 on its
    // own lattice); extra = 2: one random number and two coordinates y, 1 - y - the integrand is multiplied by their sum
    std::size_t n = ks.size();
    auto bin_of = [](int k, T y) { return y < T(k) / T(4) ? 0 : 1; };
    auto width = [](int k, int b) { return b == 0 ? T(k) / T(4) : T(1) - T(k) / T(4); };
    // a map object with state of its own (as a phase-space generator has): the densities are worked out together with the coordinates, kept
    // in the object and handed out when they are asked for
    struct caching_map
    {
        std::vector<int> ks;
        T jac;
        std::vector<T> kept;
        int extra;
        static T width(int k, int b) { return b == 0 ? T(k) / T(4) : T(1) - T(k) / T(4); }
        T operator()(std::size_t ch, std::vector<T> const& r, std::vector<T>& co, std::vector<std::size_t> const&, std::vector<T>& de, hep::multi_channel_map action)
        {
            if (action == hep::multi_channel_map::calculate_densities)
            {
                for (std::size_t j = 0; j != de.size(); ++j) de[j] = j < kept.size() ? kept[j] : T();
                return jac;
            }
            int k = ks[ch];
            T u = r[0];
            // inverse CDF of the two-bin grid [0, k/4, 1]
            T pos = u * T(2);
            int b = pos < T(1) ? 0 : 1;
            T frac = pos - T(b);
            T left = b == 0 ? T() : T(k) / T(4);
            co[0] = left + frac * width(k, b);
            kept.assign(ks.size(), T());
            for (std::size_t j = 0; j != ks.size(); ++j) kept[j] = jac / (T(2) * width(ks[j], co[0] < T(ks[j]) / T(4) ? 0 : 1)); // common jacobian factor in all densities
            if (extra == 2) co[1] = T(1) - co[0];
            return T(-3); // "The return value is ignored for this function call": the jacobian is what the call for the densities returns
        }
    };
    caching_map map{ks, jac, std::vector<T>(), extra};
    auto fn = [&](hep::multi_channel_point<T> const& p) {
        T y = p.coordinates()[0];
        T v = f == f_one ? T(1) : (f == f_x0 ? y : (y < T(0.25) ? T(1) : T()));
        if (extra == 1) v *= T(2) * p.point()[1];
        if (extra == 2) v *= p.coordinates()[0] + p.coordinates()[1];
        return v;
    };
    // (no weights given: the default, uniform weights of a checkpoint that is only told the number of channels)
    // (the order in which a call draws its numbers is not prescribed: all lattices of a call have the same size)
    std::vector<std::size_t> const lat = extra == 1 ? std::vector<std::size_t>{Mu, Mu, Ms} : std::vector<std::size_t>{Mu, Ms};
    auto chk = weights.empty() ? hep::make_multi_channel_chkpt<T, script_engine>(minw, beta, lattice(lat, true))
                               : hep::make_multi_channel_chkpt<T, script_engine>(weights, minw, beta, lattice(lat, true));
    using C = decltype(chk);
    chk.channels(n);
    if (used) *used = chk.channel_weights();
    auto fnd = [&](hep::multi_channel_point<T> const& p, hep::projector<T>& pr) { pr.add(0, p.coordinates()[0], T(1)); return fn(p); };
    auto r = f == f_ind ? hep::multi_channel(hep::make_multi_channel_integrand<T>(fnd, extra == 1 ? 2 : 1, map, extra == 2 ? 2 : 1, n, hep::make_dist_params<T>(4, T(), T(1), "y")),
                              std::vector<std::size_t>{Mu * Ms * (extra == 1 ? Mu : 1)}, chk, hep::callback<C>(hep::callback_mode::silent))
                        : hep::multi_channel(hep::make_multi_channel_integrand<T>(fn, extra == 1 ? 2 : 1, map, extra == 2 ? 2 : 1, n),
                              std::vector<std::size_t>{Mu * Ms * (extra == 1 ? Mu : 1)}, chk, hep::callback<C>(hep::callback_mode::silent));
    return r.results()[0].value();
}

template <typename T>
static void mc_cases(rng& g, bool thorough)
{
    static double const jacs[3] = {0.5, 1.0, 3.0};
    for (int k1 = 1; k1 <= 3; ++k1)
        for (int k2 = 1; k2 <= 3; ++k2)
            for (int w1 = 0; w1 <= 2; ++w1)
                for (int w2 = 0; w2 <= 2; ++w2)
                {
                    if (w1 + w2 == 0) continue;
                    for (int f = 0; f != 3; ++f)
                    {
                        if (!thorough && g.below(2)) continue;
                        int ff = f == 2 ? f_ind : f;
                        T jac = T(jacs[g.below(3)]);
                        std::size_t Ms = 24; // the same size as the lattice of the point: the order of the two numbers of a call is not prescribed
                        // the exponent of the adaptation does not enter the normalisation of the weights a run starts with
                        static double const betas[4] = {0.25, 0.0, 1.0, 0.5};
                        int bi = (int) g.below(4);
                        T v = mc_lattice<T>(std::vector<int>{k1, k2}, std::vector<T>{T(w1), T(w2)}, T(), ff, jac, 24, Ms, nullptr, T(betas[bi]));
                        ev("McLat").i("beta100", (long long) (betas[bi] * 100)).s("T", type_name<T>::get()).a("ks", std::vector<int>{k1, k2}).a("w", std::vector<int>{w1, w2}).i("f", ff).i("Mu", 24)
                            .i("Ms", (long long) Ms).i("exactWeights", 1).i("recompute", g.below(12) == 0 ? 1 : 0).i("value", std::isfinite(v) ? mono_scaled(v, 20) : -999999999).emit();
                    }
                }
    // three channels, unnormalised weights and a minimum weight that clamps: the weights actually used are whatever the library
    // made of them; they are multiples of 1/11, 1/4, 1/21, so a symmetric lattice of M = lcm(24, denominator) points per number
    // has no selector point on a cumulative boundary and the integral must be right to rounding
    struct fam { double w[3]; double minw; std::size_t M; };
    // (the last two: default weights with a minimum weight below and above 1 / channels - the uniform start is not touched by it)
    static fam const fams[6] = {{{0.9, 0.05, 0.05}, 0.1, 264}, {{2, 1, 1}, 0.0, 24}, {{0.95, 0.05, 0.0}, 0.1, 168}, {{0.05, 0.05, 0.9}, 0.1, 264},
        {{0, 0, 0}, 0.1, 24}, {{0, 0, 0}, 0.4, 24}};
    for (int k = 0; k != (thorough ? 24 : 12); ++k)
    {
        fam const& fm = fams[k % 6];
        std::vector<int> ks{1 + (int) g.below(3), 1 + (int) g.below(3), 1 + (int) g.below(3)};
        std::vector<T> w{T(fm.w[0]), T(fm.w[1]), T(fm.w[2])};
        if (fm.w[0] + fm.w[1] + fm.w[2] == 0) w.clear();
        for (int f = 0; f != 3; ++f)
        {
            int ff = f == 2 ? f_ind : f;
            std::vector<T> used;
            // (every third case: the number of random numbers differs from the number of coordinates, one way or the other)
            // (three lattices per call only for the small lattice size)
            T v = mc_lattice<T>(ks, w, T(fm.minw), ff, k % 2 ? T(1) : T(2), fm.M, fm.M, &used, T(0.25), fm.M == 24 ? 1 : (k % 4 < 2 ? 2 : 0));
            ev("McLat").s("T", type_name<T>::get()).a("ks", ks).a("w", std::vector<int>{0, 0, 0}).i("f", ff).i("Mu", (long long) fm.M).i("Ms", (long long) fm.M)
                .i("exactWeights", 0).i("recompute", 0).i("value", std::isfinite(v) ? mono_scaled(v, 20) : -999999999).emit();
        }
    }
}

// ---- adaptive runs: whatever grid / weights adaptation has produced, a lattice iteration integrates 1 and x exactly (to rounding)
template <typename T>
static void adaptive(rng& g, int run)
{
    std::size_t B = g.below(2) ? 16 : 5;
    T alpha = T(g.range(0, 300)) / T(100);
    T peak = T(g.range(5, 95)) / T(100), wd = T(g.range(5, 100)) / T(1000);
    auto fn = [&](hep::vegas_point<T> const& p) { T dd = (p.point()[0] - peak) / wd; return T(1) / (T(1) + dd * dd) * (T(1) + p.point()[1]); };
    auto chk = hep::make_vegas_chkpt<T>(B, alpha, std::mt19937((unsigned) g.below(100000)));
    using C = decltype(chk);
    for (int it = 0; it != 4; ++it)
    {
        chk = hep::vegas(hep::make_integrand<T>(fn, 2), std::vector<std::size_t>{500}, chk, hep::callback<C>(hep::callback_mode::silent));
        auto pdf = chk.pdf();
        for (int f = 0; f != 3; ++f)
        {
            std::size_t Mper = B * 2;
            auto lf = [&](hep::vegas_point<T> const& p) { return f == 0 ? T(1) : p.point()[(std::size_t) f - 1]; };
            auto lc = hep::make_vegas_chkpt<T, script_engine>(pdf, alpha, lattice(std::vector<std::size_t>{Mper, Mper}, false));
            using LC = decltype(lc);
            auto r = hep::vegas(hep::make_integrand<T>(lf, 2), std::vector<std::size_t>{Mper * Mper}, lc, hep::callback<LC>(hep::callback_mode::silent));
            long double want = f == 0 ? 1.0L : 0.5L;
            long double dev = std::fabs((long double) r.results()[0].value() - want) / (std::numeric_limits<T>::epsilon() * 64);
            ev("Adapt").s("T", type_name<T>::get()).s("kind", "vegas").i("run", run).i("it", it).i("f", f).i("B", (long long) B)
                .i("dev", std::isfinite(dev) ? (long long) std::ceil(dev) : 999999999).emit();
        }
    }
}

// ---- the weight of every single point at the precision of the numeric type: 1 / sum_j alpha_j p_j(x) with weights and densities that are
// not dyadic, against the same expression evaluated with 113 bits; n products, n - 1 additions and one division in T cost at most
// n + 2 roundings
template <typename T>
static void weight_eps(rng& g, int run)
{
    std::size_t n = 2 + g.below(4);
    std::vector<T> w(n);
    for (auto& x : w) x = T(1 + g.below(97)) / T(10);
    std::vector<T> dens(2 * n);
    for (auto& x : dens) x = T(1 + g.below(29)) / T(3 + g.below(7));
    std::vector<T> used;
    long double max_dev = 0.0L;
    long long points = 0;
    auto map = [&](std::size_t, std::vector<T> const& r, std::vector<T>& co, std::vector<std::size_t> const&, std::vector<T>& de, hep::multi_channel_map) {
        co[0] = r[0];
        for (std::size_t j = 0; j != n; ++j) de[j] = dens[2 * j + (r[0] < T(0.5) ? 0 : 1)];
        return T(1);
    };
    auto fn = [&](hep::multi_channel_point<T> const& p) {
        __float128 gq = 0;
        for (std::size_t j = 0; j != n; ++j) gq += (__float128) used[j] * (__float128) dens[2 * j + (p.coordinates()[0] < T(0.5) ? 0 : 1)];
        __float128 ref = (__float128) 1 / gq;
        __float128 diff = (__float128) p.weight() - ref;
        if (diff < 0) diff = -diff;
        long double dev = (long double) (diff / ref) / std::numeric_limits<T>::epsilon();
        if (!(dev <= max_dev)) max_dev = dev;
        ++points;
        return T(1);
    };
    auto chk = hep::make_multi_channel_chkpt<T>(w, T(), T(0.25), std::mt19937((unsigned) g.below(100000)));
    using C = decltype(chk);
    chk.channels(n);
    used = chk.channel_weights();
    hep::multi_channel(hep::make_multi_channel_integrand<T>(fn, 1, map, 1, n), std::vector<std::size_t>{200}, chk, hep::callback<C>(hep::callback_mode::silent));
    ev("McWeightEps").s("T", type_name<T>::get()).i("run", run).i("n", (long long) n).i("points", points)
        .i("maxDev", std::isfinite(max_dev) ? (long long) std::ceil(max_dev) : 999999999).emit();
}

// ---- adaptive multi channel runs: after 1..3 adaptive iterations driven by pseudo-random numbers the run is resumed for one lattice
// iteration with whatever weights the adaptation (exponent beta, minimum weight, channels without any contribution) has produced.
// Channels: two-bin grids [0, k/4, 1] (k = 1..3) and, for k = 0, the map onto [0, 1/2) with density 2 there and 0 elsewhere.
// During the adaptive iterations the integrand lives on [1/2, 1): the k = 0 channel is enabled but never contributes.
template <typename T>
static void adaptive_mc(rng& g, int run)
{
    std::size_t n = 3 + g.below(2);
    std::vector<int> ks(n);
    for (auto& k : ks) k = 1 + (int) g.below(3);
    std::size_t half = g.below(n);
    ks[half] = 0;
    static double const betas[4] = {0.0, 0.25, 0.5, 1.0};
    static double const minws[3] = {0.0, 0.05, 0.1};
    T beta = T(betas[g.below(4)]);
    T minw = T(minws[g.below(3)]);
    std::vector<T> w(n);
    for (auto& x : w) x = T(g.below(4));
    w[half] = T(1 + g.below(3));
    w[(half + 1) % n] = T(1 + g.below(3)); // a channel with full support is enabled
    std::size_t pre = 1 + g.below(3), Npre = 200 + g.below(300);
    std::size_t const M = 2064; // lattice per number (the two numbers of a call in either order)
    auto p_of = [&](std::size_t j, long double y) -> long double {
        if (ks[j] == 0) return y < 0.5L ? 2.0L : 0.0L;
        long double e = ks[j] / 4.0L;
        return y < e ? 1.0L / (2.0L * e) : 1.0L / (2.0L * (1.0L - e));
    };
    auto map = [&](std::size_t ch, std::vector<T> const& r, std::vector<T>& co, std::vector<std::size_t> const&, std::vector<T>& de, hep::multi_channel_map) {
        int k = ks[ch];
        T u = r[0];
        if (k == 0) co[0] = u / T(2);
        else
        {
            T pos = u * T(2);
            int b = pos < T(1) ? 0 : 1;
            T frac = pos - T(b);
            T left = b == 0 ? T() : T(k) / T(4);
            co[0] = left + frac * (b == 0 ? T(k) / T(4) : T(1) - T(k) / T(4));
        }
        for (std::size_t j = 0; j != n; ++j) de[j] = T(p_of(j, co[0]));
        return T(1);
    };
    for (int f = 0; f != 2; ++f)
    {
        // script: pseudo-random numbers for the adaptive iterations, then the lattice
        std::vector<std::uint64_t> sc;
        rng h(g.next());
        for (std::size_t i = 0; i != pre * Npre * 2; ++i) sc.push_back(h.next());
        std::size_t const pre_calls = pre * Npre;
        for (std::size_t k = 0; k != M * M; ++k)
        {
            std::size_t a = k % M, b = k / M;
            sc.push_back((std::uint64_t) std::floor(std::ldexp((2.0L * a + 1.0L) / (2.0L * M), 64)));
            sc.push_back((std::uint64_t) std::floor(std::ldexp((2.0L * b + 1.0L) / (2.0L * M), 64)));
        }
        std::size_t calls_seen = 0;
        auto fn = [&](hep::multi_channel_point<T> const& p) {
            T y = p.coordinates()[0];
            if (calls_seen++ < pre_calls) return y >= T(0.5) ? T(1) + y : T();
            return f == 0 ? T(1) : y;
        };
        auto chk = hep::make_multi_channel_chkpt<T, script_engine>(w, minw, beta, script_engine(script_registry::add(sc)));
        using C = decltype(chk);
        chk.channels(n);
        auto integrand = hep::make_multi_channel_integrand<T>(fn, 1, map, 1, n);
        chk = hep::multi_channel(integrand, std::vector<std::size_t>(pre, Npre), chk, hep::callback<C>(hep::callback_mode::silent));
        std::vector<T> used = chk.channel_weights(); // what the lattice iteration will be sampled with
        chk = hep::multi_channel(integrand, std::vector<std::size_t>{M * M}, chk, hep::callback<C>(hep::callback_mode::silent));
        T v = chk.results().back().value();
        // the selector lattice hits channel i with a frequency that differs from alpha_i (normalised) by less than 1 / M; channel i contributes
        // I_i = int f p_i / g <= sup (p_i / g) int f, so the lattice value is within sum_i sup(p_i / g) / M of the integral (plus rounding)
        long double wsum = 0.0L, bound = 0.0L;
        for (T x : used) wsum += x;
        bool usable = std::isfinite((double) wsum) && wsum > 0.0L;
        for (std::size_t i = 0; usable && i != n; ++i)
        {
            if (used[i] == T()) continue;
            long double sup = 0.0L;
            for (int q = 0; q != 4; ++q)
            {
                long double y = (2 * q + 1) / 8.0L, gy = 0.0L;
                for (std::size_t j = 0; j != n; ++j) gy += (long double) used[j] / wsum * p_of(j, y);
                if (p_of(i, y) > 0.0L) sup = std::fmax(sup, p_of(i, y) / gy);
            }
            bound += sup / M;
        }
        long long tol = usable ? (long long) std::ceil(bound * 1048576.0L) + 16 : -1;
        std::vector<long long> wq;
        for (T x : used) wq.push_back(mono_scaled(x, 20));
        ev("McAdapt").s("T", type_name<T>::get()).i("run", run).i("pre", (long long) pre).a("ks", ks).i("beta100", (long long) ((double) beta * 100))
            .i("minw1000", (long long) ((double) minw * 1000)).i("f", f == 0 ? f_one : f_x0).a("used", wq).i("M", (long long) M).i("tol", tol)
            .i("value", std::isfinite(v) ? mono_scaled(v, 20) : -999999999).emit();
    }
}

int main(int argc, char** argv)
{
    if (argc < 4) return 2;
    out().open(argv[1]);
    install_abort_handler();
    rng g(std::strtoull(argv[2], nullptr, 10));
    bool thorough = std::atoi(argv[3]) != 0;
    // VEGAS, one dimension: all grids over k/8 with 2 and 4 bins
    for (int a = 0; a <= 8; ++a)
    {
        for (int f = 0; f != 4; ++f) { if (f == f_x1) continue; vegas_case<double>({{0, a, 8}}, 8, f, 1, 16); if (thorough || a % 3 == 0) vegas_case<float>({{0, a, 8}}, 8, f, 1, 8); }
        for (int b = a; b <= 8; ++b)
            for (int c = b; c <= 8; ++c)
            {
                if (!thorough && g.below(3)) continue;
                int f = (int) g.below(4);
                if (f == f_x1) f = f_x0;
                vegas_case<double>({{0, a, b, c, 8}}, 8, f, 1 + (int) g.below(3), 16);
                vegas_case<long double>({{0, a, b, c, 8}}, 8, f, 1 + (int) g.below(3), 32);
                if (thorough) vegas_case<float>({{0, a, b, c, 8}}, 8, f, 2, 16);
            }
    }
    // two dimensions
    for (int k = 0; k != (thorough ? 200 : 40); ++k)
    {
        int a = (int) g.below(9), b = (int) g.below(9), c = (int) g.below(9), e = (int) g.below(9);
        if (a > b) std::swap(a, b);
        if (c > e) std::swap(c, e);
        vegas_case<double>({{0, a, b, 8, 8}, {0, c, e, e, 8}}, 8, (int) g.below(4), 1, 8);
        vegas_case<float>({{0, a, 8}, {0, c, 8}}, 8, (int) g.below(4), 1, 4);
    }
    vegas_highdim<float>(20, 128); vegas_highdim<float>(30, 64); vegas_highdim<double>(110, 1024); vegas_highdim<double>(40, 128);
    vegas_highdim<long double>(200, 512); vegas_highdim<float>(8, 4096);
    for (int f = 0; f != 4; ++f) { plain_case<double>(f, 1 + (std::size_t) (f % 2), 8); plain_case<float>(f, 2, 4); plain_case<long double>(f, 3, 4); }
    mc_cases<double>(g, thorough);
    mc_cases<float>(g, thorough);
    if (thorough) mc_cases<long double>(g, true);
    for (int r = 0; r != (thorough ? 30 : 6); ++r) { if (r % 3 == 0) adaptive<float>(g, r); else if (r % 3 == 1) adaptive<double>(g, r); else adaptive<long double>(g, r); }
    for (int r = 0; r != (thorough ? 30 : 6); ++r) { if (r % 3 == 0) adaptive_mc<double>(g, r); else if (r % 3 == 1) adaptive_mc<float>(g, r); else adaptive_mc<long double>(g, r); }
    for (int r = 0; r != (thorough ? 90 : 30); ++r) { if (r % 3 == 0) weight_eps<double>(g, r); else if (r % 3 == 1) weight_eps<float>(g, r); else weight_eps<long double>(g, r); }
    out().close();
    return 0;
}
