// Random engines for the conformance drivers (DESIGN.md 3.1). All satisfy
// UniformRandomBitGenerator + discard, ==, <<, >> so that they can live inside checkpoints.
#ifndef VT_ENGINES_HPP
#define VT_ENGINES_HPP

#include <cstddef>
#include <cstdint>
#include <istream>
#include <map>
#include <memory>
#include <ostream>
#include <random>
#include <vector>

namespace vt
{

// thread-local counters maintained by the engines below (per simulated MPI rank)
struct counters
{
    unsigned long long draws = 0;      // raw engine outputs produced by operator()
    unsigned long long discarded = 0;  // raw outputs skipped by discard()
};
inline counters& cnt() { static thread_local counters c; return c; }

// ---- script_engine: 64-bit range => exactly one raw draw per canonical number for float, double
// and long double.  Plays script[pos % size]; the canonical number is exactly value / 2^64.
struct script_registry
{
    static std::map<int, std::shared_ptr<std::vector<std::uint64_t>>>& map()
    {
        static std::map<int, std::shared_ptr<std::vector<std::uint64_t>>> m;
        return m;
    }
    static int add(std::vector<std::uint64_t> const& v)
    {
        int id = (int) map().size() + 1;
        map()[id] = std::make_shared<std::vector<std::uint64_t>>(v);
        return id;
    }
};

// value j / 2^s as 64-bit engine output
inline std::uint64_t dyadic(std::uint64_t j, int s) { return s == 64 ? j : (j << (64 - s)); }

class script_engine
{
public:
    using result_type = std::uint64_t;
    static constexpr result_type min() { return 0; }
    static constexpr result_type max() { return ~std::uint64_t(0); }
    script_engine() : id_(0), pos_(0) {}
    explicit script_engine(int id, std::uint64_t pos = 0) : id_(id), pos_(pos) {}
    result_type operator()()
    {
        ++cnt().draws;
        auto const& v = *script_registry::map().at(id_);
        result_type r = v[pos_ % v.size()];
        ++pos_;
        return r;
    }
    void discard(unsigned long long n) { pos_ += n; cnt().discarded += n; }
    std::uint64_t pos() const { return pos_; }
    int id() const { return id_; }
    friend bool operator==(script_engine const& a, script_engine const& b)
    {
        return a.id_ == b.id_ && a.pos_ == b.pos_;
    }
    friend bool operator!=(script_engine const& a, script_engine const& b) { return !(a == b); }
    friend std::ostream& operator<<(std::ostream& o, script_engine const& e)
    {
        return o << e.id_ << ' ' << e.pos_;
    }
    friend std::istream& operator>>(std::istream& i, script_engine& e) { return i >> e.id_ >> e.pos_; }
private:
    int id_;
    std::uint64_t pos_;
};

// ---- counter_engine<BITS>: the n-th output reveals n.
//  BITS = 64: one draw per canonical number; canonical = (base + n mod 2^22) / 2^24 ... exactly
//             representable in float, never 0 or 1 (so that it survives every grid map exactly).
//  BITS = 32: two draws per canonical number for double / long double, one for float.
template <int BITS>
class counter_engine
{
public:
    using result_type = typename std::conditional<BITS == 64, std::uint64_t, std::uint32_t>::type;
    static constexpr result_type min() { return 0; }
    static constexpr result_type max() { return ~result_type(0); }
    counter_engine() : pos_(0) {}
    explicit counter_engine(std::uint64_t pos) : pos_(pos) {}
    result_type operator()()
    {
        ++cnt().draws;
        std::uint64_t n = pos_++;
        if (BITS == 64)
        {
            // canonical number = (n mod 2^23) / 2^23 exactly (23 bits: exact in float)
            return (result_type) ((n & ((1ULL << 23) - 1)) << 41);
        }
        // 32-bit: value n mod 2^20; two consecutive draws give lo + hi * 2^32
        return (result_type) (n & ((1ULL << 20) - 1));
    }
    void discard(unsigned long long n) { pos_ += n; cnt().discarded += n; }
    std::uint64_t pos() const { return pos_; }
    friend bool operator==(counter_engine const& a, counter_engine const& b) { return a.pos_ == b.pos_; }
    friend bool operator!=(counter_engine const& a, counter_engine const& b) { return !(a == b); }
    friend std::ostream& operator<<(std::ostream& o, counter_engine const& e) { return o << e.pos_; }
    friend std::istream& operator>>(std::istream& i, counter_engine& e) { return i >> e.pos_; }
private:
    std::uint64_t pos_;
};

// position (mod 2^23) of the draw that produced canonical number u with counter_engine<64>
template <typename T> inline long long counter64_pos(T u) { return (long long) std::ldexp((long double) u, 23); }

// ---- counting<E>: wraps any engine, counts raw draws and discards in the thread-local counters
template <typename E>
class counting
{
public:
    using result_type = typename E::result_type;
    static constexpr result_type min() { return E::min(); }
    static constexpr result_type max() { return E::max(); }
    counting() : e_() {}
    explicit counting(E const& e) : e_(e) {}
    result_type operator()() { ++cnt().draws; return e_(); }
    void discard(unsigned long long n) { cnt().discarded += n; e_.discard(n); }
    E const& base() const { return e_; }
    friend bool operator==(counting const& a, counting const& b) { return a.e_ == b.e_; }
    friend bool operator!=(counting const& a, counting const& b) { return !(a == b); }
    friend std::ostream& operator<<(std::ostream& o, counting const& c) { return o << c.e_; }
    friend std::istream& operator>>(std::istream& i, counting& c) { return i >> c.e_; }
private:
    E e_;
};

// ---- range_engine<LO, HI>: synthetic engine with an arbitrary (odd) range, LCG underneath
template <unsigned long long LO, unsigned long long HI>
class range_engine
{
public:
    using result_type = unsigned long long;
    static constexpr result_type min() { return LO; }
    static constexpr result_type max() { return HI; }
    range_engine() : s_(88172645463325252ULL) {}
    explicit range_engine(unsigned long long s) : s_(s | 1) {}
    result_type operator()()
    {
        s_ ^= s_ << 13; s_ ^= s_ >> 7; s_ ^= s_ << 17;
        return LO + s_ % (HI - LO + 1);
    }
    void discard(unsigned long long n) { for (; n; --n) (*this)(); }
    friend bool operator==(range_engine const& a, range_engine const& b) { return a.s_ == b.s_; }
    friend bool operator!=(range_engine const& a, range_engine const& b) { return !(a == b); }
    friend std::ostream& operator<<(std::ostream& o, range_engine const& e) { return o << e.s_; }
    friend std::istream& operator>>(std::istream& i, range_engine& e) { return i >> e.s_; }
private:
    unsigned long long s_;
};

} // namespace vt

#endif
