// C18 program under test: runs an integrator with the built-in callback writing checkpoints to a file.
//   drv_c18 <kind: plain|vegas|mc> <file> <niter> <refdir|->
// If <file> exists, the run resumes from it and performs the remaining iterations.  With a <refdir> the
// text of the checkpoint after every iteration is stored there as ref_<k>.txt (reference run, no faults).
// A marker "/vt-marker/ckpt/<k>/<size>" is 'opened' before the built-in callback is invoked with the
// checkpoint of k results, so that the system-call log shows which checkpoint the calls belong to.
// With -DVT_SHIM the kind "mpi" runs mpi_plain on three ranks (threads of the MPI shim) with the built-in mpi_callback.
#ifdef VT_SHIM
#include "mpi.h" // the shim
#include "hep/mc-mpi.hpp"
#else
#include "hep/mc.hpp"
#endif

#include <cmath>
#include <cstdio>
#include <cstdlib>
#include <fcntl.h>
#include <fstream>
#include <iostream>
#include <random>
#include <sstream>
#include <string>
#include <unistd.h>

typedef double T;

template <typename C> static std::string text_of(C const& c)
{
    std::ostringstream o;
    c.serialize(o);
    return o.str();
}

static std::string refdir;

template <typename C> struct marking_cb
{
    hep::callback<C> inner;
    bool operator()(C const& c)
    {
        std::string t = text_of(c);
        std::string m = "/vt-marker/ckpt/" + std::to_string(c.results().size()) + "/" + std::to_string(t.size());
        int fd = open(m.c_str(), O_RDONLY); // never succeeds; logged by the interposer
        (void) fd;
        if (refdir != "-")
        {
            std::ofstream o((refdir + "/ref_" + std::to_string(c.results().size()) + ".txt").c_str());
            o << t;
        }
        return inner(c);
    }
};

#ifdef VT_SHIM
template <typename C> struct marking_mpi_cb
{
    hep::mpi_callback<C> inner;
    bool operator()(MPI_Comm comm, C const& c)
    {
        std::string t = text_of(c);
        std::string m = "/vt-marker/ckpt/" + std::to_string(c.results().size()) + "/" + std::to_string(t.size());
        int fd = open(m.c_str(), O_RDONLY); // never succeeds; logged by the interposer (every rank announces the same)
        (void) fd;
        if (refdir != "-" && vt_this_rank() == 0)
        {
            std::ofstream o((refdir + "/ref_" + std::to_string(c.results().size()) + ".txt").c_str());
            o << t;
        }
        return inner(comm, c);
    }
};
#endif

template <typename C> static bool file_exists(std::string const& f) { std::ifstream in(f.c_str()); return (bool) in; }

int main(int argc, char** argv)
{
    if (argc < 5) return 2;
    std::string kind = argv[1], file = argv[2];
    std::size_t niter = (std::size_t) std::atol(argv[3]);
    refdir = argv[4];
    std::ifstream in(file.c_str());
    std::string final_text;
    if (kind == "plain")
    {
        // small checkpoint (below the stream buffer size): one-word engine
        typedef std::minstd_rand E;
        auto f = [](hep::mc_point<T> const& p) { return p.point()[0] * p.point()[1]; };
        auto c = in ? hep::make_plain_chkpt<T, E>(in) : hep::make_plain_chkpt<T, E>(E(5));
        typedef decltype(c) C;
        std::size_t done = c.results().size();
        std::vector<std::size_t> calls(niter > done ? niter - done : 0, 100);
        c = hep::plain(hep::make_integrand<T>(f, 2), calls, c, marking_cb<C>{hep::callback<C>(hep::callback_mode::silent_and_write_chkpt, file)});
        final_text = text_of(c);
    }
#ifdef VT_SHIM
    else if (kind == "mpi")
    {
        typedef std::minstd_rand E;
        // small integer values: the sums are exact, whatever order the ranks' contributions are reduced in
        auto f = [](hep::mc_point<T> const& p) { return std::floor(p.point()[0] * T(4)) * std::floor(p.point()[1] * T(4)); };
        auto c = in ? hep::make_plain_chkpt<T, E>(in) : hep::make_plain_chkpt<T, E>(E(5));
        typedef decltype(c) C;
        std::size_t done = c.results().size();
        std::vector<std::size_t> calls(niter > done ? niter - done : 0, 100);
        std::vector<std::string> texts(3);
        vt_mpi_run(3, 11, [&](MPI_Comm comm, int rank) {
            C r = hep::mpi_plain(comm, hep::make_integrand<T>(f, 2), calls, c,
                marking_mpi_cb<C>{hep::mpi_callback<C>(hep::callback_mode::silent_and_write_chkpt, file)});
            texts[(std::size_t) rank] = text_of(r);
        }, false);
        final_text = texts[0];
    }
#endif
    else if (kind == "vegas")
    {
        // large checkpoint (far above the stream buffer size): 128 bins x 3 dimensions, mt19937
        typedef std::mt19937 E;
        auto f = [](hep::vegas_point<T> const& p) { T d = p.point()[0] - T(0.4); return std::exp(-20 * d * d) * (1 + p.point()[1] + p.point()[2]); };
        auto c = in ? hep::make_vegas_chkpt<T, E>(in) : hep::make_vegas_chkpt<T, E>(128, T(1.5), E(7));
        typedef decltype(c) C;
        std::size_t done = c.results().size();
        std::vector<std::size_t> calls(niter > done ? niter - done : 0, 200);
        c = hep::vegas(hep::make_integrand<T>(f, 3), calls, c, marking_cb<C>{hep::callback<C>(hep::callback_mode::silent_and_write_chkpt, file)});
        final_text = text_of(c);
    }
    else
    {
        typedef std::ranlux48 E;
        auto map = [](std::size_t ch, std::vector<T> const& r, std::vector<T>& co, std::vector<std::size_t> const&, std::vector<T>& de,
            hep::multi_channel_map) {
            T u = r[0];
            co[0] = ch == 0 ? u : u * u;
            de[0] = T(1);
            de[1] = co[0] > T() ? T(0.5) / std::sqrt(co[0]) : T(1e6);
            return T(1);
        };
        auto f = [](hep::multi_channel_point<T> const& p, hep::projector<T>& pr) {
            T y = p.coordinates()[0];
            pr.add(0, y, y);
            return T(3) * y * y;
        };
        auto c = in ? hep::make_multi_channel_chkpt<T, E>(in) : hep::make_multi_channel_chkpt<T, E>(T(0.01), T(0.25), E(3));
        typedef decltype(c) C;
        std::size_t done = c.results().size();
        std::vector<std::size_t> calls(niter > done ? niter - done : 0, 150);
        c = hep::multi_channel(hep::make_multi_channel_integrand<T>(f, 1, map, 1, 2, hep::make_dist_params<T>(40, T(), T(1), "y dist")), calls, c,
            marking_cb<C>{hep::callback<C>(hep::callback_mode::silent_and_write_chkpt, file)});
        final_text = text_of(c);
    }
    std::ofstream o((file + ".final").c_str());
    o << final_text;
    return 0;
}
