// C06 driver: non-finite evaluations are counted but never contaminate results or adaptation.
// Two lanes per run: P (poisoned) and Z (the same run with the poisoned evaluations returning zero).
//   drv_c06 <out.ndjson> <seed> <thorough>
#include "hep/mc.hpp"
#include "vt_engines.hpp"
#include "vt_trace.hpp"

#include <cmath>
#include <cstdlib>
#include <limits>
#include <random>
#include <vector>

using namespace vt;

// d_nan: the map reports a NaN density for one channel (the weight is NaN; the other channel's density stays finite)
// d_nan_dis: the NaN density belongs to a *disabled* channel (weight 0): 0 x NaN is still NaN, the point has no usable weight
// proj_big: the value handed to the distributions is finite (max / 1.5), its product with a point weight of two or more is not
// f_wide: the integrand computes in (and returns) long double; its value is finite there and beyond the range of T
enum poison { none = 0, f_nan, f_pinf, f_ninf, proj_nan, proj_inf, w_inf, d_nan, d_nan_dis, proj_big, f_wide };

struct plan
{
    std::vector<int> kind; // per call (cyclic)
    bool lane_z = false;
    std::size_t call = 0;
    long poisoned = 0;     // calls of this iteration whose value*weight is non-finite although the value is not zero
    int at() const { return kind[call % kind.size()]; }
    int cur = 0;           // kind of the call whose integrand was entered last (the lazy density call comes after ++call)
};

template <typename T> static T base_f(T x) { return std::exp(-T(40) * (x - T(0.3)) * (x - T(0.3))) + T(0.01); }

template <typename T> static T poisoned_value(plan& p, T clean, bool can_winf)
{
    int k = p.at();
    T inf = std::numeric_limits<T>::infinity();
    T r = clean;
    if (k == f_nan || k == f_pinf || k == f_ninf)
    {
        if (p.lane_z) r = T();
        else { r = k == f_nan ? std::numeric_limits<T>::quiet_NaN() : (k == f_pinf ? inf : -inf); ++p.poisoned; }
    }
    else if (k == f_wide)
    {
        if (p.lane_z) r = T();
        else ++p.poisoned;   // (the caller returns the wide value instead, see `widened`)
    }
    else if ((k == w_inf || k == d_nan || k == d_nan_dis) && can_winf)
    {
        if (p.lane_z) r = T();
        else ++p.poisoned; // finite non-zero value times an infinite weight
    }
    return r;
}

// what an integrand that computes in long double returns (to be called before ++p.call)
template <typename T> static long double widened(plan& p, T v)
{
    if (p.at() == f_wide && !p.lane_z) return (long double) std::numeric_limits<T>::max() * 4.0L;
    return (long double) v;
}

template <typename T> static void fill(plan& p, hep::projector<T>& pr, T x, T clean, T weight = T(1))
{
    int k = p.at();
    T v = clean;
    if (k == proj_big)
    {
        if (!(weight >= T(2))) k = none;   // (the product stays finite: an ordinary fill)
        else { if (p.lane_z) return; v = std::numeric_limits<T>::max() / T(1.5); }
    }
    if (k == proj_nan) v = std::numeric_limits<T>::quiet_NaN();
    if (k == proj_inf) v = -std::numeric_limits<T>::infinity();
    // lane Z: the poisoned value is not handed over at all.  (Handing over an exact zero instead is not the same thing bit for bit: adding
    // zero to a compensated sum folds a pending compensation of half an ulp into it one step earlier - seen once, VERIF_SEED=4 - although
    // nothing is contributed either way.)
    if (p.lane_z && (k == proj_nan || k == proj_inf)) return;
    pr.add(0, x, v);
    pr.add(1, x, T(1) - x, v);
}

template <typename T> struct lane_rec
{
    long calls, nz, fin, sumId, sumsqId, binsId, adjId, nextId, finite, poisoned;
};

template <typename T, typename R> static void common(lane_rec<T>& r, R const& res)
{
    r.calls = (long) res.calls(); r.nz = (long) res.non_zero_calls(); r.fin = (long) res.finite_calls();
    r.sumId = ids().id(hexfloat(res.sum())); r.sumsqId = ids().id(hexfloat(res.sum_of_squares()));
    std::string b;
    bool finite = std::isfinite(res.sum()) && std::isfinite(res.sum_of_squares()) && std::isfinite(res.value());
    if (res.calls() >= 2) finite = finite && std::isfinite(res.variance());
    for (auto const& d : res.distributions())
        for (auto const& bin : d.results())
        {
            b += hexfloat(bin.sum()) + " " + hexfloat(bin.sum_of_squares()) + ";";
            finite = finite && std::isfinite(bin.sum()) && std::isfinite(bin.sum_of_squares());
        }
    r.binsId = ids().id(b);
    r.finite = finite ? 1 : 0;
}

template <typename T> static std::vector<lane_rec<T>> run_lane(int kind, plan p, unsigned seed, std::vector<std::size_t> const& iters, bool dists)
{
    std::vector<lane_rec<T>> out;
    std::mt19937 eng(seed);
    auto d1 = hep::make_dist_params<T>(4, T(), T(1), "x");
    hep::distribution_parameters<T> d2(2, 2, T(), T(1), T(), T(1), "xy");
    if (kind == 0)
    {
        auto fn = [&](hep::mc_point<T> const& pt, hep::projector<T>& pr) {
            T x = pt.point()[0];
            T c = base_f(x);
            T v = poisoned_value(p, c, false);
            fill(p, pr, x, c);
            long double const wide = widened(p, v);
            ++p.call;
            return wide;
        };
        auto chk = hep::make_plain_chkpt<T>(eng);
        using C = decltype(chk);
        for (std::size_t N : iters)
        {
            p.poisoned = 0;
            chk = hep::plain(hep::make_integrand<T>(fn, 1, d1, d2), std::vector<std::size_t>{N}, chk, hep::callback<C>(hep::callback_mode::silent));
            lane_rec<T> r;
            common(r, chk.results().back());
            r.adjId = 0; r.nextId = 0; r.poisoned = p.poisoned;
            out.push_back(r);
        }
    }
    else if (kind == 1)
    {
        auto fn = [&](hep::vegas_point<T> const& pt, hep::projector<T>& pr) {
            T x = pt.point()[0];
            T c = base_f(x) * (T(1) + pt.point()[1]);
            T v = poisoned_value(p, c, false);
            fill(p, pr, x, c, pt.weight());
            ++p.call;
            return v;
        };
        auto fn0 = [&](hep::vegas_point<T> const& pt) {
            T c = base_f(pt.point()[0]) * (T(1) + pt.point()[1]);
            T v = poisoned_value(p, c, false);
            long double const wide = widened(p, v);
            ++p.call;
            return wide;
        };
        auto chk = hep::make_vegas_chkpt<T>(8, T(1.5), eng);
        using C = decltype(chk);
        for (std::size_t N : iters)
        {
            p.poisoned = 0;
            if (dists) chk = hep::vegas(hep::make_integrand<T>(fn, 2, d1, d2), std::vector<std::size_t>{N}, chk, hep::callback<C>(hep::callback_mode::silent));
            else chk = hep::vegas(hep::make_integrand<T>(fn0, 2), std::vector<std::size_t>{N}, chk, hep::callback<C>(hep::callback_mode::silent));
            lane_rec<T> r;
            common(r, chk.results().back());
            auto const& ad = chk.results().back().adjustment_data();
            r.adjId = ids().id(hexvec(ad));
            for (T x : ad) r.finite = r.finite && std::isfinite(x);
            auto np = chk.pdf();
            std::string s;
            for (std::size_t dd = 0; dd != 2; ++dd) for (std::size_t b = 0; b <= np.bins(); ++b) { s += hexfloat(np.bin_left(dd, b)) + " "; r.finite = r.finite && std::isfinite(np.bin_left(dd, b)); }
            r.nextId = ids().id(s);
            r.poisoned = p.poisoned;
            out.push_back(r);
        }
    }
    else
    {
        // channel 0: x = u, channel 1: x = u^2; at w_inf calls the map reports zero densities => infinite weight
        auto map = [&](std::size_t ch, std::vector<T> const& rn, std::vector<T>& co, std::vector<std::size_t> const&, std::vector<T>& de,
            hep::multi_channel_map action) {
            T u = rn[0];
            co[0] = ch == 0 ? u : u * u;
            if (action == hep::multi_channel_map::calculate_densities)
            {
                T x = co[0];
                bool zero = p.cur == w_inf;
                de[0] = zero ? T() : T(1);
                de[1] = zero ? T() : (x > T() ? T(0.5) / std::sqrt(x) : T(1e6));
                if (p.cur == d_nan) de[1] = std::numeric_limits<T>::quiet_NaN();
                de[2] = p.cur == d_nan_dis ? std::numeric_limits<T>::quiet_NaN() : T(3);
            }
            return T(1);
        };
        auto fn = [&](hep::multi_channel_point<T> const& pt, hep::projector<T>& pr) {
            p.cur = p.at();
            T x = pt.coordinates()[0];
            T c = base_f(x);
            T v = poisoned_value(p, c, true);
            fill(p, pr, x, c);
            ++p.call;
            return v;
        };
        auto fn0 = [&](hep::multi_channel_point<T> const& pt) {
            p.cur = p.at();
            T c = base_f(pt.coordinates()[0]);
            T v = poisoned_value(p, c, true);
            ++p.call;
            return v;
        };
        auto chk = hep::make_multi_channel_chkpt<T>(std::vector<T>{T(1), T(1), T(0)}, T(0.05), T(0.5), eng); // the third channel is disabled
        using C = decltype(chk);
        for (std::size_t N : iters)
        {
            p.poisoned = 0;
            if (dists) chk = hep::multi_channel(hep::make_multi_channel_integrand<T>(fn, 1, map, 1, 3, d1, d2), std::vector<std::size_t>{N}, chk,
                hep::callback<C>(hep::callback_mode::silent));
            else chk = hep::multi_channel(hep::make_multi_channel_integrand<T>(fn0, 1, map, 1, 3), std::vector<std::size_t>{N}, chk,
                hep::callback<C>(hep::callback_mode::silent));
            lane_rec<T> r;
            common(r, chk.results().back());
            auto const& ad = chk.results().back().adjustment_data();
            r.adjId = ids().id(hexvec(ad));
            for (T x : ad) r.finite = r.finite && std::isfinite(x);
            auto nw = chk.channel_weights();
            for (T x : nw) r.finite = r.finite && std::isfinite(x);
            r.nextId = ids().id(hexvec(nw));
            r.poisoned = p.poisoned;
            out.push_back(r);
        }
    }
    return out;
}

template <typename T> static void run_pair(int run, int kind, rng& g, bool dists)
{
    plan p;
    std::size_t len = 30 + g.below(40);
    int density = (int) g.range(2, 12);
    for (std::size_t i = 0; i != len; ++i)
    {
        int k = none;
        if (g.below((unsigned) density) == 0) k = 1 + (int) g.below(10);
        if (k == f_wide && !(kind == 0 || (kind == 1 && !dists))) k = f_pinf;
        if (k == proj_big && (!dists || kind != 1)) k = f_pinf;
        if (k == w_inf && kind != 2) k = f_ninf;
        if ((k == d_nan || k == d_nan_dis) && kind != 2) k = f_nan;
        if ((k == proj_nan || k == proj_inf) && !dists) k = f_pinf;
        p.kind.push_back(k);
    }
    // VEGAS with distributions: every fifth call hands max / 1.5 to the distributions wherever the point weight is at least two (an ordinary fill
    // elsewhere) - often enough for every seed to meet such a point in every run; the integrands that return a wider type likewise
    if (kind == 1 && dists) for (std::size_t i = 3; i < len; i += 5) if (p.kind[i] == none) p.kind[i] = proj_big;
    if (kind == 0 || (kind == 1 && !dists)) for (std::size_t i = 4; i < len; i += 9) if (p.kind[i] == none) p.kind[i] = f_wide;
    if (run % 5 == 0) for (auto& k : p.kind) if (k == none && g.below(2)) k = f_nan; // heavy poisoning
    if (run % 7 == 0) for (auto& k : p.kind) k = f_ninf;                               // everything non-finite
    std::vector<std::size_t> iters{50, 50, 50, 50};
    unsigned seed = (unsigned) g.below(1000000);
    plan pz = p;
    pz.lane_z = true;
    auto P = run_lane<T>(kind, p, seed, iters, dists || kind == 0);
    auto Z = run_lane<T>(kind, pz, seed, iters, dists || kind == 0);
    for (std::size_t k = 0; k != P.size(); ++k)
        for (int lane = 0; lane != 2; ++lane)
        {
            auto const& r = lane == 0 ? P[k] : Z[k];
            ev("Lane").s("lane", lane == 0 ? "P" : "Z").i("run", run).i("kind", kind).s("T", type_name<T>::get()).i("k", (long long) k).i("calls", r.calls)
                .i("nz", r.nz).i("fin", r.fin).i("sumId", r.sumId).i("sumsqId", r.sumsqId).i("binsId", r.binsId).i("adjId", r.adjId)
                .i("nextId", r.nextId).i("finite", r.finite).i("poisoned", r.poisoned).i("dists", dists ? 1 : 0).emit();
        }
}

int main(int argc, char** argv)
{
    if (argc < 4) return 2;
    out().open(argv[1]);
    install_abort_handler();
    rng g(std::strtoull(argv[2], nullptr, 10));
    bool thorough = std::atoi(argv[3]) != 0;
    int runs = thorough ? 180 : 36;
    for (int r = 0; r != runs; ++r)
    {
        int kind = r % 3, t = (r / 3) % 3;
        bool dists = (r / 9) % 2 == 0;
        if (t == 0) run_pair<float>(r, kind, g, dists); else if (t == 1) run_pair<double>(r, kind, g, dists); else run_pair<long double>(r, kind, g, dists);
    }
    out().close();
    return 0;
}
