// Instrumented integrands / channel maps and the per-iteration runner shared by the drivers of
// C02, C06, C10, C17.  Every event corresponds to one action of spec/Call.tla.
#ifndef VT_CALL_HPP
#define VT_CALL_HPP

#include "hep/mc.hpp"
#include "vt_engines.hpp"
#include "vt_trace.hpp"

#include <cmath>
#include <functional>
#include <limits>
#include <sstream>
#include <string>
#include <vector>

namespace vt
{

static int const WS = 4; // weights are logged as exact integers times 2^4

// what the integrand returns at call i
struct value_spec
{
    int f = 1;               // finite integer value
    char const* tag = "fin"; // or "nan" "+inf" "-inf"
    bool wreq = true;        // ask the point for its weight
    bool dz = false;         // multi channel: the map reports vanishing densities for this call (the weight is infinite); needs wreq
};

template <typename T> inline T value_of(value_spec const& v, int vexp = 0)
{
    std::string t(v.tag);
    if (t == "nan") return std::numeric_limits<T>::quiet_NaN();
    if (t == "+inf") return std::numeric_limits<T>::infinity();
    if (t == "-inf") return -std::numeric_limits<T>::infinity();
    return std::ldexp(T(v.f), vexp);
}

struct iter_cfg
{
    std::string kind;      // plain vegas mc
    std::size_t d = 1;
    std::size_t calls = 0;
    std::size_t bins = 0;  // vegas
    std::vector<int> w;    // mc: weight pattern (0 = disabled)
    int densfam = 0;       // mc: which density family
};

template <typename T> inline std::string unit_class(T x)
{
    if (x == T()) return "zero";
    if (x > T() && x < T(1)) return "open";
    if (x == T(1)) return "one";
    return "out";
}

inline long addr_id(void const* p)
{
    std::ostringstream s;
    s << p;
    return ids().id("addr:" + s.str());
}

// shared state between the instrumented map, the integrand and the runner
template <typename T>
struct call_ctx
{
    iter_cfg cfg;
    std::vector<value_spec> plan;
    std::size_t call = 0;
    unsigned long long last_draws = 0;
    hep::vegas_pdf<T> const* pdf = nullptr;
    std::vector<T> last_dens;
    bool log_calls = true;
    bool dists = false;      // run the integrand with one distribution (the other accumulator specialisation)
    int vexp = 0;            // all integrand values are multiplied by 2^vexp (to reach the subnormal range)
    int jac_pow = 0;
    bool jac_neg = false;    // multi channel: the map reverses the orientation for odd channels (negative jacobian, negative weights)
    bool reload = false;     // VEGAS: the (zero-result) checkpoint goes through its text form before the first iteration
    std::size_t md = 0;      // multi channel: number of coordinates (map dimensions) if different from the number of random numbers
    bool md0 = false;        // multi channel: a map without coordinates (it keeps the kinematics itself): map dimensions 0
    bool nested = false;     // multi channel: the integrand itself runs a small integration of the same kind and numeric type (a nested integral)

    value_spec const& spec() const { return plan[call % plan.size()]; }

    void draw_event()
    {
        unsigned long long now = cnt().draws;
        if (log_calls) ev("Draw").i("n", (long long) (now - last_draws)).emit();
        last_draws = now;
    }
};

// ---- multi channel map: channels map the unit interval onto itself; densities are chosen such
// that sum_j alpha_j p_j is a power of two (exact weights), see DESIGN.md C02
template <typename T>
struct traced_map
{
    call_ctx<T>* c;
    T operator()(std::size_t ch, std::vector<T> const& rn, std::vector<T>& co, std::vector<std::size_t> const& en,
        std::vector<T>& de, hep::multi_channel_map action)
    {
        std::size_t const n = c->cfg.w.size();
        if (action == hep::multi_channel_map::calculate_coordinates)
        {
            c->draw_event();
            bool unit = true;
            for (T x : rn) unit = unit && (x >= T() && x < T(1));
            if (c->log_calls)
                ev("MapCoord").i("self", addr_id(this)).i("ch", (long long) ch).a("enabled", en).i("rn", ids().id(hexvec(rn))).i("caddr", addr_id(&co))
                    .i("daddr", addr_id(&de)).i("unitOK", unit ? 1 : 0).emit();
            for (std::size_t i = 0; i != co.size(); ++i) co[i] = rn[i % rn.size()];
            // a map may fill the densities already now (the documentation allows it): leave a recognisable pattern
            for (std::size_t i = 0; i != de.size(); ++i) de[i] = T(7 + (long) i) + rn[0];
            if (c->log_calls) ev("MapCoordDone").i("csum", ids().id("c:" + hexvec(co))).i("dsum", ids().id("d:" + hexvec(de))).emit();
            return T(-3); // (the return value of this call is documented as ignored)
        }
        if (c->log_calls)
            ev("MapDens").i("self", addr_id(this)).i("ch", (long long) ch).i("rn", ids().id(hexvec(rn))).i("caddr", addr_id(&co))
                .i("csum", ids().id("c:" + hexvec(co))).i("daddr", addr_id(&de)).i("dsum", ids().id("d:" + hexvec(de))).emit();
        // region of the first coordinate selects a common scale 1/2, 1, 2
        T y = co.empty() ? rn[0] : co[0];
        T scale = y < T(0.25) ? T(0.5) : (y < T(0.75) ? T(1) : T(2));
        for (std::size_t i = 0; i != n; ++i)
        {
            T p;
            if (c->cfg.densfam == 0) p = T(1);                                  // all equal
            else if (c->cfg.densfam == 1) p = (i % 2 == 0) ? T(0.5) : T(1.5);   // alpha = (1/2, 1/2): sum = 1
            else if (c->cfg.densfam == 3) p = i == 0 ? T() : T(1);               // channel 0 never contributes
            else p = T(1);
            if (c->cfg.w[i] == 0) p = T(3);                                      // disabled channel: irrelevant
            de[i] = p * scale;
        }
        // (the densities are asked for while the integrand of this call is still running - it requested the weight - so spec() is this call's)
        if (c->spec().wreq && c->spec().dz) for (std::size_t i = 0; i != n; ++i) de[i] = T();
        c->last_dens = de;
        T const jac = std::ldexp(T(1), c->jac_pow); // common jacobian factor
        return (c->jac_neg && ch % 2 == 1) ? -jac : jac;
    }
};

template <typename T> inline std::vector<long long> dens_ints(std::vector<T> const& d)
{
    std::vector<long long> r;
    for (T x : d) r.push_back(exact_scaled(x, 2));
    return r;
}

template <typename T> inline void int_end(call_ctx<T>& c, value_spec const& vs, bool have_w, T w, std::vector<long long> const& bin)
{
    if (!c.log_calls) return;
    std::string wt = have_w ? tag(w) : std::string("unk");
    bool dens_exact = true;
    if (c.cfg.kind == "mc" && have_w) for (T x : c.last_dens) dens_exact = dens_exact && is_exact_scaled(x, 2, 1000);
    // an adapted grid / adapted weights give weights that are not small dyadic numbers: only counters are tracked
    if (wt == "fin" && (!is_exact_scaled(w, WS, 100000) || !dens_exact)) wt = "unk";
    ev e("IntEnd");
    e.s("vt", vs.tag).i("v", std::string(vs.tag) == "fin" ? vs.f : 0).s("wt", wt)
        .i("w", (have_w && wt == "fin") ? exact_scaled(w, WS) : 0);
    if (c.cfg.kind == "mc") e.a("p", (have_w && wt == "fin") ? dens_ints(c.last_dens) : std::vector<long long>());
    else e.a("p", std::vector<long long>());
    e.a("bin", bin).emit();
}

template <typename T>
struct traced_plain_fn
{
    call_ctx<T>* c;
    mutable long seq;   // state of the function object itself: the library evaluates the object it was given, not copies of it
    traced_plain_fn(call_ctx<T>* c_) : c(c_), seq(0) {}
    T operator()(hep::mc_point<T> const& p, hep::projector<T>& pr) const
    {
        pr.add(0, p.point()[0], T(1));
        return (*this)(p);
    }
    T operator()(hep::mc_point<T> const& p) const
    {
        call_ctx<T>& x = *c;
        x.draw_event();
        bool unit = p.point().size() == x.cfg.d;
        for (T u : p.point()) unit = unit && (u >= T() && u < T(1));
        if (x.log_calls) ev("IntBegin").i("fseq", seq++).i("unitOK", unit ? 1 : 0).i("chan", -1).i("csum", 0).i("caddr", 0).emit();
        value_spec const& vs = x.spec();
        T w = T(1);
        if (vs.wreq) { if (x.log_calls) ev("WeightReq").emit(); w = p.weight(); }
        int_end(x, vs, true, w, std::vector<long long>());
        ++x.call;
        return value_of<T>(vs, c->vexp);
    }
};

template <typename T>
struct traced_vegas_fn
{
    call_ctx<T>* c;
    mutable long seq;   // state of the function object itself: the library evaluates the object it was given, not copies of it
    traced_vegas_fn(call_ctx<T>* c_) : c(c_), seq(0) {}
    T operator()(hep::vegas_point<T> const& p, hep::projector<T>& pr) const
    {
        pr.add(0, p.point()[0], T(1));
        return (*this)(p);
    }
    T operator()(hep::vegas_point<T> const& p) const
    {
        call_ctx<T>& x = *c;
        x.draw_event();
        bool unit = p.point().size() == x.cfg.d && p.bin().size() == x.cfg.d;
        std::vector<long long> bins;
        T expect = T(1);
        for (std::size_t j = 0; unit && j != x.cfg.d; ++j)
        {
            T u = p.point()[j];
            std::size_t b = p.bin()[j];
            bins.push_back((long long) b);
            unit = unit && (u >= T() && u <= T(1)) && b < x.pdf->bins();
            if (unit)
            {
                T l = x.pdf->bin_left(j, b), r = x.pdf->bin_left(j, b + 1);
                unit = unit && l <= u && u <= r;           // the bin contains the point
                expect *= (r - l) * T(x.pdf->bins());
            }
        }
        if (x.log_calls) ev("IntBegin").i("fseq", seq++).i("unitOK", unit ? 1 : 0).i("chan", -1).i("csum", 0).i("caddr", 0).emit();
        value_spec const& vs = x.spec();
        // the weight is not lazy for VEGAS; it is always known to the driver through the grid
        T w = expect;
        if (vs.wreq) { if (x.log_calls) ev("WeightReq").emit(); w = p.weight(); }
        int_end(x, vs, true, w, bins);
        ++x.call;
        return value_of<T>(vs, c->vexp);
    }
};

// a small multi channel integration that nobody observes (its own engine, its own buffers)
template <typename T> inline T nested_integral()
{
    auto map = [](std::size_t ch, std::vector<T> const& r, std::vector<T>& co, std::vector<std::size_t> const&, std::vector<T>& de, hep::multi_channel_map) {
        co[0] = ch ? r[0] * r[0] : r[0];
        de[0] = T(1);
        de[1] = co[0] > T() ? T(0.5) / std::sqrt(co[0]) : T(1);
        return T(1);
    };
    auto fn = [](hep::multi_channel_point<T> const& p) { return T(1) + p.coordinates()[0]; };
    auto chk = hep::make_multi_channel_chkpt<T>();
    using C = decltype(chk);
    auto r = hep::multi_channel(hep::make_multi_channel_integrand<T>(fn, 1, map, 1, 2), std::vector<std::size_t>{3}, chk, hep::callback<C>(hep::callback_mode::silent));
    return r.results()[0].value();
}

template <typename T>
struct traced_mc_fn
{
    call_ctx<T>* c;
    mutable long seq;   // state of the function object itself: the library evaluates the object it was given, not copies of it
    traced_mc_fn(call_ctx<T>* c_) : c(c_), seq(0) {}
    T operator()(hep::multi_channel_point<T> const& p, hep::projector<T>& pr) const
    {
        // note: projector.add asks the point for its weight; only do so if the integrand did anyway
        bool wreq = c->spec().wreq;
        T r = (*this)(p);
        if (wreq) pr.add(0, p.coordinates().empty() ? p.point()[0] : p.coordinates()[0], T(1));
        return r;
    }
    T operator()(hep::multi_channel_point<T> const& p) const
    {
        call_ctx<T>& x = *c;
        bool unit = true;
        for (T u : p.point()) unit = unit && (u >= T() && u < T(1));
        if (x.log_calls)
            ev("IntBegin").i("fseq", seq++).i("unitOK", unit ? 1 : 0).i("chan", (long long) p.channel()).i("csum", ids().id("c:" + hexvec(p.coordinates())))
                .i("caddr", addr_id(&p.coordinates())).emit();
        value_spec const& vs = x.spec();
        if (x.nested) (void) nested_integral<T>();
        T w = T();
        if (vs.wreq) { if (x.log_calls) ev("WeightReq").emit(); w = p.weight(); }
        int_end(x, vs, vs.wreq, w, std::vector<long long>());
        ++x.call;
        return value_of<T>(vs, c->vexp);
    }
};

template <typename T> inline std::vector<long long> adj_ints(std::vector<T> const& a, int scale)
{
    std::vector<long long> r;
    for (T x : a) r.push_back(is_exact_scaled(x, scale) ? exact_scaled(x, scale) : -1);
    return r;
}

// emit IterEnd from a result
template <typename T, typename R>
inline void iter_end(call_ctx<T>& c, R const& res, std::vector<long long> const& adj, bool gen_eq, std::size_t pred_k)
{
    unsigned long long tail = cnt().draws - c.last_draws;
    c.last_draws = cnt().draws;
    long long N = (long long) res.calls();
    int const ve = c.vexp;
    bool se = ve ? is_exact_scaled(res.sum(), WS - ve) : (is_exact_scaled(res.sum(), WS) && is_exact_scaled(res.sum_of_squares(), 2 * WS));
    // derived quantities: value * N = sum and variance * N^2 (N - 1) = N sumsq - sum^2, projected with rounding
    long long dv = 0, dq = 0, derived = 0;
    if (se && N >= 2 && !ve)
    {
        long double vN = (long double) res.value() * N;
        long double qq = (long double) res.variance() * N * N * (N - 1);
        long double s = res.sum(), q = res.sum_of_squares();
        long double eps = std::numeric_limits<T>::epsilon();
        long double cond = (long double) N * q + s * s; // magnitude of the terms that are subtracted
        derived = (std::fabs(vN - s) <= 4 * eps * std::fabs(s) && std::fabs(qq - (N * q - s * s)) <= 8 * eps * cond &&
            (res.variance() < 0 || std::fabs((long double) res.error() * res.error() - res.variance()) <= 4 * eps * std::fabs((long double) res.variance()))) ? 1 : 0;
        dv = mono_scaled(vN, WS);
        dq = 0;
    }
    ev("IterEnd").i("calls", N).i("nz", (long long) res.non_zero_calls()).i("fin", (long long) res.finite_calls())
        .i("sumExact", se ? 1 : 0).i("sum", se ? exact_scaled(res.sum(), WS - ve) : 0).i("sumsq", (se && !ve) ? exact_scaled(res.sum_of_squares(), 2 * WS) : 0)
        .a("adj", adj).i("tail", (long long) tail).i("genEq", gen_eq ? 1 : 0).i("predK", (long long) pred_k)
        .i("derivedOK", (N >= 2 && se && !ve) ? derived : 1).i("finite", std::isfinite(res.sum()) && std::isfinite(res.sum_of_squares()) ? 1 : 0).emit();
}

// number of raw draws per canonical number as measured on a copy of the engine (not the library's predictor)
template <typename T, typename E> inline std::size_t measured_k(E e)
{
    counters before = cnt();
    (void) std::generate_canonical<T, std::numeric_limits<T>::digits>(e);
    std::size_t k = (std::size_t) (cnt().draws - before.draws);
    cnt() = before;
    return k;
}

// floor(log2(max - min + 1)) of an engine's range in exact integer arithmetic
template <typename E> inline int floor_log2_range()
{
    unsigned __int128 r = (unsigned __int128) E::max() - (unsigned __int128) E::min() + 1;
    int lg = -1;
    while (r) { r >>= 1; ++lg; }
    return lg;
}

// ---- one iteration of each integrator, through the public entry points
template <typename T, typename E>
inline void run_plain(call_ctx<T>& c, E const& engine, std::vector<std::size_t> const& iters)
{
    auto chk = hep::make_plain_chkpt<T, E>(engine);
    using C = decltype(chk);
    std::size_t k = measured_k<T>(engine);
    for (std::size_t N : iters)
    {
        c.cfg.calls = N;
        ev("IterBegin").s("kind", "plain").s("T", type_name<T>::get()).i("d", (long long) c.cfg.d).i("k", (long long) k).i("n", 0)
            .a("w", std::vector<int>()).i("bins", 0).i("calls", (long long) N).i("noSq", c.vexp != 0 ? 1 : 0).emit();
        c.last_draws = cnt().draws;
        E before = chk.generator();
        if (c.dists)
            chk = hep::plain(hep::make_integrand<T>(traced_plain_fn<T>{&c}, c.cfg.d, hep::make_dist_params<T>(3, T(), T(1), "x")),
                std::vector<std::size_t>{N}, chk, hep::callback<C>(hep::callback_mode::silent));
        else
        chk = hep::plain(hep::make_integrand<T>(traced_plain_fn<T>{&c}, c.cfg.d), std::vector<std::size_t>{N}, chk,
            hep::callback<C>(hep::callback_mode::silent));
        E expect = before;
        expect.discard((unsigned long long) N * c.cfg.d * hep::random_number_usage<T, E>());
        counters save = cnt(); // the discard above is the driver's, not the library's
        (void) save;
        iter_end(c, chk.results().back(), std::vector<long long>(), expect == chk.generator(), hep::random_number_usage<T, E>());
    }
}

template <typename T, typename E>
inline void run_vegas(call_ctx<T>& c, E const& engine, hep::vegas_pdf<T> const& grid, std::vector<std::size_t> const& iters, T alpha)
{
    auto chk = hep::make_vegas_chkpt<T, E>(grid, alpha, engine);
    using C = decltype(chk);
    std::size_t k = measured_k<T>(engine);
    c.cfg.d = grid.dimensions();
    c.cfg.bins = grid.bins();
    chk.dimensions(c.cfg.d);
    if (c.reload)
    {
        // a user grid that comes back from a stream is the same grid
        std::ostringstream o;
        chk.serialize(o);
        std::istringstream in(o.str());
        chk = hep::make_vegas_chkpt<T, E>(in);
    }
    for (std::size_t N : iters)
    {
        c.cfg.calls = N;
        hep::vegas_pdf<T> pdf = chk.pdf();
        c.pdf = &pdf;
        ev("IterBegin").s("kind", "vegas").s("T", type_name<T>::get()).i("d", (long long) c.cfg.d).i("k", (long long) k).i("n", 0)
            .a("w", std::vector<int>()).i("bins", (long long) c.cfg.bins).i("calls", (long long) N).i("noSq", c.vexp != 0 ? 1 : 0).emit();
        c.last_draws = cnt().draws;
        E before = chk.generator();
        if (c.dists)
            chk = hep::vegas(hep::make_integrand<T>(traced_vegas_fn<T>{&c}, c.cfg.d, hep::make_dist_params<T>(3, T(), T(1), "x")),
                std::vector<std::size_t>{N}, chk, hep::callback<C>(hep::callback_mode::silent));
        else
        chk = hep::vegas(hep::make_integrand<T>(traced_vegas_fn<T>{&c}, c.cfg.d), std::vector<std::size_t>{N}, chk,
            hep::callback<C>(hep::callback_mode::silent));
        E expect = before;
        expect.discard((unsigned long long) N * c.cfg.d * hep::random_number_usage<T, E>());
        iter_end(c, chk.results().back(), adj_ints(chk.results().back().adjustment_data(), 2 * WS), expect == chk.generator(),
            hep::random_number_usage<T, E>());
    }
}

template <typename T, typename E>
inline void run_mc(call_ctx<T>& c, E const& engine, std::vector<T> const& weights, std::vector<std::size_t> const& iters)
{
    auto chk = hep::make_multi_channel_chkpt<T, E>(weights, T(), T(0.25), engine);
    using C = decltype(chk);
    std::size_t k = measured_k<T>(engine);
    std::size_t n = weights.size();
    chk.channels(n);
    for (std::size_t N : iters)
    {
        c.cfg.calls = N;
        auto cw = chk.channel_weights();
        c.cfg.w.clear();
        for (T x : cw) c.cfg.w.push_back(x != T() ? 1 : 0);
        ev("IterBegin").s("kind", "mc").s("T", type_name<T>::get()).i("d", (long long) c.cfg.d).i("k", (long long) k).i("n", (long long) n)
            .a("w", c.cfg.w).i("bins", 0).i("calls", (long long) N).i("noSq", c.vexp != 0 ? 1 : 0).emit();
        c.last_draws = cnt().draws;
        E before = chk.generator();
        if (c.dists)
            chk = hep::multi_channel(hep::make_multi_channel_integrand<T>(traced_mc_fn<T>{&c}, c.cfg.d, traced_map<T>{&c}, c.md0 ? 0 : (c.md ? c.md : c.cfg.d), n,
                hep::make_dist_params<T>(3, T(), T(1), "x")), std::vector<std::size_t>{N}, chk, hep::callback<C>(hep::callback_mode::silent));
        else
        chk = hep::multi_channel(hep::make_multi_channel_integrand<T>(traced_mc_fn<T>{&c}, c.cfg.d, traced_map<T>{&c}, c.md0 ? 0 : (c.md ? c.md : c.cfg.d), n),
            std::vector<std::size_t>{N}, chk, hep::callback<C>(hep::callback_mode::silent));
        E expect = before;
        expect.discard((unsigned long long) N * (c.cfg.d + 1) * hep::random_number_usage<T, E>());
        // adjustment data scale: p (2^2) * fw^2 (2^(2 WS)) * w (2^WS)
        iter_end(c, chk.results().back(), adj_ints(chk.results().back().adjustment_data(), 2 + 3 * WS), expect == chk.generator(),
            hep::random_number_usage<T, E>());
    }
}

template <typename T, typename E, typename C>
struct mc_multi_cb
{
    call_ctx<T>* c;
    std::vector<std::size_t> const* iters;
    std::size_t* index;
    E* before;
    std::size_t k, n;
    bool operator()(C const& chk)
    {
        std::size_t const N = (*iters)[*index];
        E expect = *before;
        expect.discard((unsigned long long) N * (c->cfg.d + 1) * hep::random_number_usage<T, E>());
        iter_end(*c, chk.results().back(), adj_ints(chk.results().back().adjustment_data(), 2 + 3 * WS), expect == chk.generator(), hep::random_number_usage<T, E>());
        *before = chk.generator();
        ++*index;
        if (*index != iters->size())
        {
            // the weights the next iteration of this very call will use
            c->cfg.calls = (*iters)[*index];
            c->cfg.w.clear();
            for (T x : chk.channel_weights()) c->cfg.w.push_back(x != T() ? 1 : 0);
            ev("IterBegin").s("kind", "mc").s("T", type_name<T>::get()).i("d", (long long) c->cfg.d).i("k", (long long) k).i("n", (long long) n)
                .a("w", c->cfg.w).i("bins", 0).i("calls", (long long) c->cfg.calls).i("noSq", c->vexp != 0 ? 1 : 0).emit();
            c->last_draws = cnt().draws;
        }
        return true;
    }
};

// all iterations in one call of hep::multi_channel
template <typename T, typename E>
inline void run_mc_multi(call_ctx<T>& c, E const& engine, std::vector<T> const& weights, std::vector<std::size_t> const& iters)
{
    auto chk = hep::make_multi_channel_chkpt<T, E>(weights, T(), T(0.25), engine);
    using C = decltype(chk);
    std::size_t k = measured_k<T>(engine);
    std::size_t n = weights.size();
    chk.channels(n);
    c.cfg.calls = iters[0];
    c.cfg.w.clear();
    for (T x : chk.channel_weights()) c.cfg.w.push_back(x != T() ? 1 : 0);
    ev("IterBegin").s("kind", "mc").s("T", type_name<T>::get()).i("d", (long long) c.cfg.d).i("k", (long long) k).i("n", (long long) n)
        .a("w", c.cfg.w).i("bins", 0).i("calls", (long long) iters[0]).i("noSq", c.vexp != 0 ? 1 : 0).emit();
    c.last_draws = cnt().draws;
    E before = chk.generator();
    std::size_t index = 0;
    hep::multi_channel(hep::make_multi_channel_integrand<T>(traced_mc_fn<T>{&c}, c.cfg.d, traced_map<T>{&c}, c.cfg.d, n), iters, chk,
        mc_multi_cb<T, E, C>{&c, &iters, &index, &before, k, n});
}

} // namespace vt

#endif
