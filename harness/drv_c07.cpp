// C07 driver: VEGAS grid refinement and inverse CDF.
//   drv_c07 <out.ndjson> <seed> <thorough>
#include "hep/mc.hpp"
#include "vt_engines.hpp"
#include "vt_trace.hpp"

#include <cmath>
#include <cstdlib>
#include <stdexcept>
#include <vector>

static int const SC = 16;        // boundaries are logged as floor(x * 2^16)
static int const G = 8;          // exact input grids use boundaries k / 8

template <typename T> static std::vector<T> grid_of(hep::vegas_pdf<T> const& p, std::size_t dim)
{
    std::vector<T> g;
    for (std::size_t b = 0; b <= p.bins(); ++b) g.push_back(p.bin_left(dim, b));
    return g;
}
template <typename T> static std::vector<long long> scaled(std::vector<T> const& v, int sc = SC)
{
    std::vector<long long> r;
    for (T x : v) r.push_back(std::isfinite(x) ? vt::mono_scaled(x, sc) : -1000000000LL);
    return r;
}
template <typename T> static bool finite_all(std::vector<T> const& v) { for (T x : v) if (!std::isfinite(x)) return false; return true; }
template <typename T> static bool mono(std::vector<T> const& v) { for (std::size_t i = 0; i + 1 < v.size(); ++i) if (!(v[i] <= v[i + 1])) return false; return true; }
template <typename T> static long grid_id(hep::vegas_pdf<T> const& p)
{
    std::string s;
    for (std::size_t d = 0; d != p.dimensions(); ++d) s += vt::hexvec(grid_of(p, d)) + "|";
    return vt::ids().id(s);
}

// ---- exact small cases: grid over k/8, data in 0..3, alpha = 0
template <typename T>
static void grid_cases(int B, vt::rng& g, bool thorough)
{
    // all non-decreasing inner boundary vectors over 0..G
    std::vector<std::vector<int>> inners;
    std::vector<int> cur((std::size_t) B - 1, 0);
    for (;;)
    {
        bool ok = true;
        for (int i = 0; i + 1 < B - 1; ++i) ok = ok && cur[(std::size_t) i] <= cur[(std::size_t) i + 1];
        if (ok) inners.push_back(cur);
        int k = 0;
        while (k < B - 1 && ++cur[(std::size_t) k] > G) { cur[(std::size_t) k] = 0; ++k; }
        if (k == B - 1) break;
    }
    long dtotal = 1;
    for (int k = 0; k != B; ++k) dtotal *= 4;
    for (auto const& in : inners)
    {
        for (long code = 0; code != dtotal; ++code)
        {
            if (!thorough && g.below(B == 2 ? 1 : (B == 3 ? 6 : 60)) != 0) continue;
            std::vector<int> data;
            long c = code;
            for (int k = 0; k != B; ++k) { data.push_back((int) (c % 4)); c /= 4; }
            hep::vegas_pdf<T> pdf(1, (std::size_t) B);
            std::vector<int> gx{0};
            for (int k = 0; k != B - 1; ++k) { pdf.set_bin_left(0, (std::size_t) k + 1, T(in[(std::size_t) k]) / T(G)); gx.push_back(in[(std::size_t) k]); }
            gx.push_back(G);
            std::vector<T> dt(data.begin(), data.end());
            auto np = hep::vegas_refine_pdf(pdf, T(), dt);
            auto ng = grid_of(np, 0);
            // smoothed zero pattern -> alpha = 0 importance (0/1), computed here from the integers
            std::vector<int> imp;
            for (int b = 0; b != B; ++b)
            {
                int s = data[(std::size_t) b] + (b > 0 ? data[(std::size_t) b - 1] : 0) + (b + 1 < B ? data[(std::size_t) b + 1] : 0);
                imp.push_back(s != 0 ? 1 : 0);
            }
            vt::ev("GridCase").s("T", vt::type_name<T>::get()).i("B", B).a("gx", gx).a("data", data).a("imp", imp).a("new", scaled(ng))
                .i("fin", finite_all(ng) ? 1 : 0).i("mono", mono(ng) ? 1 : 0).i("first0", ng.front() == T() ? 1 : 0).i("last1", ng.back() == T(1) ? 1 : 0)
                .i("inId", grid_id(pdf)).i("outId", grid_id(np)).emit();
        }
    }
}

// cumulative damped importance of the old bins up to y, as a fraction of the total (long double)
template <typename T>
static long double share_at(std::vector<T> const& old, std::vector<long double> const& imp, long double y)
{
    long double total = 0, acc = 0;
    for (long double v : imp) total += v;
    for (std::size_t b = 0; b + 1 < old.size(); ++b)
    {
        long double l = old[b], r = old[b + 1];
        if (y >= r) { acc += imp[b]; continue; }
        if (y > l && r > l) acc += imp[b] * (y - l) / (r - l);
        break;
    }
    return acc / total;
}

template <typename T>
static std::vector<long double> importance(std::vector<T> const& data, long double alpha)
{
    std::size_t B = data.size();
    std::vector<long double> s(B);
    for (std::size_t b = 0; b != B; ++b)
    {
        if (b == 0) s[b] = 0.5L * ((long double) data[0] + data[1]);
        else if (b + 1 == B) s[b] = 0.5L * ((long double) data[B - 2] + data[B - 1]);
        else s[b] = ((long double) data[b - 1] + data[b] + data[b + 1]) / 3.0L;
    }
    long double norm = 0;
    for (long double v : s) norm += v;
    std::vector<long double> imp(B, 0.0L);
    if (norm == 0) return imp;
    for (std::size_t b = 0; b != B; ++b)
        if (s[b] != 0) { long double r = s[b] / norm; imp[b] = std::pow((r - 1.0L) / std::log(r), alpha); }
    return imp;
}

// one general refinement step: validity + equal shares (driver-evaluated importance) + unchanged on no data
template <typename T>
static hep::vegas_pdf<T> ref_step(char const* src, int chain, int k, hep::vegas_pdf<T> const& pdf, T alpha, std::vector<T> const& data)
{
    auto np = hep::vegas_refine_pdf(pdf, alpha, data);
    std::size_t B = pdf.bins();
    for (std::size_t d = 0; d != pdf.dimensions(); ++d)
    {
        std::vector<T> dd(data.begin() + (long) (d * B), data.begin() + (long) ((d + 1) * B));
        auto og = grid_of(pdf, d), ng = grid_of(np, d);
        bool allzero = true;
        for (T x : dd) allzero = allzero && x == T();
        long long dev = -1;
        if (!allzero && finite_all(ng))
        {
            auto imp = importance(dd, (long double) alpha);
            long double worst = 0;
            for (std::size_t j = 1; j < B; ++j)
            {
                // the boundary is only representable up to a few ulps of T: the wanted share must lie between
                // the shares at the neighbouring representable positions (this also covers old bins whose
                // width is zero or below the resolution of T, which carry their importance as a jump)
                T yl = ng[j], yh = ng[j];
                for (int u = 0; u != 4; ++u) { yl = std::nextafter(yl, T(-1)); yh = std::nextafter(yh, T(2)); }
                long double lo = share_at(og, imp, (long double) yl), hi = share_at(og, imp, (long double) yh);
                long double want = (long double) j / (long double) B;
                long double e = want < lo ? lo - want : (want > hi ? want - hi : 0);
                worst = std::max(worst, e);
            }
            dev = (long long) std::ceil(worst * 1048576.0L);
        }
        std::string ogs = vt::hexvec(og), ngs = vt::hexvec(ng);
        // does the grid live (partly) in the subnormal range of T, where a boundary has a handful of significant bits left?
        bool tiny = false;
        for (T x : og) tiny = tiny || (x != T() && std::fabs(x) < std::numeric_limits<T>::min());
        for (T x : ng) tiny = tiny || (x != T() && std::fabs(x) < std::numeric_limits<T>::min());
        vt::ev("RefStep").s("src", src).s("T", vt::type_name<T>::get()).i("chain", chain).i("k", k).i("dim", (long long) d).i("B", (long long) B)
            .i("alpha100", (long long) std::lround((double) alpha * 100)).i("fin", finite_all(ng) ? 1 : 0).i("mono", mono(ng) ? 1 : 0)
            .i("first0", ng.front() == T() ? 1 : 0).i("last1", ng.back() == T(1) ? 1 : 0).i("allZero", allzero ? 1 : 0)
            .i("shareDev", dev).i("inId", vt::ids().id(ogs)).i("outId", vt::ids().id(ngs)).i("tiny", tiny ? 1 : 0).emit();
    }
    return np;
}

// all importance in the first bin, again and again (a peak at the origin that is narrower than anything the numeric type resolves): the default
// float grid of 128 bins reaches the subnormal range after about twenty refinements (known finding F13: from there on boundaries can come
// out one subnormal unit too small - below their left neighbour or below zero)
template <typename T>
static void subnormal_chain(std::size_t B, T alpha, int chain, int steps)
{
    hep::vegas_pdf<T> pdf(1, B);
    for (int k = 0; k != steps; ++k)
    {
        std::vector<T> data(B, T());
        data[0] = T(2.5);
        pdf = ref_step("subnormal", chain, k, pdf, alpha, data);
    }
}

template <typename T>
static void chains(vt::rng& g, int nchains, int len)
{
    static double const alphas[5] = {0.0, 0.5, 1.0, 1.5, 3.0};
    static int const binss[6] = {2, 3, 5, 16, 49, 128};
    for (int c = 0; c != nchains; ++c)
    {
        std::size_t B = (std::size_t) binss[g.below(6)];
        std::size_t D = 1 + g.below(2);
        T alpha = T(alphas[g.below(5)]);
        hep::vegas_pdf<T> pdf(D, B);
        int peak = (int) g.below(B);
        for (int k = 0; k != len; ++k)
        {
            int fam = (int) g.below(7);
            std::vector<T> data(D * B, T());
            int sexp = (int) g.range(-100, 100);
            for (std::size_t i = 0; i != D * B; ++i)
            {
                std::size_t b = i % B;
                if (fam == 0) data[i] = T();                                              // no information
                else if (fam == 1) data[i] = (int) b == peak ? T(2.5) : T();              // single non-zero bin
                else if (fam == 2) data[i] = T(g.range(0, 1000)) / T(8);                   // random
                else if (fam == 3) data[i] = std::ldexp(T(g.range(1, 255)), (int) g.range(-20, 20) + sexp); // wide exponent range
                else if (fam == 4) data[i] = std::ldexp(T(1 + g.below(7)), sexp);          // tiny / huge overall scale
                else if (fam == 5) data[i] = T(1) / (T(1) + T(16) * T((long) b - peak) * T((long) b - peak)); // sharp peak (no underflow in the tails)
                else data[i] = g.below(4) == 0 ? T() : std::numeric_limits<T>::max() / T(2 + (long) g.below(6));  // top of the exponent range
            }
            pdf = ref_step("chain", c, k, pdf, alpha, data);
            if (!finite_all(grid_of(pdf, 0))) break;
        }
    }
}

// many dimensions: the weight of a point is the product over the dimensions of bins x bin width (each factor of order one), whatever
// bins^dimensions or the product of the widths alone would be
template <typename T>
static void highdim_points(std::size_t d, std::size_t B, bool narrow, vt::rng& g)
{
    hep::vegas_pdf<T> pdf(d, B);
    if (narrow)
        for (std::size_t j = 0; j != d; ++j)
            for (std::size_t b = 1; b != B; ++b) pdf.set_bin_left(j, b, std::ldexp(T(b), -10)); // B - 1 bins of width 2^-10, one wide bin
    long long bad = 0, points = 0, nonfinite = 0;
    auto fn = [&](hep::vegas_point<T> const& p) {
        long double ref = 1.0L;
        bool inside = true;
        for (std::size_t j = 0; j != d; ++j)
        {
            std::size_t b = p.bin()[j];
            long double l = pdf.bin_left(j, b), r = pdf.bin_left(j, b + 1);
            ref *= (long double) B * (r - l);
            inside = inside && l <= p.point()[j] && p.point()[j] <= r;
        }
        ++points;
        if (!std::isfinite(p.weight())) ++nonfinite;
        // only where the reference is a normal number of T (the product itself may legitimately leave the range of T)
        if (ref > (long double) std::numeric_limits<T>::min() * 4 && ref < (long double) std::numeric_limits<T>::max() / 4)
            if (!inside || !(std::fabs((long double) p.weight() - ref) <= (2.0L * d + 4) * std::numeric_limits<T>::epsilon() * ref)) ++bad;
        return T(1);
    };
    auto chk = hep::make_vegas_chkpt<T>(pdf, T(1.5), std::mt19937((unsigned) g.below(100000)));
    using C = decltype(chk);
    hep::vegas(hep::make_integrand<T>(fn, d), std::vector<std::size_t>{40}, chk, hep::callback<C>(hep::callback_mode::silent));
    vt::ev("PointHD").s("T", vt::type_name<T>::get()).i("d", (long long) d).i("B", (long long) B).i("narrow", narrow ? 1 : 0).i("points", points)
        .i("bad", bad).i("nonfinite", narrow ? 0 : nonfinite).emit();
}

// real runs on sharply peaked integrands: every sampled point lies in its bin with weight B * width
template <typename T>
static void real_run(int run, vt::rng& g, int iters)
{
    static int const binss[4] = {2, 5, 16, 128};
    std::size_t B = (std::size_t) binss[g.below(4)];
    T alpha = T(g.range(0, 300)) / T(100);
    T peak = T(g.range(1, 99)) / T(100);
    T width = T(g.range(1, 50)) / T(1000);
    std::size_t N = 400;
    long count = 0;
    bool zero_now = false;
    long abort_after = -1, abort_calls = 0;
    int zero_it = 2 + (int) g.below(3); // one iteration (not the first) samples only zeros
    hep::vegas_pdf<T> const* curpdf = nullptr;
    auto fn = [&](hep::vegas_point<T> const& p) {
        T x = p.point()[0];
        std::size_t b = p.bin()[0];
        if (count++ % 16 == 0)
        {
            T l = curpdf->bin_left(0, b), r = curpdf->bin_left(0, b + 1);
            vt::ev("Point").i("run", run).i("B", (long long) B).i("bin", (long long) b).i("x", vt::mono_scaled(x, 20)).i("lo", vt::mono_scaled(l, 20))
                .i("hi", vt::mono_scaled(r, 20)).i("inside", (l <= x && x <= r) ? 1 : 0)
                .i("wOk", std::fabs(p.weight() - T(B) * (r - l)) <= T(4) * std::numeric_limits<T>::epsilon() * p.weight() ? 1 : 0)
                .i("w", vt::mono_scaled(p.weight(), 10)).emit();
        }
        // sharply peaked, but without tails that underflow in T: a smoothed value that underflows to zero makes the
        // damped importance jump from ~1/|ln r|^alpha to 0, which is a property of the number format, not of the code
        if (zero_now) return T();
        if (abort_after >= 0 && abort_calls++ >= abort_after) throw std::runtime_error("the integrand gives up");
        T d = (x - peak) / width;
        return d * d > T(400) ? T() : T(1) / (T(1) + d * d);
    };
    auto integrand = hep::make_integrand<T>(fn, 1);
    auto chk = hep::make_vegas_chkpt<T>(B, alpha);
    using C = decltype(chk);
    chk.dimensions(1);
    for (int it = 0; it != iters; ++it)
    {
        auto pdf = chk.pdf();
        curpdf = &pdf;
        zero_now = it == zero_it;
        if (zero_now && run % 2 == 0)
        {
            // before the iteration of zeros: an attempt at an ordinary iteration in which the integrand throws half way; the caller catches
            // the exception and carries on with the checkpoint it had - nothing of the abandoned attempt may reach a later iteration
            zero_now = false;
            abort_after = (long) N / 2;
            abort_calls = 0;
            try { hep::vegas(integrand, std::vector<std::size_t>{N}, chk, hep::callback<C>(hep::callback_mode::silent)); }
            catch (std::runtime_error const&) {}
            abort_after = -1;
            zero_now = true;
        }
        chk = hep::vegas(integrand, std::vector<std::size_t>{N}, chk, hep::callback<C>(hep::callback_mode::silent));
        if (zero_now)
        {
            // an iteration whose sampled values are all zero leaves the grid as it was: the grid the checkpoint hands to the next
            // iteration is the grid this iteration sampled with (bit for bit)
            vt::ev("ZeroIter").i("run", run).i("it", it).i("usedId", grid_id(chk.results().back().pdf())).i("nextId", grid_id(chk.pdf()))
                .i("nz", (long long) chk.results().back().non_zero_calls()).emit();
        }
        // the grid that the *next* iteration will use must be the refinement of this one
        ref_step("run", 1000 + run, it, chk.results().back().pdf(), chk.alpha(), chk.results().back().adjustment_data());
        vt::ev("NextGrid").i("run", run).i("it", it).i("chkId", grid_id(chk.pdf()))
            .i("refId", grid_id(hep::vegas_refine_pdf(chk.results().back().pdf(), chk.alpha(), chk.results().back().adjustment_data()))).emit();
    }
    // a checkpoint whose last result is replaced by hand (rollback, then add): the next grid is the refinement of what is the last result now -
    // also when the checkpoint has been asked for its grid before, with the same number of results
    if (iters >= 2 && chk.results().size() == (std::size_t) iters)
    {
        auto const first = chk.results().front();
        chk.rollback((std::size_t) iters - 1);
        chk.add(first, chk.generator());
        vt::ev("NextGrid").i("run", run).i("it", iters).i("chkId", grid_id(chk.pdf()))
            .i("refId", grid_id(hep::vegas_refine_pdf(first.pdf(), chk.alpha(), first.adjustment_data()))).emit();
    }
}

// data that vanish in one dimension only (possible for hand-made data, or results added by hand): that dimension keeps its grid, the others are refined
template <typename T>
static void zero_dimension_cases(vt::rng& g)
{
    std::size_t const B = 6;
    for (int zd = 0; zd != 3; ++zd)
    {
        hep::vegas_pdf<T> pdf(3, B);
        std::vector<T> data;
        for (int d = 0; d != 3; ++d) for (std::size_t b = 0; b != B; ++b) data.push_back(d == zd ? T() : T(1 + g.below(50)) / T(7));
        ref_step("zero-dimension", 5000 + zd, 0, pdf, T(1.5), data);
    }
}

// an iteration whose values cancel exactly (estimate 0) but whose squares do not vanish: the grid is refined like after any other
template <typename T>
static void cancel_case(std::size_t B, T alpha, int run)
{
    std::size_t const M = 64;
    std::vector<std::uint64_t> sc;
    for (std::size_t j = 0; j != M; ++j) sc.push_back((std::uint64_t) std::floor(std::ldexp((2.0L * j + 1.0L) / (2.0L * M), 64)));
    auto fn = [](hep::vegas_point<T> const& p) { T x = p.point()[0]; return x >= T(0.75) ? T(2) : (x >= T(0.25) ? T(-1) : T()); };
    auto chk = hep::make_vegas_chkpt<T, vt::script_engine>(B, alpha, vt::script_engine(vt::script_registry::add(sc)));
    using C = decltype(chk);
    chk = hep::vegas(hep::make_integrand<T>(fn, 1), std::vector<std::size_t>{M}, chk, hep::callback<C>(hep::callback_mode::silent));
    auto const& r = chk.results().back();
    vt::ev("NextGrid").i("run", run).i("it", 0).i("chkId", grid_id(chk.pdf())).i("refId", grid_id(hep::vegas_refine_pdf(r.pdf(), chk.alpha(), r.adjustment_data())))
        .i("sumZero", r.sum() == T() ? 1 : 0).i("moved", grid_id(chk.pdf()) != grid_id(r.pdf()) ? 1 : 0).emit();
}

// default grids for many bin counts; inverse CDF at the extremes
template <typename T>
static void defaults_and_icdf(vt::rng& g)
{
    for (std::size_t B = 2; B <= 200; ++B)
    {
        hep::vegas_pdf<T> pdf(1, B);
        auto gr = grid_of(pdf, 0);
        vt::ev("Default").s("T", vt::type_name<T>::get()).i("B", (long long) B).i("fin", finite_all(gr) ? 1 : 0).i("mono", mono(gr) ? 1 : 0)
            .i("first0", gr.front() == T() ? 1 : 0).i("last1", gr.back() == T(1) ? 1 : 0).emit();
    }
    // dyadic grids with boundaries k/8 and canonical numbers j/2^10, incl. 0, k/B, the largest below 1 and exactly 1
    // all non-decreasing grids with 4 bins over k/8
    std::vector<std::vector<int>> grids;
    for (int a = 0; a <= 8; ++a) for (int b = a; b <= 8; ++b) for (int c = b; c <= 8; ++c) grids.push_back(std::vector<int>{0, a, b, c, 8});
    for (std::size_t gi = 0; gi != grids.size(); ++gi)
    {
        hep::vegas_pdf<T> pdf(1, 4);
        std::vector<int> gx(grids[gi]);
        for (int b = 1; b != 4; ++b) pdf.set_bin_left(0, (std::size_t) b, T(gx[(std::size_t) b]) / T(8));
        std::vector<long long> js{0, 1, 255, 256, 257, 511, 512, 513, 767, 768, 769, 1023};
        for (int k = 0; k != 3; ++k) js.push_back((long long) g.below(1024));
        for (long long j : js)
        {
            std::vector<T> rn{T(j) / T(1024)};
            std::vector<std::size_t> bin(1);
            T w = hep::vegas_icdf(pdf, rn, bin);
            vt::ev("Icdf").s("T", vt::type_name<T>::get()).a("gx", gx).i("j", j).i("D", 1024).i("bin", (long long) bin[0])
                .i("x", vt::is_exact_scaled(rn[0], 20) ? vt::exact_scaled(rn[0], 20) : -1).i("w", vt::is_exact_scaled(w, 10) ? vt::exact_scaled(w, 10) : -1).emit();
        }
        // the special values: largest below one, exactly one
        for (int sp = 0; sp != 2; ++sp)
        {
            T u = sp == 0 ? std::nextafter(T(1), T(0)) : T(1);
            std::vector<T> rn{u};
            std::vector<std::size_t> bin(1);
            T w = hep::vegas_icdf(pdf, rn, bin);
            T l = pdf.bin_left(0, 3), r = pdf.bin_left(0, 4);
            vt::ev("IcdfTop").s("T", vt::type_name<T>::get()).a("gx", gx).i("which", sp).i("bin", (long long) bin[0])
                .i("inside", (bin[0] < 4 && l <= rn[0] && rn[0] <= r) ? 1 : 0).i("w", vt::is_exact_scaled(w, 10) ? vt::exact_scaled(w, 10) : -1).emit();
        }
    }
}

static void zero_dimension_all(vt::rng& g) { zero_dimension_cases<float>(g); zero_dimension_cases<double>(g); zero_dimension_cases<long double>(g); }

int main(int argc, char** argv)
{
    if (argc < 4) return 2;
    vt::out().open(argv[1]);
    vt::install_abort_handler();
    vt::rng g(std::strtoull(argv[2], nullptr, 10));
    bool thorough = std::atoi(argv[3]) != 0;
    grid_cases<float>(2, g, thorough); grid_cases<double>(3, g, thorough); grid_cases<long double>(4, g, thorough);
    grid_cases<double>(2, g, thorough); grid_cases<float>(3, g, thorough);
    if (thorough) { grid_cases<long double>(3, g, true); grid_cases<float>(4, g, true); grid_cases<double>(4, g, true); }
    defaults_and_icdf<float>(g); defaults_and_icdf<double>(g); defaults_and_icdf<long double>(g);
    zero_dimension_all(g);
    subnormal_chain<float>(128, 1.0f, 7000, 30);
    chains<float>(g, thorough ? 40 : 8, thorough ? 200 : 40);
    chains<double>(g, thorough ? 40 : 8, thorough ? 200 : 40);
    chains<long double>(g, thorough ? 40 : 8, thorough ? 200 : 40);
    for (int run = 0; run != (thorough ? 24 : 6); ++run)
    {
        if (run == 0)
        {
            cancel_case<float>(8, 1.5f, 9000); cancel_case<double>(8, 1.5, 9001); cancel_case<long double>(16, 0.5L, 9002); cancel_case<double>(4, 3.0, 9003);
            highdim_points<float>(8, 128, false, g); highdim_points<float>(19, 128, false, g); highdim_points<float>(40, 128, false, g);
            highdim_points<float>(12, 8, true, g); highdim_points<double>(50, 128, false, g); highdim_points<double>(110, 1024, false, g);
            highdim_points<double>(160, 128, false, g); highdim_points<double>(100, 16, true, g); highdim_points<long double>(200, 512, false, g);
        }
        if (run % 3 == 0) real_run<float>(run, g, 6); else if (run % 3 == 1) real_run<double>(run, g, 6); else real_run<long double>(run, g, 6);
    }
    vt::out().close();
    return 0;
}
