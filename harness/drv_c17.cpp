// C17 driver: the integrand and the channel map are called under the documented protocol.
//   drv_c17 <out.ndjson> <seed> <thorough>
#include "vt_call.hpp"

#include <atomic>
#include <cstdlib>
#include <thread>

using namespace vt;

static std::vector<value_spec> make_plan(rng& g, std::size_t n)
{
    std::vector<value_spec> p(n);
    static char const* tags[3] = {"nan", "+inf", "-inf"};
    for (auto& v : p)
    {
        int k = (int) g.below(10);
        v.f = k < 5 ? 0 : (int) g.range(-2, 2);
        v.tag = g.below(8) == 0 ? tags[g.below(3)] : "fin";
        v.wreq = g.below(3) == 0;
    }
    return p;
}

// canonical numbers incl. the extremes 0 and the largest value below 1, bin boundaries k/B and their neighbours
static script_engine make_engine(rng& g, std::size_t len)
{
    std::vector<std::uint64_t> s;
    for (std::size_t i = 0; i != len; ++i)
    {
        int k = (int) g.below(12);
        if (k == 0) s.push_back(0);
        else if (k == 1) s.push_back(~0ULL);
        else if (k == 2) s.push_back(~0ULL - (1ULL << 10));
        else if (k == 3) s.push_back(dyadic(g.below(4), 2));             // exactly k/4
        else if (k == 4) s.push_back(dyadic(g.below(4), 2) + g.below(3)); // just above k/4
        else if (k == 5) s.push_back(dyadic(1 + g.below(3), 2) - 1 - g.below(3)); // just below k/4
        else s.push_back(g.next());
    }
    return script_engine(script_registry::add(s));
}

template <typename T>
static void family(rng& g, bool thorough, bool dists)
{
    std::vector<std::size_t> iters{1, 8, 40};
    if (thorough) iters.push_back(200);
    for (std::size_t d = 1; d <= 2; ++d)
    {
        call_ctx<T> c;
        c.cfg.kind = "plain";
        c.cfg.d = d;
        c.dists = dists;
        c.plan = make_plan(g, 83);
        run_plain<T>(c, make_engine(g, 199), iters);
    }
    for (int gi = 0; gi != 2; ++gi)
    {
        std::size_t d = 1 + (std::size_t) gi;
        hep::vegas_pdf<T> pdf(d, 4);
        for (std::size_t j = 0; j != d; ++j) { pdf.set_bin_left(j, 1, T(0.0625)); pdf.set_bin_left(j, 2, T(0.25)); pdf.set_bin_left(j, 3, T(0.5)); }
        call_ctx<T> c;
        c.cfg.kind = "vegas";
        c.dists = dists;
        c.plan = make_plan(g, 89);
        c.reload = gi == 1;
        run_vegas<T>(c, make_engine(g, 211), pdf, iters, T(1.5));   // later iterations use adapted grids
    }
    // a valid, extremely non-uniform grid in eight dimensions: points whose weight underflows to zero are still handed to the integrand
    {
        hep::vegas_pdf<T> pdf(8, 2);
        for (std::size_t j = 0; j != 8; ++j) pdf.set_bin_left(j, 1, std::ldexp(T(1), -(std::numeric_limits<T>::digits + 20)));
        std::vector<std::uint64_t> sc;
        for (int call = 0; call != 15; ++call)
            for (int j = 0; j != 8; ++j) sc.push_back(call % 3 == 0 ? dyadic(1, 2) : (g.below(2) ? dyadic(1, 2) : dyadic(3, 2)));
        call_ctx<T> c;
        c.cfg.kind = "vegas";
        c.dists = dists;
        c.plan = make_plan(g, 31);
        run_vegas<T>(c, script_engine(script_registry::add(sc)), pdf, std::vector<std::size_t>{15}, T(1.5));
    }
    // a user grid with empty bins (both ends equal) and a bin that is one unit in the last place wide: its points are still inside it
    {
        hep::vegas_pdf<T> pdf(2, 8);
        for (std::size_t j = 0; j != 2; ++j)
        {
            T const lefts[7] = {T(0.1), T(0.1), T(0.2), std::nextafter(T(0.2), T(1)), T(0.45), T(0.45), T(0.9)};
            for (std::size_t b = 1; b != 8; ++b) pdf.set_bin_left(j, b, lefts[b - 1]);
        }
        std::vector<std::uint64_t> sc;
        for (int i = 0; i != 640; ++i) sc.push_back(g.next());
        call_ctx<T> c;
        c.cfg.kind = "vegas";
        c.dists = dists;
        c.plan = make_plan(g, 31);
        run_vegas<T>(c, script_engine(script_registry::add(sc)), pdf, std::vector<std::size_t>{300}, T(1.5));
    }
    // (families 4..6: weights that are not dyadic, followed by disabled channels: the partial sums are rounded, the selector's
    //  largest value below one must still end up in the last *enabled* channel)
    for (int fam = 0; fam != 8; ++fam)
    {
        std::vector<T> w = fam == 0 ? std::vector<T>{T(2), T(1), T(1), T(0)}
            : (fam == 1 ? std::vector<T>{T(1), T(1)} : (fam == 2 ? std::vector<T>{T(0), T(0), T(3), T(0), T(1)} : (fam == 3 ? std::vector<T>{T(1)}
            : (fam == 4 ? std::vector<T>{T(0.7), T(0.2), T(0.1), T(0)} : (fam == 5 ? std::vector<T>{T(0.1), T(0.2), T(0.3), T(0.4), T(0), T(0)}
            : (fam == 6 ? std::vector<T>{T(1), T(0), T(1), T(1), T(0)}
            // (family 7: a channel whose weight is tiny, but not zero, is an enabled channel)
            : std::vector<T>{std::numeric_limits<T>::epsilon() / T(4), T(0), T(1), T(1)}))))));
        call_ctx<T> c;
        c.cfg.kind = "mc";
        c.cfg.d = 1 + (std::size_t) (fam % 2);
        c.cfg.densfam = fam % 3;
        c.dists = dists;
        c.plan = make_plan(g, 97);
        c.md0 = fam == 1; // a map without coordinates is still asked for them (it is told the channel and the random numbers that way)
        c.nested = fam == 2 || fam == 4; // the integrand computes a nested integral with the same integrator and numeric type
        run_mc<T>(c, make_engine(g, 223), w, iters);
    }
    // several iterations in one call of the driver; the first channel never contributes and is switched off by the refinement after the first
    // iteration (minimum weight zero): from then on it is neither selected nor listed as enabled
    {
        call_ctx<T> c;
        c.cfg.kind = "mc";
        c.cfg.d = 1;
        c.cfg.densfam = 3;
        c.plan = make_plan(g, 53);
        for (auto& v : c.plan) { if (v.f == 0) v.f = 1; v.tag = "fin"; v.wreq = true; }
        run_mc_multi<T>(c, make_engine(g, 311), std::vector<T>{T(1), T(1), T(2)}, std::vector<std::size_t>{30, 20, 20});
    }
}

// two integrations of the same instantiation at the same time in two threads of one process: each is, event for event, what it is alone
// (the events of each thread are collected and written one run after the other)
template <typename T>
static void concurrent_family(rng& g)
{
    for (int kind = 0; kind != 2; ++kind)
    {
        std::vector<std::string> buf[2];
        call_ctx<T> c[2];
        script_engine e[2] = {make_engine(g, 223), make_engine(g, 223)};
        hep::vegas_pdf<T> pdf(1, 4);
        pdf.set_bin_left(0, 1, T(0.0625)); pdf.set_bin_left(0, 2, T(0.25)); pdf.set_bin_left(0, 3, T(0.5));
        std::vector<T> const w{T(2), T(1), T(1), T(0)};
        std::vector<std::size_t> const iters{40, 40, 40};
        for (int i = 0; i != 2; ++i)
        {
            c[i].cfg.kind = kind ? "mc" : "vegas";
            c[i].cfg.d = 1;
            c[i].cfg.densfam = 0;
            c[i].plan = make_plan(g, 97);
        }
        std::atomic<int> ready{0};
        auto body = [&](int i) {
            vt::sink::capture() = &buf[i];
            ++ready;
            while (ready.load() < 2) std::this_thread::yield();
            if (kind) run_mc<T>(c[i], e[i], w, iters); else run_vegas<T>(c[i], e[i], pdf, iters, T(1.5));
            vt::sink::capture() = nullptr;
        };
        std::thread t0(body, 0), t1(body, 1);
        t0.join(); t1.join();
        for (int i = 0; i != 2; ++i) for (auto const& line : buf[i]) out().write(line);
    }
}

// random weight vectors that end with disabled channels, every random number the largest value below one
template <typename T>
static void top_family(rng& g, int count)
{
    for (int k = 0; k != count; ++k)
    {
        std::size_t n = 3 + g.below(4), off = 1 + g.below(2);
        std::vector<T> w(n, T());
        for (std::size_t i = 0; i + off < n; ++i) w[i] = T(1 + g.below(999)) / T(1000);
        if (g.below(3) == 0) w[0] = T();
        if (w[1] == T() && w[0] == T()) w[1] = T(0.3);
        call_ctx<T> c;
        c.cfg.kind = "mc";
        c.cfg.d = 1;
        c.cfg.densfam = 0;
        c.plan = make_plan(g, 7);
        std::vector<std::uint64_t> sc(64, ~0ULL);
        for (std::size_t i = 0; i < sc.size(); i += 8) sc[i] = ~0ULL - (1ULL << (10 + g.below(3)));
        run_mc<T>(c, script_engine(script_registry::add(sc)), w, std::vector<std::size_t>{3, 3});
    }
}

int main(int argc, char** argv)
{
    if (argc < 4) return 2;
    out().open(argv[1]);
    install_abort_handler();
    rng g(std::strtoull(argv[2], nullptr, 10));
    bool thorough = std::atoi(argv[3]) != 0;
    family<float>(g, thorough, true);
    family<double>(g, thorough, false);
    family<long double>(g, thorough, true);
    top_family<float>(g, thorough ? 120 : 30); top_family<double>(g, thorough ? 120 : 30); top_family<long double>(g, thorough ? 120 : 30);
    concurrent_family<double>(g); concurrent_family<float>(g);
    if (thorough) { family<float>(g, true, false); family<double>(g, true, true); family<long double>(g, true, false); }
    out().close();
    return 0;
}
