// C13 driver: combining results.  Sequences of results with exactly representable estimates and
// errors are combined by the library; the outputs are logged scaled for comparison with the exact
// rationals of spec/Combine.tla.
//   drv_c13 <out.ndjson> <seed> <thorough>
#include "hep/mc.hpp"
#include "vt_trace.hpp"

#include <atomic>
#include <cmath>
#include <cstdlib>
#include <thread>
#include <vector>

using namespace vt;

struct rdesc { long long N, nz, fin, e4, vn, vd; }; // estimate = e4 / 4, variance = vn / vd (error = sqrt exactly representable)

static std::vector<long long> flat(std::vector<rdesc> const& rs)
{
    std::vector<long long> f;
    for (auto const& r : rs) { f.push_back(r.N); f.push_back(r.nz); f.push_back(r.fin); f.push_back(r.e4); f.push_back(r.vn); f.push_back(r.vd); }
    return f;
}

template <typename T> static hep::mc_result<T> make(rdesc const& r, int k)
{
    T value = std::ldexp(T(r.e4) / T(4), k);
    T error = std::ldexp(std::sqrt(T(r.vn) / T(r.vd)), k);
    return hep::create_result<T>((std::size_t) r.N, (std::size_t) r.nz, (std::size_t) r.fin, value, error);
}

static int const SC = 20;
template <typename T> static std::vector<long long> project(hep::mc_result<T> const& c, int k)
{
    // undo the dyadic scaling exactly, then floor(x * 2^20); variance = error^2
    T e = std::ldexp(c.value(), -k);
    T v = std::ldexp(c.variance(), -2 * k);
    bool fin = std::isfinite(e) && std::isfinite(v);
    return std::vector<long long>{(long long) c.calls(), (long long) c.non_zero_calls(), (long long) c.finite_calls(), fin ? mono_scaled(e, SC) : -999999999,
        fin ? mono_scaled(v, SC) : -999999999};
}

static rdesc pick(rng& g)
{
    static long long const es[7] = {-8, -4, 0, 2, 4, 6, 8};            // -2 .. 2 in halves / quarters
    // (the last three: errors 1/3, 2/3, 1/5 - weights that are not round numbers, so that every sum of the combination is rounded)
    static long long const vs[7][2] = {{1, 1}, {1, 4}, {4, 1}, {1, 1}, {1, 9}, {4, 9}, {1, 25}};
    rdesc r;
    r.N = 2 + (long long) g.below(7);
    int z = (int) g.below(6);
    r.nz = z == 0 ? 0 : (z == 1 ? 1 : r.N - (long long) g.below(2));
    // some of the non-zero evaluations were not finite: the two counters differ (and are summed separately)
    r.fin = r.nz > 1 && g.below(3) == 0 ? r.nz - 1 - (long long) g.below((unsigned long long) (r.nz - 1)) : r.nz;
    r.e4 = es[g.below(7)];
    int v = (int) g.below(7);
    r.vn = vs[v][0]; r.vd = vs[v][1];
    if (r.nz == 0) { r.e4 = 0; r.vn = 0; r.vd = 1; } // a result without information is genuinely empty: sum = sumsq = 0
    // now and then the result of an iteration without any calls (its own estimate is 0 / 0; the variance-weighted combination ignores it)
    if (r.nz == 0 && g.below(3) == 0) { r.N = 0; r.fin = 0; }
    return r;
}

template <typename T> static void seq_case(std::vector<rdesc> const& rs, int k)
{
    std::vector<hep::mc_result<T>> v;
    for (auto const& r : rs) v.push_back(make<T>(r, k));
    auto wv = hep::accumulate<hep::weighted_with_variance>(v.begin(), v.end());
    auto we = hep::accumulate<hep::weighted_equally>(v.begin(), v.end());
    T chi = hep::chi_square_dof<hep::weighted_with_variance>(v.begin(), v.end());
    ev("Comb").s("T", type_name<T>::get()).i("k", k).i("m", (long long) rs.size()).a("rs", flat(rs)).a("wv", project(wv, k)).a("we", project(we, k))
        .s("chiTag", std::isinf(chi) ? "inf" : (std::isnan(chi) ? "nan" : "fin")).i("chi", std::isfinite(chi) ? mono_scaled(chi, 12) : 0).emit();
}

// results with distributions: every bin is combined independently
template <typename T> static void dist_case(rng& g, int m, int k)
{
    // distribution 0: 3 bins (1-d), distribution 1: 2 x 2 bins
    std::vector<std::vector<rdesc>> bins(7), dummy;
    std::vector<rdesc> heads;
    std::vector<hep::plain_result<T>> results;
    for (int i = 0; i != m; ++i)
    {
        rdesc h = pick(g);
        heads.push_back(h);
        std::vector<hep::mc_result<T>> b0, b1;
        for (int b = 0; b != 7; ++b)
        {
            rdesc r = pick(g);
            r.N = h.N; if (r.nz > r.N) r.nz = r.N; if (r.fin > r.nz) r.fin = r.nz;
            bins[(std::size_t) b].push_back(r);
            (b < 3 ? b0 : b1).push_back(make<T>(r, k));
        }
        std::vector<hep::distribution_result<T>> ds;
        ds.emplace_back(hep::make_dist_params<T>(3, T(), T(1), "a"), b0);
        ds.emplace_back(hep::distribution_parameters<T>(2, 2, T(), T(1), T(), T(1), "b"), b1);
        auto hm = make<T>(h, k);
        results.emplace_back(ds, hm.calls(), hm.non_zero_calls(), hm.finite_calls(), hm.sum(), hm.sum_of_squares());
    }
    for (int which = 0; which != 2; ++which)
    {
        hep::plain_result<T> c = which == 0 ? hep::accumulate<hep::weighted_with_variance>(results.begin(), results.end())
                                            : hep::accumulate<hep::weighted_equally>(results.begin(), results.end());
        ev("CombHead").s("T", type_name<T>::get()).i("k", k).i("which", which).i("m", m).a("rs", flat(heads)).a("out", project<T>(c, k))
            .i("ndist", (long long) c.distributions().size())
            .i("nbins0", c.distributions().size() > 0 ? (long long) c.distributions()[0].results().size() : -1)
            .i("nbins1", c.distributions().size() > 1 ? (long long) c.distributions()[1].results().size() : -1).emit();
        for (std::size_t d = 0; d != c.distributions().size(); ++d)
            for (std::size_t b = 0; b != c.distributions()[d].results().size(); ++b)
            {
                std::size_t fb = d == 0 ? b : 3 + b;
                if (fb >= 7) continue;
                ev("CombBin").s("T", type_name<T>::get()).i("k", k).i("which", which).i("dist", (long long) d).i("bin", (long long) b)
                    .a("rs", flat(bins[fb])).a("out", project<T>(c.distributions()[d].results()[b], k)).emit();
            }
    }
}

// results of very long runs: more than 2^32 calls each (counters as 20-bit limbs; the combination by variance does not depend on them)
template <typename T> static void big_case(rng& g)
{
    int m = 1 + (int) g.below(3);
    std::vector<rdesc> rs;
    std::vector<hep::mc_result<T>> v;
    std::string Ns = "[";
    unsigned long long total = 0;
    for (int j = 0; j != m; ++j)
    {
        rdesc r = pick(g);
        if (r.nz == 0) { r.nz = 1; r.e4 = 2; r.vn = 1; r.vd = 1; }
        unsigned long long N = (1ULL << (32 + g.below(3))) + g.below(1000000);
        total += N;
        T value = T(r.e4) / T(4);
        T error = std::sqrt(T(r.vn) / T(r.vd));
        v.push_back(hep::create_result<T>((std::size_t) N, (std::size_t) N, (std::size_t) N, value, error));
        r.N = 2; r.nz = 2; r.fin = 2; // placeholders for the specification's record (the estimate does not depend on them)
        rs.push_back(r);
        Ns += std::string(j ? "," : "") + "[" + std::to_string(N >> 20) + "," + std::to_string(N & ((1ULL << 20) - 1)) + "]";
    }
    Ns += "]";
    auto wv = hep::accumulate<hep::weighted_with_variance>(v.begin(), v.end());
    unsigned long long oc = wv.calls(), onz = wv.non_zero_calls(), ofin = wv.finite_calls();
    std::vector<long long> pr = project(wv, 0);
    ev("CombBig").s("T", type_name<T>::get()).i("m", m).a("rs", flat(rs)).raw("Ns", Ns)
        .a("outN", std::vector<long long>{(long long) (oc >> 20), (long long) (oc & ((1ULL << 20) - 1))})
        .i("sameCounters", (onz == oc && ofin == oc) ? 1 : 0).i("E", pr[3]).i("V", pr[4]).emit();
}

template <typename T> static void family(rng& g, bool thorough)
{
    static int const ks[3] = {0, -40, 40};
    int n = thorough ? 1500 : 300;
    for (int i = 0; i != n; ++i)
    {
        int m = (int) g.below(5);
        std::vector<rdesc> rs;
        for (int j = 0; j != m; ++j) rs.push_back(pick(g));
        int k = ks[g.below(3)];
        if (sizeof(T) == 4 && k != 0) k = k / 4; // float: keep value^2 * N inside the exponent range
        seq_case<T>(rs, k);
        // every rotation must give the same combination (order independence is also checked by the spec's exact value)
        if (m >= 2 && i % 4 == 0) { std::vector<rdesc> rot(rs.begin() + 1, rs.end()); rot.push_back(rs[0]); seq_case<T>(rot, k); }
    }
    for (int i = 0; i != (thorough ? 100 : 25); ++i) big_case<T>(g);
    for (int i = 0; i != (thorough ? 60 : 12); ++i) dist_case<T>(g, (int) g.below(4), sizeof(T) == 4 ? 0 : ks[g.below(3)]);
}

// two threads of one process combine results with distributions of the same numeric type at the same time: every combination is what it is alone
// (the events of each thread are collected and written one thread after the other)
template <typename T> static void concurrent_family(rng& g, int cases)
{
    std::vector<std::string> buf[2];
    unsigned long long seeds[2] = {g.next(), g.next()};
    std::atomic<int> ready{0}, arrive{0};
    auto body = [&](int i) {
        rng local(seeds[i]);
        vt::sink::capture() = &buf[i];
        ++ready;
        while (ready.load() < 2) std::this_thread::yield();
        // (both threads start every case together, so that the combinations really overlap)
        for (int k = 0; k != cases; ++k)
        {
            ++arrive;
            while (arrive.load() < 2 * (k + 1)) std::this_thread::yield();
            dist_case<T>(local, 2 + (int) local.below(2), 0);
        }
        vt::sink::capture() = nullptr;
    };
    std::thread t0(body, 0), t1(body, 1);
    t0.join(); t1.join();
    for (int i = 0; i != 2; ++i) for (auto const& line : buf[i]) out().write(line);
}

int main(int argc, char** argv)
{
    if (argc < 4) return 2;
    out().open(argv[1]);
    install_abort_handler();
    rng g(std::strtoull(argv[2], nullptr, 10));
    bool thorough = std::atoi(argv[3]) != 0;
    family<double>(g, thorough);
    family<float>(g, thorough);
    family<long double>(g, thorough);
    concurrent_family<double>(g, thorough ? 200 : 60);
    out().close();
    return 0;
}
