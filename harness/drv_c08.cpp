// C08 driver: channel-weight refinement.
//   drv_c08 <out.ndjson> <seed> <thorough>
#include "hep/mc.hpp"
#include "vt_engines.hpp"
#include "vt_trace.hpp"

#include <cmath>
#include <cstdlib>
#include <limits>
#include <vector>

static int const SC = 20;

template <typename T> static std::vector<long long> scaled(std::vector<T> const& v)
{
    std::vector<long long> r;
    for (T x : v) r.push_back(std::isfinite(x) ? vt::mono_scaled(x, SC) : -1000000000LL);
    return r;
}
// |sum of the weights - 1| in units of the epsilon of T, the sum taken with 113 bits
template <typename T> static long long sum_dev_eps(std::vector<T> const& v)
{
    __float128 s = 0;
    for (T x : v) { if (!std::isfinite(x)) return 999999999; s += (__float128) x; }
    __float128 d = s - 1;
    if (d < 0) d = -d;
    long double q = (long double) (d / (__float128) std::numeric_limits<T>::epsilon());
    return q > 1e9L ? 999999999 : (long long) std::ceil(q);
}
template <typename T> static std::vector<long long> zeros(std::vector<T> const& v)
{
    std::vector<long long> r;
    for (T x : v) r.push_back(x == T() ? 1 : 0);
    return r;
}
template <typename T> static bool all_finite(std::vector<T> const& v)
{
    for (T x : v) if (!std::isfinite(x)) return false;
    return true;
}

// exhaustive small cases with exactly representable data: data = r^(1/beta)
template <typename T>
static void cases(int n, int betaInv, bool normalised, vt::rng& g, bool thorough)
{
    long total = 1;
    for (int k = 0; k != 2 * n; ++k) total *= 4;
    static int const mins[3][2] = {{0, 1}, {1, 10}, {1, 5}};
    for (long code = 0; code != total; ++code)
    {
        if (n == 4 && g.below(thorough ? 3 : 8) != 0) continue;
        std::vector<int> w, r;
        long c = code;
        for (int k = 0; k != n; ++k) { w.push_back((int) (c % 4)); c /= 4; }
        for (int k = 0; k != n; ++k) { r.push_back((int) (c % 4)); c /= 4; }
        int S = 0;
        for (int x : w) S += x;
        if (S == 0) continue;
        for (int mi = 0; mi != 3; ++mi)
        {
            if (mins[mi][0] * n >= mins[mi][1]) continue; // minimum weight must be < 1/n
            if (!thorough && g.below(3) != 0) continue;
            std::vector<T> wt, dt;
            for (int x : w) wt.push_back(normalised ? T(x) / T(S) : T(x));
            // data = r^(1/beta), times an exact power of two 2^(e/beta): the result must not depend on e
            int e = (int) g.below(3) * 30 - 30;
            for (int x : r) { T d = T(x); for (int k = 1; k < betaInv; ++k) d *= T(x); dt.push_back(std::ldexp(d, e * (betaInv ? betaInv : 1))); }
            T m = T(mins[mi][0]) / T(mins[mi][1]);
            // betaInv = 0 stands for beta = 0: datum^0 = 1 whatever the datum (pow(0, 0) = 1 as well), i.e. the weights are normalised and clamped
            auto v = hep::multi_channel_refine_weights(wt, dt, m, betaInv ? T(1) / T(betaInv) : T());
            if (betaInv == 0) r.assign(r.size(), 1);
            vt::ev("RefCase").s("T", vt::type_name<T>::get()).i("betaInv", betaInv).i("norm", normalised ? 1 : 0)
                .a("w", w).a("r", r).i("mn", mins[mi][0]).i("md", mins[mi][1]).i("dexp", e * betaInv).a("v", scaled(v)).a("zero", zeros(v))
                .i("fin", all_finite(v) ? 1 : 0).i("inId", vt::ids().id(vt::hexvec(wt))).i("outId", vt::ids().id(vt::hexvec(v)))
                .emit();
        }
    }
}

// initial normalisation through the checkpoint
template <typename T>
static void init_cases(int n, vt::rng& g)
{
    long total = 1;
    for (int k = 0; k != n; ++k) total *= 4;
    static int const mins[3][2] = {{0, 1}, {1, 10}, {1, 5}};
    for (long code = 1; code != total; ++code)
    {
        std::vector<int> w;
        long c = code;
        for (int k = 0; k != n; ++k) { w.push_back((int) (c % 4)); c /= 4; }
        int mi = (int) g.below(3);
        if (mins[mi][0] * n >= mins[mi][1]) mi = 0;
        long double scale = g.below(2) ? 1.0L : 0.125L;
        std::vector<T> wt;
        for (int x : w) wt.push_back((T) (x * scale));
        T m = T(mins[mi][0]) / T(mins[mi][1]);
        // (the exponent does not enter the initial normalisation)
        static double const betas[4] = {0.25, 0.0, 1.0, 0.5};
        auto chk = hep::make_multi_channel_chkpt<T>(wt, m, T(betas[g.below(4)]));
        chk.channels((std::size_t) n);
        auto v = chk.channel_weights();
        vt::ev("InitCase").s("T", vt::type_name<T>::get()).a("w", w).i("mn", mins[mi][0]).i("md", mins[mi][1])
            .a("v", scaled(v)).a("zero", zeros(v)).i("fin", all_finite(v) ? 1 : 0).i("sumEps", sum_dev_eps(v)).emit();
    }
    // default: uniform
    auto chk = hep::make_multi_channel_chkpt<T>();
    chk.channels((std::size_t) n);
    auto v = chk.channel_weights();
    vt::ev("InitCase").s("T", vt::type_name<T>::get()).a("w", std::vector<int>((std::size_t) n, 1)).i("mn", 0).i("md", 1)
        .a("v", scaled(v)).a("zero", zeros(v)).i("fin", all_finite(v) ? 1 : 0).i("sumEps", sum_dev_eps(v)).emit();
    // ... also for channel counts that are not powers of two (1 / n is rounded in T, not in a narrower type)
    if (n == 4)
        for (int m : {5, 6, 7, 10, 11, 12})
        {
            auto c2 = hep::make_multi_channel_chkpt<T>();
            c2.channels((std::size_t) m);
            auto v2 = c2.channel_weights();
            vt::ev("InitCase").s("T", vt::type_name<T>::get()).a("w", std::vector<int>((std::size_t) m, 1)).i("mn", 0).i("md", 1)
                .a("v", scaled(v2)).a("zero", zeros(v2)).i("fin", all_finite(v2) ? 1 : 0).i("sumEps", sum_dev_eps(v2)).emit();
        }
}

// arbitrary beta / data / minimum: invariants only
template <typename T>
static void any_cases(int count, vt::rng& g)
{
    for (int k = 0; k != count; ++k)
    {
        int n = (int) g.range(1, 12);
        std::vector<T> w, d;
        T s = T();
        for (int i = 0; i != n; ++i) { T x = g.below(4) == 0 ? T() : T(g.range(1, 1000)) / T(1000); w.push_back(x); s += x; }
        if (s == T()) { w[0] = T(1); s = T(1); }
        for (T& x : w) x /= s;
        int fam = (int) g.below(5);
        for (int i = 0; i != n; ++i)
        {
            T x;
            if (fam == 0) x = T();
            else if (fam == 1) x = (i == (int) (k % n)) ? T(3.5) : T();
            else if (fam == 2) x = std::ldexp(T(g.range(1, 1000)), (int) g.range(-60, 60));
            else x = g.below(3) == 0 ? T() : T(g.range(1, 100000)) / T(7);
            d.push_back(x);
        }
        T beta = fam == 3 ? T(1) : T(g.range(1, 100)) / T(100);
        T m = g.below(3) == 0 ? T() : (T(g.range(0, 99)) / T(100)) / T(n);
        auto v = hep::multi_channel_refine_weights(w, d, m, beta);
        bool dz = true, pz = true;
        for (int i = 0; i != n; ++i) { dz = dz && d[i] == T(); pz = pz && (w[i] == T() || d[i] == T()); }
        // floor = m / (1 + n m), scaled
        T fl = m / (T(1) + T(n) * m);
        std::vector<long long> positive;
        for (int i = 0; i != n; ++i) positive.push_back((w[i] != T() && d[i] != T()) ? 1 : 0);
        T sum = T();
        for (T x : v) sum += x;
        vt::ev("RefAny").s("T", vt::type_name<T>::get()).i("n", n).a("v", scaled(v)).a("zeroIn", zeros(w)).a("zeroOut", zeros(v))
            .a("positive", positive).i("fin", all_finite(v) ? 1 : 0).i("sum", std::isfinite(sum) ? vt::mono_scaled(sum, SC) : -1).i("sumEps", sum_dev_eps(v))
            .i("floor", vt::mono_scaled(fl, SC)).i("noInfo", pz ? 1 : 0)
            .i("inId", vt::ids().id(vt::hexvec(w))).i("outId", vt::ids().id(vt::hexvec(v))).emit();
    }
}

// real adaptive runs: weights used by every iteration
template <typename T>
static void real_run(int run, vt::rng& g)
{
    int const n = 3;
    long calls_done = 0;
    long N = 200;
    int zero_iter = (int) g.range(1, 4);
    int variant = (int) g.below(3);
    auto map = [](std::size_t ch, std::vector<T> const& r, std::vector<T>& c, std::vector<std::size_t> const&,
        std::vector<T>& d, hep::multi_channel_map action) {
        T u = r[0];
        if (action == hep::multi_channel_map::calculate_coordinates)
        {
            c[0] = ch == 0 ? u : (ch == 1 ? u * u : std::sqrt(u));
            return T(1);
        }
        T x = c[0];
        d[0] = T(1);
        d[1] = x > T() ? T(0.5) / std::sqrt(x) : T(1e10);
        d[2] = T(2) * x;
        // a region that the integrand cuts away and in which the map has nothing to report: all densities vanish there
        if (x < T(0.03)) { d[0] = T(); d[1] = T(); d[2] = T(); }
        return T(1);
    };
    long poison_call = (run % 2 == 1 || run % 3 == 0) ? (long) g.range(0, 5 * N) : -1; // one evaluation is -inf, +inf or NaN in most runs
    auto fn = [&](hep::multi_channel_point<T> const& p) {
        long it = calls_done / N;
        if (calls_done++ == poison_call) return run % 3 == 0 ? -std::numeric_limits<T>::infinity() : (run % 3 == 1 ? std::numeric_limits<T>::infinity() : std::numeric_limits<T>::quiet_NaN());
        if (it == zero_iter) return T();
        T x = p.coordinates()[0];
        if (x < T(0.03)) return T();
        return variant == 0 ? x * x : (variant == 1 ? T(1) / (T(0.01) + x) : std::exp(-T(50) * (x - T(0.3)) * (x - T(0.3))));
    };
    std::vector<T> w0{T(g.range(0, 3)), T(g.range(1, 3)), T(g.range(0, 3))};
    if (run % 3 == 0) w0 = std::vector<T>{T(1), T(1), T(1)};
    T m = (run % 2) ? T() : T(g.range(1, 30)) / T(100);
    T beta = T(g.range(10, 100)) / T(100);
    // every other run fills a distribution (the accumulator specialisation with distributions is a different code path)
    auto fnd = [&](hep::multi_channel_point<T> const& p, hep::projector<T>& pr) { T v = fn(p); pr.add(0, p.coordinates()[0], T(1)); return v; };
    auto chk = hep::make_multi_channel_chkpt<T>(w0, m, beta);
    using C = decltype(chk);
    auto res = (run % 2) ? hep::multi_channel(hep::make_multi_channel_integrand<T>(fnd, 1, map, 1, n, hep::make_dist_params<T>(4, T(), T(1), "x")),
                               std::vector<std::size_t>(6, (std::size_t) N), chk, hep::callback<C>(hep::callback_mode::silent))
                         : hep::multi_channel(hep::make_multi_channel_integrand<T>(fn, 1, map, 1, n), std::vector<std::size_t>(6, (std::size_t) N), chk,
                               hep::callback<C>(hep::callback_mode::silent));
    T fl = m / (T(1) + T(n) * m);
    long prevId = 0;
    for (std::size_t k = 0; k != res.results().size(); ++k)
    {
        auto const& r = res.results()[k];
        auto const& v = r.channel_weights();
        bool dz = true;
        for (T x : r.adjustment_data()) dz = dz && x == T();
        long id = vt::ids().id(vt::hexvec(v));
        T sum = T();
        for (T x : v) sum += x;
        std::vector<long long> dpos;
        for (T x : r.adjustment_data()) dpos.push_back(x > T() ? 1 : 0);
        vt::ev("RunWeights").s("T", vt::type_name<T>::get()).i("run", run).i("k", (long long) k).a("v", scaled(v)).a("zeroOut", zeros(v))
            .i("fin", all_finite(v) && all_finite(r.adjustment_data()) ? 1 : 0).i("sum", vt::mono_scaled(sum, SC)).i("sumEps", sum_dev_eps(v)).i("floor", vt::mono_scaled(fl, SC))
            .i("dataAllZero", dz ? 1 : 0).a("dataPos", dpos).i("prevId", prevId).i("id", id).emit();
        prevId = id;
        // the weights of the next iteration (resp. those the checkpoint proposes after the last one) are the refinement of this result
        auto const& next = k + 1 != res.results().size() ? res.results()[k + 1].channel_weights() : res.channel_weights();
        vt::ev("NextWeights").i("run", run).i("k", (long long) k).i("usedId", vt::ids().id(vt::hexvec(next)))
            .i("refId", vt::ids().id(vt::hexvec(hep::multi_channel_refine_weights(v, r.adjustment_data(), m, beta)))).emit();
    }
}

// an iteration whose values cancel exactly (estimate 0) although its squares do not vanish: the weights are refined like after any other.
// Two channels with densities 3/2, 1/2 on the lower and 1/2, 3/2 on the upper half: with weights 1/2, 1/2 every point has weight 1.
template <typename T>
static void cancel_run(int run, vt::rng& g)
{
    long calls = 0;
    auto map = [](std::size_t ch, std::vector<T> const& r, std::vector<T>& c, std::vector<std::size_t> const&, std::vector<T>& d, hep::multi_channel_map) {
        T u = r[0];
        // inverse CDFs of the two piecewise constant densities
        if (ch == 0) c[0] = u < T(0.75) ? u / T(1.5) : T(0.5) + (u - T(0.75)) / T(0.5);
        else c[0] = u < T(0.25) ? u / T(0.5) : T(0.5) + (u - T(0.25)) / T(1.5);
        bool lower = c[0] < T(0.5);
        d[0] = lower ? T(1.5) : T(0.5);
        d[1] = lower ? T(0.5) : T(1.5);
        return T(1);
    };
    auto fn = [&](hep::multi_channel_point<T> const& p) { return (calls++ % 2 ? T(-1) : T(1)) * (p.coordinates()[0] < T(0.5) ? T(2) : T(1)); };
    T m = T(), beta = T(g.range(25, 100)) / T(100);
    auto chk = hep::make_multi_channel_chkpt<T>(std::vector<T>{T(1), T(1)}, m, beta);
    using C = decltype(chk);
    // values +-2 / +-1 alternate in sign call by call: they cancel exactly when both halves receive an even number of ... not in general -
    // so the number of calls is searched for which the sum is exactly zero
    for (std::size_t N = 40; N != 400; N += 2)
    {
        calls = 0;
        auto res = hep::multi_channel(hep::make_multi_channel_integrand<T>(fn, 1, map, 1, 2), std::vector<std::size_t>{N}, chk, hep::callback<C>(hep::callback_mode::silent));
        auto const& r = res.results().back();
        if (r.sum() != T() || r.adjustment_data()[0] == r.adjustment_data()[1]) continue;
        auto ref = hep::multi_channel_refine_weights(r.channel_weights(), r.adjustment_data(), m, beta);
        vt::ev("NextWeights").i("run", run).i("k", 0).i("usedId", vt::ids().id(vt::hexvec(res.channel_weights()))).i("refId", vt::ids().id(vt::hexvec(ref)))
            .i("sumZero", 1).i("moved", vt::ids().id(vt::hexvec(ref)) != vt::ids().id(vt::hexvec(r.channel_weights())) ? 1 : 0).emit();
        return;
    }
    vt::ev("NextWeights").i("run", run).i("k", 0).i("usedId", 0).i("refId", 0).i("sumZero", 0).i("moved", 0).emit(); // no cancelling sample found
}

// channels with identical densities: the adjustment data of all channels are equal in every iteration, the refinement still raises the
// channels below the minimum weight and normalises again - the weights keep moving towards their fixed point
template <typename T>
static void flat_run(int run, T w_small, T m, T beta)
{
    auto map = [](std::size_t, std::vector<T> const& r, std::vector<T>& c, std::vector<std::size_t> const&, std::vector<T>& d, hep::multi_channel_map) {
        c[0] = r[0];
        d[0] = T(1);
        d[1] = T(1);
        return T(1);
    };
    auto fn = [](hep::multi_channel_point<T> const& p) { return T(1) + p.coordinates()[0]; };
    auto chk = hep::make_multi_channel_chkpt<T>(std::vector<T>{w_small, T(1) - w_small}, m, beta);
    using C = decltype(chk);
    auto res = hep::multi_channel(hep::make_multi_channel_integrand<T>(fn, 1, map, 1, 2), std::vector<std::size_t>(4, 100), chk, hep::callback<C>(hep::callback_mode::silent));
    for (std::size_t k = 0; k != res.results().size(); ++k)
    {
        auto const& r = res.results()[k];
        auto const& next = k + 1 != res.results().size() ? res.results()[k + 1].channel_weights() : res.channel_weights();
        vt::ev("NextWeights").i("run", run).i("k", (long long) k).i("usedId", vt::ids().id(vt::hexvec(next)))
            .i("refId", vt::ids().id(vt::hexvec(hep::multi_channel_refine_weights(r.channel_weights(), r.adjustment_data(), m, beta))))
            .i("dataEqual", r.adjustment_data()[0] == r.adjustment_data()[1] ? 1 : 0).emit();
    }
}

int main(int argc, char** argv)
{
    if (argc < 4) return 2;
    vt::out().open(argv[1]);
    vt::install_abort_handler();
    vt::rng g(std::strtoull(argv[2], nullptr, 10));
    bool thorough = std::atoi(argv[3]) != 0;
    for (int n = 1; n <= (thorough ? 4 : 3); ++n)
    {
        cases<double>(n, 1, false, g, thorough);
        cases<float>(n, 2, true, g, thorough);
        cases<long double>(n, 4, false, g, thorough);
        if (n <= 3) { cases<double>(n, 0, n % 2 == 0, g, thorough); if (thorough) { cases<float>(n, 0, false, g, true); cases<long double>(n, 0, true, g, true); } }
        if (thorough) { cases<float>(n, 1, false, g, thorough); cases<double>(n, 4, true, g, thorough); cases<long double>(n, 2, true, g, thorough); }
    }
    if (!thorough) { cases<double>(4, 2, true, g, false); }
    for (int n = 1; n <= 4; ++n) { init_cases<float>(n, g); init_cases<double>(n, g); init_cases<long double>(n, g); }
    any_cases<float>(thorough ? 600 : 150, g);
    any_cases<double>(thorough ? 600 : 150, g);
    any_cases<long double>(thorough ? 600 : 150, g);
    flat_run<float>(9100, 0.02f, 0.1f, 0.25f); flat_run<double>(9101, 0.02, 0.1, 0.25); flat_run<long double>(9102, 0.05L, 0.2L, 0.5L);
    cancel_run<float>(9000, g); cancel_run<double>(9001, g); cancel_run<long double>(9002, g);
    for (int run = 0; run != (thorough ? 30 : 9); ++run)
    {
        if (run % 3 == 0) real_run<float>(run, g); else if (run % 3 == 1) real_run<double>(run, g); else real_run<long double>(run, g);
    }
    vt::out().close();
    return 0;
}
