CONSTANTS MaxIter = 4  MaxOps = 5  CallsSet = {1, 2}
INIT Init
NEXT Next
INVARIANT Inv
