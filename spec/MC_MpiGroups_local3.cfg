CONSTANTS Sizes <- Sizes3 Need <- Need3 MaxIt = 4 Mode = "local"
SPECIFICATION Spec
INVARIANT Independent
INVARIANT InStep
PROPERTY Termination
