CONSTANTS P = 4  Plan <- ThePlan2  U = 2  SkipSecondOnEmpty = FALSE  PlanId = 2
INIT Init
NEXT Next
INVARIANT MpiInv
CHECK_DEADLOCK TRUE
