-------------------------------- MODULE Bins --------------------------------
(***************************************************************************)
(* Distribution binning (property C11).  All quantities are integers over  *)
(* a common scale: a binning is [bx, by, xmin, sx, ymin, sy] with sx, sy   *)
(* > 0 the bin sizes; a coordinate is <<"fin", n>> with n an integer on the *)
(* same scale, or <<"nan", 0>>, <<"+inf", 0>>, <<"-inf", 0>>, or a         *)
(* floating-point neighbour <<"lo", n>>, <<"hi", n>> of such an integer.    *)
(***************************************************************************)
EXTENDS Integers, Sequences, FiniteSets

\* <<"lo", n>> / <<"hi", n>>: the floating-point neighbour below / above n in the numeric type of the run.  It is within one rounding error
\* of n, so it is treated like n itself: next to an edge either adjacent bin is admissible (or none at the ends of the range) - but never a
\* bin further away, a bin of another distribution or a failure
IsTag(c) == c[1] \notin {"fin", "lo", "hi"}
Fin(n) == <<"fin", n>>
NoBin == -1

\* admissible 0-based bin indices along one axis: the bin whose half-open interval contains the
\* coordinate; exactly on an edge either adjacent bin (or, at the ends of the range, no bin)
Axis(c, min, size, bins) ==
    IF IsTag(c) THEN {NoBin}
    ELSE LET d == c[2] - min
             k == d \div size            \* floor, also for negative d
             onEdge == d % size = 0
             \* exactly on the lower end of the range nothing is rounded (x - min = 0): the first bin, not "none"
             cand == IF c[1] = "fin" /\ d = 0 THEN {0} ELSE IF onEdge THEN {k - 1, k} ELSE {k}
         IN {IF i >= 0 /\ i < bins THEN i ELSE NoBin : i \in cand}

\* strict half-open convention (what the separate integration with an indicator function means)
AxisStrict(c, min, size, bins) ==
    IF IsTag(c) THEN NoBin
    ELSE LET k == (c[2] - min) \div size IN IF k >= 0 /\ k < bins THEN k ELSE NoBin

\* admissible flat indices (x fastest, then y); NoBin = the value is dropped
BinOf(p, x, y) ==
    {IF ix = NoBin \/ iy = NoBin THEN NoBin ELSE iy * p.bx + ix :
        ix \in Axis(x, p.xmin, p.sx, p.bx), iy \in Axis(y, p.ymin, p.sy, p.by)}

\* one-dimensional binnings have a single y bin covering [0, 1): by = 1, ymin = 0, sy = scale
MidX2(p) == [f \in 1 .. p.bx * p.by |-> 2 * p.xmin + (2 * ((f - 1) % p.bx) + 1) * p.sx]   \* times two
MidY2(p) == [f \in 1 .. p.bx * p.by |-> 2 * p.ymin + (2 * ((f - 1) \div p.bx) + 1) * p.sy]

\* ---- accumulation of one iteration: per flat bin <<sum, sumsq>> of the filled values
Empty(p) == [f \in 0 .. p.bx * p.by - 1 |-> <<0, 0>>]
ISum(s) == LET F[i \in 0 .. Len(s)] == IF i = 0 THEN 0 ELSE F[i - 1] + s[i] IN F[Len(s)]
AddTo(acc, f, v) == IF f = NoBin THEN acc ELSE [acc EXCEPT ![f] = <<@[1] + v, @[2] + v * v>>]
=============================================================================
