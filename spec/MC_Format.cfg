INIT Init
NEXT Next
