CONSTANTS P = 10 MaxLen = 150 Algo = "kahan" Wide = FALSE
INIT Init
NEXT Next
INVARIANT ErrBound
