CONSTANTS P = 4 MaxLen = 9 Algo = "kahan" Wide = TRUE
INIT Init
NEXT Next
INVARIANT ErrBound
