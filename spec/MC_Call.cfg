CONSTANTS MaxCalls = 2
INIT Init
NEXT Next
INVARIANT Inv
INVARIANT DensWhenNeeded
