------------------------------ MODULE MC_Call ------------------------------
(* Exhaustive small-constant exploration of Call.tla: all iterations of up   *)
(* to MaxCalls calls, for the three integrators, with zero / finite /        *)
(* non-finite integrand values and weights, with and without the integrand   *)
(* asking for the weight.  A shadow accumulator accZ runs the same calls     *)
(* with every non-finite evaluation replaced by zero (C06).                  *)
EXTENDS Call, TLC
CONSTANTS MaxCalls

VARIABLES accZ, poisoned
vars == <<callVars, accZ, poisoned>>

Cfgs == {[kind |-> "plain", d |-> 2, k |-> 2, n |-> 0, w |-> <<>>, bins |-> 0, calls |-> c, noSq |-> FALSE] : c \in 0 .. MaxCalls}
   \cup {[kind |-> "vegas", d |-> 2, k |-> 1, n |-> 0, w |-> <<>>, bins |-> 2, calls |-> c, noSq |-> FALSE] : c \in 0 .. MaxCalls}
   \cup {[kind |-> "mc", d |-> 1, k |-> 2, n |-> 3, w |-> <<0, 1, 1>>, bins |-> 0, calls |-> c, noSq |-> FALSE] : c \in 0 .. MaxCalls}

Values == {<<"fin", 0>>, <<"fin", 1>>, <<"fin", -2>>, <<"nan", 0>>, <<"+inf", 0>>}
Weights == {<<"fin", 1>>, <<"fin", 2>>, <<"+inf", 0>>}

Init == /\ \E c \in Cfgs :
             /\ cfg = c /\ phase = "Idle" /\ pos = 0 /\ cur = NoCall
             /\ acc = [calls |-> 0, nz |-> 0, fin |-> 0, sum |-> 0, sumsq |-> 0, adj |-> ZeroAdj(c), exact |-> TRUE]
             /\ accZ = acc
        /\ poisoned = 0

Zeroed(v, w) == IF IsNonFinite(Prod(v, w)) /\ v # <<"fin", 0>> THEN <<"fin", 0>> ELSE v

\* shadow bookkeeping whenever the real accumulator finishes a call
Shadow ==
    IF phase = "Returned"
    THEN /\ accZ' = Accumulated(accZ, cfg, Zeroed(cur.v, cur.w), cur.w, cur.p, cur.bin)
         /\ poisoned' = poisoned + (IF Zeroed(cur.v, cur.w) # cur.v THEN 1 ELSE 0)
    ELSE UNCHANGED <<accZ, poisoned>>

Next ==
    \/ (acc.calls + (IF phase = "Returned" THEN 1 ELSE 0) < cfg.calls /\ Draw(PerCall(cfg)) /\ Shadow)
    \/ (\E ch \in 0 .. 2 : MapCoord(ch, EnabledSeq(cfg.w), 7, 100, 200, TRUE) /\ UNCHANGED <<accZ, poisoned>>)
    \/ (MapCoordDone(5, 6) /\ UNCHANGED <<accZ, poisoned>>)
    \/ ((cfg.kind = "mc" => cur.csum # 0) /\ IntBegin(TRUE, cur.chan, cur.csum, cur.caddr) /\ UNCHANGED <<accZ, poisoned>>)
    \/ (~cur.wreq /\ WeightReq /\ UNCHANGED <<accZ, poisoned>>)
    \/ (cur.dens < 2 /\ MapDens(cur.chan, cur.rn, cur.caddr, cur.csum, cur.daddr, cur.dsum) /\ UNCHANGED <<accZ, poisoned>>)
    \/ (\E v \in Values : \E w \in Weights : \E b \in {<<0, 1>>, <<1, 1>>} :
          /\ (cfg.kind = "plain") => w = <<"fin", 1>>
          /\ (cfg.kind = "mc" /\ cur.wreq) => cur.dens > 0      \* the lazy weight has been computed by then
          /\ IntEnd(v, w, <<1, 2, 3>>, b) /\ UNCHANGED <<accZ, poisoned>>)

\* a finished iteration: the in-flight call (if any) is accumulated - evaluated as a state predicate
FinalAcc == IF phase = "Returned" THEN Accumulated(acc, cfg, cur.v, cur.w, cur.p, cur.bin) ELSE acc
FinalAccZ == IF phase = "Returned" THEN Accumulated(accZ, cfg, Zeroed(cur.v, cur.w), cur.w, cur.p, cur.bin) ELSE accZ
FinalPoisoned == poisoned + (IF phase = "Returned" /\ Zeroed(cur.v, cur.w) # cur.v THEN 1 ELSE 0)

\* C06 at design level: non-finite evaluations are counted as non-zero and contribute nothing else
NonFiniteIsZero ==
    /\ FinalAcc.sum = FinalAccZ.sum /\ FinalAcc.sumsq = FinalAccZ.sumsq /\ FinalAcc.adj = FinalAccZ.adj
    /\ FinalAcc.fin = FinalAccZ.fin /\ FinalAcc.calls = FinalAccZ.calls
    /\ FinalAcc.nz = FinalAccZ.nz + FinalPoisoned
\* C17 at design level: in multi channel mode an accumulated non-zero call had its densities computed
DensWhenNeeded == (cfg.kind = "mc" /\ phase = "Returned" /\ cur.v # <<"fin", 0>> /\ cur.dens = 0) => ENABLED MapDens(cur.chan, cur.rn, cur.caddr, cur.csum, cur.daddr, cur.dsum)
Inv == TypeOK /\ DensOnlyWhenNeeded /\ FixedConsumption /\ NonFiniteIsZero
=============================================================================
