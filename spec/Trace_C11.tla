----------------------------- MODULE Trace_C11 -----------------------------
(* Trace validation for C11 against Bins.tla: single fills (which bin got    *)
(* the value) and whole iterations with several distributions, recomputed    *)
(* fill by fill.  A fill exactly on an edge makes the specification branch.  *)
EXTENDS TraceBase, Bins

VARIABLES l, n, params, acc, seen
vars == <<l, n, params, acc, seen>>

Init == l = 1 /\ n = 0 /\ params = <<>> /\ acc = <<>> /\ seen = 0

P(s, o) == [bx |-> s[o + 1], by |-> s[o + 2], xmin |-> s[o + 3], sx |-> s[o + 4], ymin |-> s[o + 5], sy |-> s[o + 6]]
C(t, v) == <<t, v>>

Fill1 ==
    /\ l <= TraceLen
    /\ LET e == TheTrace[l]
           p == P(e.p, 0)
       IN /\ e.e = "Fill1"
          /\ e.nbins = p.bx * p.by
          /\ e.nfilled <= 1                                  \* at most one bin changes ...
          /\ e.got \in BinOf(p, C(e.xt, e.x), C(e.yt, e.y))  \* ... and it is an admissible one (or none)
          /\ e.callsok = 1                                   \* every bin reports the iteration's calls
          /\ ("spill" \in DOMAIN e) => e.spill = 0           \* nothing reaches another distribution
    /\ l' = l + 1 /\ UNCHANGED <<n, params, acc, seen>>

Mid ==
    /\ l <= TraceLen
    /\ LET e == TheTrace[l]
           p == P(e.p, 0)
       IN /\ e.e = "Mid"
          /\ e.exact = 1
          /\ e.mx = MidX2(p) /\ e.my = MidY2(p)              \* scale 32 = 2 * 16
    /\ l' = l + 1 /\ UNCHANGED <<n, params, acc, seen>>

Begin ==
    /\ l <= TraceLen
    /\ LET e == TheTrace[l]
           k == Len(e.dists) \div 6
       IN /\ e.e = "Begin"
          /\ n' = e.N
          /\ params' = [d \in 1 .. k |-> P(e.dists, 6 * (d - 1))]
          /\ acc' = [d \in 1 .. k |-> Empty(params'[d])]
          /\ seen' = 0
    /\ l' = l + 1

Fill ==
    /\ l <= TraceLen
    /\ LET e == TheTrace[l]
           d == e.dist + 1
       IN /\ e.e = "Fill"
          /\ d \in DOMAIN params
          /\ IF e.vfin = 0 THEN acc' = acc                   \* a non-finite value is dropped
             ELSE \E f \in BinOf(params[d], C(e.xt, e.x), C(e.yt, e.y)) :
                     acc' = [acc EXCEPT ![d] = AddTo(@, f, e.v)]
    /\ l' = l + 1 /\ UNCHANGED <<n, params, seen>>

BinResult ==
    /\ l <= TraceLen
    /\ LET e == TheTrace[l]
           d == e.dist + 1
       IN /\ e.e = "BinResult"
          /\ d \in DOMAIN params
          /\ e.nbins = params[d].bx * params[d].by
          /\ e.calls = n                                     \* the full number of calls of the iteration
          /\ acc[d][e.flat] = <<e.sum, e.sumsq>>             \* exactly the values filled into it
    /\ l' = l + 1 /\ seen' = seen + 1 /\ UNCHANGED <<n, params, acc>>

End ==
    /\ l <= TraceLen
    /\ LET e == TheTrace[l] IN
       /\ e.e = "End"
       /\ e.ndists = Len(params)
       /\ seen = ISum([d \in 1 .. Len(params) |-> params[d].bx * params[d].by])
    /\ l' = l + 1 /\ UNCHANGED <<n, params, acc, seen>>

\* several iterations combined: every bin of the combination is the combination of that bin's own results, also for an iteration in which
\* no evaluation of the integrand itself was non-zero (quietNz = 0 is the driver's premise)
AccBins ==
    /\ l <= TraceLen
    /\ LET e == TheTrace[l] IN e.e = "AccBins" /\ e.quietNz = 0 /\ e.nbins > 0 /\ e.badVar = 0 /\ e.badEq = 0
    /\ l' = l + 1 /\ UNCHANGED <<n, params, acc, seen>>
Next == Fill1 \/ Mid \/ Begin \/ Fill \/ BinResult \/ End \/ AccBins
Spec == Init /\ [][Next]_vars
\* the specification may branch on edge fills: accept if some behaviour consumes the whole trace
TraceAccepted == TraceAcceptedBy(TraceLen)
=============================================================================
