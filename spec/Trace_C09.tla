----------------------------- MODULE Trace_C09 -----------------------------
(* Trace validation for C09: every observed channel selection - of           *)
(* hep::discrete_distribution directly and of hep::multi_channel (what the   *)
(* map and the integrand saw) - must be admissible under Select.tla.         *)
EXTENDS TraceBase, Select

VARIABLES l
vars == <<l>>
D24 == 16777216

Init == l = 1

AllOK(w, js, idx, D) ==
    /\ Len(js) = Len(idx)
    /\ \A k \in 1 .. Len(js) : PickOK(w, js[k], D, idx[k] + 1)

Pick ==
    /\ l <= TraceLen
    /\ LET e == TheTrace[l] IN
       /\ e.e = "Pick"
       /\ AllOK(e.w, e.js, e.idx, D24)
       /\ e.draws = Len(e.js)                 \* exactly one canonical number per selection
    /\ l' = l + 1

McPick ==
    /\ l <= TraceLen
    /\ LET e == TheTrace[l] IN
       /\ e.e = "McPick"
       /\ AllOK(e.w, e.js, e.idx, D24)
       /\ e.mapidx = e.idx                    \* the map was asked for the channel the integrand saw
       /\ e.enabled = EnabledList(e.w)        \* complete list of enabled channels, increasing
       /\ e.sameEnabled
       /\ e.calls = Len(e.js)
    /\ l' = l + 1

Count ==
    /\ l <= TraceLen
    /\ LET e == TheTrace[l] IN
       /\ e.e = "Count"
       /\ e.invalid = 0                       \* the selected index is always a valid channel
       /\ CountOK(e.w, e.D, e.counts)
    /\ l' = l + 1

\* weights that are not small integers (no exact interval arithmetic possible): the selected index is always a valid, enabled channel -
\* for the floating-point neighbours of every cumulative boundary, 0 and the largest value below 1
PickAny ==
    /\ l <= TraceLen
    /\ LET e == TheTrace[l] IN
       /\ e.e = "PickAny"
       /\ Len(e.idx) = e.n /\ e.draws = e.n
       /\ \A k \in 1 .. Len(e.idx) : e.idx[k] >= 0 /\ e.idx[k] < Len(e.wz) /\ e.wz[e.idx[k] + 1] = 1
    /\ l' = l + 1

Next == Pick \/ McPick \/ Count \/ PickAny
Spec == Init /\ [][Next]_vars
TraceAccepted == TraceAcceptedBy(TraceLen)
=============================================================================
