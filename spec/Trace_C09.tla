----------------------------- MODULE Trace_C09 -----------------------------
(* Trace validation for C09: every observed channel selection - of           *)
(* hep::discrete_distribution directly and of hep::multi_channel (what the   *)
(* map and the integrand saw) - must be admissible under Select.tla.         *)
EXTENDS TraceBase, Select

VARIABLES l
vars == <<l>>
D24 == 16777216

Init == l = 1

AllOK(w, js, idx, D) ==
    /\ Len(js) = Len(idx)
    /\ \A k \in 1 .. Len(js) : PickOK(w, js[k], D, idx[k] + 1)

Pick ==
    /\ l <= TraceLen
    /\ LET e == TheTrace[l] IN
       /\ e.e = "Pick"
       /\ AllOK(e.w, e.js, e.idx, D24)
       /\ e.draws = Len(e.js)                 \* exactly one canonical number per selection
    /\ l' = l + 1

McPick ==
    /\ l <= TraceLen
    /\ LET e == TheTrace[l] IN
       /\ e.e = "McPick"
       /\ AllOK(e.w, e.js, e.idx, D24)
       /\ e.mapidx = e.idx                    \* the map was asked for the channel the integrand saw
       /\ e.enabled = EnabledList(e.w)        \* complete list of enabled channels, increasing
       /\ e.sameEnabled
       /\ e.calls = Len(e.js)
       /\ ("sumOk" \in DOMAIN e) => e.sumOk = 1    \* the recorded weights are the normalised ones (the probabilities are the recorded weights)
    /\ l' = l + 1

Count ==
    /\ l <= TraceLen
    /\ LET e == TheTrace[l] IN
       /\ e.e = "Count"
       /\ e.invalid = 0                       \* the selected index is always a valid channel
       /\ CountOK(e.w, e.D, e.counts)
    /\ l' = l + 1

\* weights that are not small integers (no exact interval arithmetic possible): the selected index is always a valid, enabled channel -
\* for the floating-point neighbours of every cumulative boundary, 0 and the largest value below 1
PickAny ==
    /\ l <= TraceLen
    /\ LET e == TheTrace[l] IN
       /\ e.e = "PickAny"
       /\ Len(e.idx) = e.n /\ e.draws = e.n
       /\ \A k \in 1 .. Len(e.idx) : e.idx[k] >= 0 /\ e.idx[k] < Len(e.wz) /\ e.wz[e.idx[k] + 1] = 1
    /\ l' = l + 1

\* selections at the full precision of the numeric type.  A case is <<b1, b2, b3, b4, idx>>: base = sum b_i 2^(16 (i - 1)) is the raw output minus
\* four units 2^ushift; Q = floor(x S / 2^64) for x = base and x = base + 8 units by a carry chain over the 16-bit limbs; channel i owns x / 2^64
\* iff it is the first with Cum(w, i) > Q.  Within four units of a boundary (the two ends disagree) either neighbour is admissible.
QOf(b, S, o, add) == LimbQ(SubSeq(b, 1, 4), S, o, add, 65536)
PickWide ==
    /\ l <= TraceLen
    /\ LET e == TheTrace[l]
           S == Total(e.w)
           o == e.ushift \div 16
           add == 8 * (2 ^ (e.ushift % 16)) * S
       IN /\ e.e = "PickWide"
          /\ Len(e.cases) = e.n /\ e.draws = e.n                     \* one canonical number per selection
          /\ \A k \in 1 .. Len(e.cases) :
                LET c == e.cases[k]
                    lo == FirstAbove(e.w, QOf(c, S, o, 0))
                    hi == FirstAbove(e.w, QOf(c, S, o, add))
                IN c[5] + 1 \in {lo, hi}
    /\ l' = l + 1

\* weights {2^digits - 1, 1} between `lead` and `trail` disabled channels: the boundary (2^digits - 1) / 2^digits is the largest canonical number
\* and is computed without rounding, so the half-open intervals decide: the largest number belongs to the channel of weight one, the
\* numbers below it to the other (the instance S = 16 of this is model-checked in MC_Select: Owner(<<15, 1>>, 15, 16) = {2})
PickTop ==
    /\ l <= TraceLen
    /\ LET e == TheTrace[l] IN
       /\ e.e = "PickTop" /\ e.draws = 5 /\ Len(e.idx) = 5
       /\ e.idx[1] = e.lead + 1                                        \* the largest value below one
       /\ \A k \in 2 .. 5 : e.idx[k] = e.lead                          \* its two predecessors, zero and the smallest positive number
    /\ l' = l + 1
\* the selector normalises what it is given: its probabilities are the weights a result records only if those sum to one (n weights: n roundings)
McNorm == /\ l <= TraceLen /\ TheTrace[l].e = "McNorm" /\ TheTrace[l].devEps <= 4 * TheTrace[l].n + 4 /\ l' = l + 1
Next == Pick \/ McPick \/ Count \/ PickAny \/ PickWide \/ PickTop \/ McNorm
Spec == Init /\ [][Next]_vars
TraceAccepted == TraceAcceptedBy(TraceLen)
=============================================================================
