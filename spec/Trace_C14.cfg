INIT Init
NEXT Next
POSTCONDITION TraceAccepted
CHECK_DEADLOCK FALSE
