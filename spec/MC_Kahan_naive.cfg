CONSTANTS P = 4 MaxLen = 9 Algo = "naive" Wide = TRUE
INIT Init
NEXT Next
INVARIANT ErrBound
