----------------------------- MODULE Trace_C01 -----------------------------
(* Trace validation for C01: results of the real integrators driven by the     *)
(* midpoint lattice, against the exact integrals of Measure.tla.               *)
EXTENDS TraceBase, Measure
VARIABLES l
vars == <<l>>
Ev == TheTrace[l]
Init == l = 1

FOf(f, indb) == IF f = 0 THEN <<"one">> ELSE IF f \in {1, 2} THEN <<"x">> ELSE <<"ind", indb>>
\* the first dimension's grid (the indicator refers to it); gx holds d grids of B + 1 integers over G
Grid1(e) == [b \in 1 .. e.B + 1 |-> Norm(e.gx[b], e.G)]
\* exact lattice integral: 1, 1/2 (any coordinate) or the position of the indicator's edge
VLat ==
    /\ l <= TraceLen /\ Ev.e = "VLat"
    /\ LET f == FOf(Ev.f, Ev.indb)
           x == IF Ev.B = 1 THEN <<RZero, <<1, 2>>, ROne>> ELSE Grid1(Ev)       \* PLAIN: edge of the indicator at 1/2
           want == Integral(f, x)
       IN /\ (Ev.B > 1 /\ Ev.d = 1 /\ Ev.M % Ev.B = 0) => VegasExact(x, f, Ev.M)  \* the specification's own lattice sum is exact
          /\ IF Ev.exact = 1 THEN REq(<<Ev.sum, 4096 * Ev.N>>, want)              \* sum / N = integral, exactly
             ELSE Near(Ev.value, 1048576, want, 8)
    /\ l' = l + 1
McLat ==
    /\ l <= TraceLen /\ Ev.e = "McLat"
    /\ LET ref == <<RZero, <<1, 4>>, ROne>>
           f == FOf(Ev.f, 1)
           want == Integral(f, ref)
           tol == IF Ev.T = "float" THEN 64 ELSE 8
       IN /\ (Ev.exactWeights = 1 /\ Ev.recompute = 1) => McExact([i \in 1 .. Len(Ev.ks) |-> <<RZero, <<Ev.ks[i], 4>>, ROne>>], Ev.w, f, ref, Ev.Mu, Ev.Ms)
          /\ Near(Ev.value, 1048576, want, tol)
    /\ l' = l + 1
\* adapted grids: 1 and x_k are integrated exactly to rounding (deviation in units of 64 eps)
Adapt == /\ l <= TraceLen /\ Ev.e = "Adapt" /\ Ev.dev <= 4 /\ l' = l + 1
\* adapted channel weights (exponent, minimum weight, channels that never contributed): the lattice iteration still integrates 1 and x; the
\* tolerance is the selector lattice's resolution (Measure.tla, SelectorCountOK) times the contribution of a channel - an alarm needs less than 1/64
McAdapt ==
    /\ l <= TraceLen /\ Ev.e = "McAdapt"
    /\ Ev.tol >= 0 /\ Ev.tol <= 16384
    /\ Near(Ev.value, 1048576, Integral(FOf(Ev.f, 1), <<RZero, <<1, 4>>, ROne>>), Ev.tol)
    /\ l' = l + 1
\* the weight of every point, 1 / sum_j alpha_j p_j(x), at the precision of the numeric type: n + 2 roundings (measured against 113 bits)
McWeightEps == /\ l <= TraceLen /\ Ev.e = "McWeightEps" /\ Ev.points > 0 /\ Ev.maxDev <= Ev.n + 4 /\ l' = l + 1
Next == VLat \/ McLat \/ Adapt \/ McAdapt \/ McWeightEps
Spec == Init /\ [][Next]_vars
TraceAccepted == TraceAcceptedBy(TraceLen)
=============================================================================
