INIT Init
NEXT Next
