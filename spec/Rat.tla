-------------------------------- MODULE Rat --------------------------------
(* Rationals as pairs <<n, d>> with d > 0, by cross-multiplication.  TLC has *)
(* 32-bit integers and aborts on overflow, so a model that stays silent is   *)
(* exact.  Results are reduced with a gcd to keep numbers small.             *)
EXTENDS Integers, Sequences

RECURSIVE Gcd(_, _)
Gcd(a, b) == IF b = 0 THEN a ELSE Gcd(b, a % b)
Abs(x) == IF x < 0 THEN -x ELSE x
Norm(n, d) == LET g == Gcd(Abs(n), d) IN IF g = 0 THEN <<0, 1>> ELSE <<n \div g, d \div g>>
R(n) == <<n, 1>>
RZero == <<0, 1>>
ROne == <<1, 1>>
\* with early cancellation, so that intermediate products stay small
RAdd(a, b) == LET g == Gcd(a[2], b[2])
                  d == (a[2] \div g) * b[2]
              IN Norm(a[1] * (b[2] \div g) + b[1] * (a[2] \div g), d)
RSub(a, b) == RAdd(a, <<-b[1], b[2]>>)
RMul(a, b) == LET g1 == Gcd(Abs(a[1]), b[2])
                  g2 == Gcd(Abs(b[1]), a[2])
                  h1 == IF g1 = 0 THEN 1 ELSE g1
                  h2 == IF g2 = 0 THEN 1 ELSE g2
              IN Norm((a[1] \div h1) * (b[1] \div h2), (a[2] \div h2) * (b[2] \div h1))
RDiv(a, b) == IF b[1] > 0 THEN RMul(a, <<b[2], b[1]>>) ELSE RMul(a, <<-b[2], -b[1]>>)
REq(a, b) == a[1] * b[2] = b[1] * a[2]
RLt(a, b) == a[1] * b[2] < b[1] * a[2]
RLe(a, b) == a[1] * b[2] <= b[1] * a[2]
RMax(a, b) == IF RLt(a, b) THEN b ELSE a
RMin(a, b) == IF RLt(a, b) THEN a ELSE b
RSumSeq(s) == LET F[i \in 0 .. Len(s)] == IF i = 0 THEN RZero ELSE RAdd(F[i - 1], s[i]) IN F[Len(s)]
ISumSeq(s) == LET F[i \in 0 .. Len(s)] == IF i = 0 THEN 0 ELSE F[i - 1] + s[i] IN F[Len(s)]
\* |x - n/d| <= tol/scale  where x is given as the integer xs = floor-ish(x * scale)
Near(xs, scale, r, tol) == Abs(xs * r[2] - r[1] * scale) <= tol * r[2]
=============================================================================
