CONSTANTS NW = 3 WMax = 3 RVal = 3 BMax = 4 G = 6 IMax = 3
INIT Init
NEXT Next
