----------------------------- MODULE Trace_C06 -----------------------------
(* Two-lane trace validation for C06.  Lane P is a run in which some          *)
(* evaluations are non-finite (integrand value, value handed to a             *)
(* distribution, or the weight); lane Z is the same run with those            *)
(* evaluations returning zero.  Iteration by iteration the lanes must agree   *)
(* on everything (ids of bit patterns) except the non-zero counter, and every *)
(* reported number must be finite.  The design-level statement is             *)
(* MC_Call!NonFiniteIsZero.                                                   *)
EXTENDS TraceBase

VARIABLES l, have, pend
vars == <<l, have, pend>>
Ev == TheTrace[l]
Init == l = 1 /\ have = FALSE /\ pend = [run |-> -1, k |-> -1, calls |-> 0, nz |-> 0, fin |-> 0, sumId |-> 0, sumsqId |-> 0,
                                          binsId |-> 0, adjId |-> 0, nextId |-> 0, poisoned |-> 0]

LaneP ==
    /\ l <= TraceLen /\ Ev.e = "Lane" /\ Ev.lane = "P" /\ ~have
    /\ Ev.finite = 1                                   \* all reported numbers stay finite
    /\ Ev.fin <= Ev.nz /\ Ev.nz <= Ev.calls
    /\ pend' = [run |-> Ev.run, k |-> Ev.k, calls |-> Ev.calls, nz |-> Ev.nz, fin |-> Ev.fin, sumId |-> Ev.sumId, sumsqId |-> Ev.sumsqId,
                binsId |-> Ev.binsId, adjId |-> Ev.adjId, nextId |-> Ev.nextId, poisoned |-> Ev.poisoned]
    /\ have' = TRUE /\ l' = l + 1

LaneZ ==
    /\ l <= TraceLen /\ Ev.e = "Lane" /\ Ev.lane = "Z" /\ have
    /\ Ev.run = pend.run /\ Ev.k = pend.k
    /\ Ev.finite = 1
    /\ Ev.calls = pend.calls
    /\ Ev.fin = pend.fin                               \* non-finite evaluations are not counted as finite ...
    /\ pend.nz = Ev.nz + pend.poisoned                 \* ... but as non-zero
    /\ Ev.sumId = pend.sumId /\ Ev.sumsqId = pend.sumsqId  \* and contribute nothing to the sums,
    /\ Ev.binsId = pend.binsId                         \* the distribution bins,
    /\ Ev.adjId = pend.adjId                           \* the adjustment data,
    /\ Ev.nextId = pend.nextId                         \* hence the state of the next iteration is the same
    /\ have' = FALSE /\ pend' = pend /\ l' = l + 1

Next == LaneP \/ LaneZ
Spec == Init /\ [][Next]_vars
TraceAccepted == TraceAcceptedBy(TraceLen)
=============================================================================
