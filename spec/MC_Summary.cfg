INIT Init
NEXT Next
