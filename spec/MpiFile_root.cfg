CONSTANTS Ranks = 3 Writers = {0} Iterations = 3 Size = 3
SPECIFICATION Spec
INVARIANT FileCompleteOrAbsent
INVARIANT Resumable
