------------------------------ MODULE Loop_apa ------------------------------
(***************************************************************************)
(* Unbounded discharge (Apalache, SMT) of the loop protocol of Loop.tla    *)
(* (property C12) for one rank: ANY number of iterations in the plan, ANY  *)
(* numbers of calls, ANY number of results in the checkpoint the run       *)
(* starts from, any answers of the callback.  IndInv is inductive and      *)
(* implies the protocol: a callback after exactly the calls of each        *)
(* iteration and never before, with exactly the results so far; the run    *)
(* stops iff a callback said so or the plan is finished; the returned      *)
(* checkpoint holds one result per completed iteration.  `Eager = TRUE` is *)
(* the alternative that tests the stop condition before the callback of    *)
(* the last iteration has been made (returns without it): violated.        *)
(* MC_Loop explores small plans with TLC for several ranks and is bound to *)
(* the code by Trace_C12.                                                  *)
(***************************************************************************)
EXTENDS Integers
CONSTANT
    \* @type: Bool;
    Eager
VARIABLES
    \* @type: Int;
    len,     \* iterations in the plan
    \* @type: Int;
    n0,      \* results in the checkpoint the run starts from
    \* @type: Int;
    k,       \* iterations completed (results added)
    \* @type: Int;
    need,    \* calls of the current iteration
    \* @type: Int;
    c,       \* calls made in the current iteration
    \* @type: Int;
    cbs,     \* callbacks made
    \* @type: Int;
    seen,    \* number of results the last callback was shown
    \* @type: Bool;
    stop,    \* the last callback returned false
    \* @type: Str;
    pc,      \* "run" | "ret"
    \* @type: Int;
    returned \* results in the returned checkpoint (-1: not yet)

CInit == Eager = FALSE
CInitEager == Eager = TRUE

Init ==
    /\ len \in Nat /\ n0 \in Nat /\ need \in Nat
    /\ k = 0 /\ c = 0 /\ cbs = 0 /\ seen = n0 /\ stop = FALSE /\ pc = "run" /\ returned = -1

Call ==
    /\ pc = "run" /\ ~stop /\ k < len /\ c < need /\ c' = c + 1
    /\ UNCHANGED <<len, n0, k, need, cbs, seen, stop, pc, returned>>
\* the iteration is complete: its result is added, the callback sees all results so far and answers; the next iteration may ask for any number of calls
Callback ==
    /\ pc = "run" /\ ~stop /\ k < len /\ c = need
    /\ k' = k + 1 /\ c' = 0 /\ cbs' = cbs + 1 /\ seen' = n0 + k + 1
    /\ stop' \in BOOLEAN /\ need' \in Nat
    /\ UNCHANGED <<len, n0, pc, returned>>
Return ==
    /\ pc = "run" /\ (stop \/ k = len)
    /\ pc' = "ret" /\ returned' = n0 + k
    /\ UNCHANGED <<len, n0, k, need, c, cbs, seen, stop>>
\* the alternative: the last iteration's result is returned without its callback
EagerReturn ==
    /\ Eager /\ pc = "run" /\ ~stop /\ k + 1 = len /\ c = need
    /\ k' = k + 1 /\ c' = 0 /\ pc' = "ret" /\ returned' = n0 + k + 1
    /\ UNCHANGED <<len, n0, need, cbs, seen, stop>>
Next == Call \/ Callback \/ Return \/ EagerReturn

\* the protocol (property level)
Protocol ==
    /\ cbs = k                                   \* exactly one callback per completed iteration
    /\ seen = n0 + k                             \* ... shown exactly the results so far
    /\ c <= need                                 \* never more calls than requested
    /\ (pc = "ret") => (returned = n0 + k /\ (stop \/ k = len))   \* stop iff told so or finished; one result per completed iteration
    /\ stop => k >= 1

TypeOK ==
    /\ len \in Int /\ n0 \in Int /\ k \in Int /\ need \in Int /\ c \in Int /\ cbs \in Int /\ seen \in Int
    /\ stop \in BOOLEAN /\ pc \in {"run", "ret"} /\ returned \in Int
IndInv ==
    /\ TypeOK
    /\ len >= 0 /\ n0 >= 0 /\ need >= 0 /\ k >= 0 /\ k <= len /\ c >= 0
    /\ pc \in {"run", "ret"}
    /\ (pc = "run") => returned = -1
    /\ (stop \/ pc = "ret" \/ k = len) => c = 0
    /\ Protocol
=============================================================================
