------------------------------ MODULE Bins_apa ------------------------------
(* Unbounded-integer check of the one-axis binning law of Bins.tla with       *)
(* Apalache: for every coordinate c, range start, positive bin size and bin   *)
(* count, the half-open owner is admissible, it is the only admissible bin    *)
(* away from an edge, and outside [min, min + bins*size] nothing is.          *)
EXTENDS Integers
VARIABLES
    \* @type: Int;
    c,
    \* @type: Int;
    mn,
    \* @type: Int;
    size,
    \* @type: Int;
    bins

NoBin == -1
Clip(i) == IF i >= 0 /\ i < bins THEN i ELSE NoBin
K == (c - mn) \div size
OnEdge == (c - mn) % size = 0
\* @type: Set(Int);
Axis == IF OnEdge THEN {Clip(K - 1), Clip(K)} ELSE {Clip(K)}
Strict == Clip(K)

Init == c \in Int /\ mn \in Int /\ size \in Int /\ bins \in Int /\ size >= 1 /\ bins >= 1
Next == UNCHANGED <<c, mn, size, bins>>

AxisLaw ==
    /\ Strict \in Axis
    /\ (~OnEdge) => Axis = {Strict}
    /\ (c < mn - size \/ c > mn + bins * size + size) => Axis = {NoBin}
    /\ (mn <= c /\ c < mn + bins * size) => (Strict >= 0 /\ Strict < bins /\ mn + Strict * size <= c /\ c < mn + (Strict + 1) * size)
    /\ \A i \in Axis : i = NoBin \/ (i >= 0 /\ i < bins)
=============================================================================
