CONSTANTS Protocol = "tmprename" MaxKills = 3
SPECIFICATION FairSpec
INVARIANT FileOK
INVARIANT SameEnd
INVARIANT NeverLost
PROPERTY Completes
