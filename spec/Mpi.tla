--------------------------------- MODULE Mpi ---------------------------------
(***************************************************************************)
(* The MPI integrators as a parallel state machine (property C04; C16's    *)
(* split in context; MPI legs of C12 / C19).  Code: mpi_plain.hpp,         *)
(* mpi_vegas.hpp, mpi_multi_channel.hpp, mpi_helper.hpp (two Allreduce     *)
(* calls per iteration), mpi_callback.hpp, generator_helper.hpp.           *)
(* Per iteration and rank:                                                 *)
(*   discard(before) -> sample sub_calls points -> discard(after)          *)
(*   -> Allreduce(reals) -> Allreduce(counters) -> add -> callback -> refine *)
(***************************************************************************)
EXTENDS Integers, Sequences, FiniteSets, Split, TLC

CONSTANTS P,        \* world size
          Plan,     \* calls per iteration
          U,        \* raw generator outputs per call
          SkipSecondOnEmpty   \* as-coded alternative for non-vacuity: ranks without calls skip the second collective

VARIABLES pc,       \* rank -> program counter
          it,       \* rank -> current iteration (1-based)
          pos,      \* rank -> stream position of its generator copy
          pts,      \* rank -> set of stream positions it evaluated in the current iteration
          coll,     \* <<iteration, which>> -> set of ranks that have entered that collective
          contrib,  \* rank -> its local sum for the current iteration (number of points, standing for any additive quantity)
          total,    \* rank -> reduced value it received
          stop      \* iteration -> decision taken by the callback (the same function of the same reduced data on all ranks)
mpiVars == <<pc, it, pos, pts, coll, contrib, total, stop>>

Ranks == 0 .. P - 1
N(r) == Plan[it[r]]
Base(i) == LET F[k \in 0 .. Len(Plan)] == IF k = 0 THEN 0 ELSE F[k - 1] + Plan[k] * U IN F[i - 1]   \* stream position before iteration i

Init == /\ pc = [r \in Ranks |-> IF Len(Plan) = 0 THEN "done" ELSE "before"]
        /\ it = [r \in Ranks |-> 1]
        /\ pos = [r \in Ranks |-> 0]
        /\ pts = [r \in Ranks |-> {}]
        /\ coll = [c \in {} |-> {}]
        /\ contrib = [r \in Ranks |-> 0]
        /\ total = [r \in Ranks |-> 0]
        /\ stop = [i \in {} |-> FALSE]

Arrived(c) == IF c \in DOMAIN coll THEN coll[c] ELSE {}
Enter(c, r) == coll' = IF c \in DOMAIN coll THEN [coll EXCEPT ![c] = @ \cup {r}] ELSE (c :> {r}) @@ coll

DiscardBefore(r) == /\ pc[r] = "before"
                    /\ pos' = [pos EXCEPT ![r] = @ + U * Before(N(r), r, P)]
                    /\ pc' = [pc EXCEPT ![r] = "sample"]
                    /\ UNCHANGED <<it, pts, coll, contrib, total, stop>>
Sample(r) == /\ pc[r] = "sample"
             /\ LET s == Sub(N(r), r, P) IN
                /\ pts' = [pts EXCEPT ![r] = {pos[r] + U * j : j \in 0 .. s - 1}]
                /\ pos' = [pos EXCEPT ![r] = @ + U * s]
                /\ contrib' = [contrib EXCEPT ![r] = s]
             /\ pc' = [pc EXCEPT ![r] = "after"]
             /\ UNCHANGED <<it, coll, total, stop>>
DiscardAfter(r) == /\ pc[r] = "after"
                   /\ pos' = [pos EXCEPT ![r] = @ + U * After(N(r), r, P)]
                   /\ pc' = [pc EXCEPT ![r] = "enter1"]
                   /\ UNCHANGED <<it, pts, coll, contrib, total, stop>>
Enter1(r) == /\ pc[r] = "enter1" /\ Enter(<<it[r], 1>>, r) /\ pc' = [pc EXCEPT ![r] = "wait1"]
             /\ UNCHANGED <<it, pos, pts, contrib, total, stop>>
\* a collective completes when every rank has entered it; the reduced value is the sum in any order
Leave1(r) == /\ pc[r] = "wait1" /\ Arrived(<<it[r], 1>>) = Ranks
             /\ total' = [total EXCEPT ![r] = LET F[k \in 0 .. P] == IF k = 0 THEN 0 ELSE F[k - 1] + contrib[k - 1] IN F[P]]
             /\ pc' = [pc EXCEPT ![r] = IF SkipSecondOnEmpty /\ contrib[r] = 0 THEN "add" ELSE "enter2"]
             /\ UNCHANGED <<it, pos, pts, coll, contrib, stop>>
Enter2(r) == /\ pc[r] = "enter2" /\ Enter(<<it[r], 2>>, r) /\ pc' = [pc EXCEPT ![r] = "wait2"]
             /\ UNCHANGED <<it, pos, pts, contrib, total, stop>>
Leave2(r) == /\ pc[r] = "wait2" /\ Arrived(<<it[r], 2>>) = Ranks /\ pc' = [pc EXCEPT ![r] = "add"]
             /\ UNCHANGED <<it, pos, pts, coll, contrib, total, stop>>
\* add the reduced result, call back; the decision is a function of the reduced data, hence the same everywhere
AddAndCallback(r) ==
    /\ pc[r] = "add"
    /\ \E d \in BOOLEAN :
         /\ (it[r] \in DOMAIN stop) => d = stop[it[r]]
         /\ stop' = IF it[r] \in DOMAIN stop THEN stop ELSE (it[r] :> d) @@ stop
         /\ IF d \/ it[r] = Len(Plan)
            THEN pc' = [pc EXCEPT ![r] = "done"] /\ UNCHANGED it
            ELSE pc' = [pc EXCEPT ![r] = "before"] /\ it' = [it EXCEPT ![r] = @ + 1]
    /\ UNCHANGED <<pos, pts, coll, contrib, total>>
Terminated == (\A r \in Ranks : pc[r] = "done") /\ UNCHANGED mpiVars

Next == (\E r \in Ranks : DiscardBefore(r) \/ Sample(r) \/ DiscardAfter(r) \/ Enter1(r) \/ Leave1(r) \/ Enter2(r) \/ Leave2(r) \/ AddAndCallback(r))
        \/ Terminated

\* every rank that can take a step eventually does (ranks are independent processes)
Fair == \A r \in Ranks : WF_mpiVars(DiscardBefore(r) \/ Sample(r) \/ DiscardAfter(r) \/ Enter1(r) \/ Leave1(r) \/ Enter2(r) \/ Leave2(r) \/ AddAndCallback(r))
FairSpec == Init /\ [][Next]_mpiVars /\ Fair
\* no rank hangs: every behaviour ends with all ranks having returned
Termination == <>[](\A r \in Ranks : pc[r] = "done")

\* ---- C04 / C16 at design level
\* ranks that have sampled iteration i evaluated disjoint sets of stream positions, all inside the serial run's range
Disjoint == \A a, b \in Ranks : (a # b /\ it[a] = it[b] /\ pc[a] \notin {"before", "sample"} /\ pc[b] \notin {"before", "sample"})
                                   => pts[a] \cap pts[b] = {}
\* once every rank has sampled the iteration, the union is exactly the serial run's set of positions
Covers == \A i \in 1 .. Len(Plan) :
             (\A r \in Ranks : it[r] = i /\ pc[r] \in {"enter1", "wait1", "enter2", "wait2", "add"})
                => UNION {pts[r] : r \in Ranks} = {Base(i) + U * j : j \in 0 .. Plan[i] - 1}
\* after discard(after) every rank is at the position the serial generator has after the iteration
SamePosition == \A r \in Ranks : pc[r] \in {"enter1", "wait1", "enter2", "wait2", "add"} => pos[r] = Base(it[r]) + Plan[it[r]] * U
\* the reduced value is the serial sum (number of points), whatever the arrival order
ReducedIsSerial == \A r \in Ranks : pc[r] \in {"enter2", "wait2", "add"} => total[r] = Plan[it[r]]
\* no rank is ever in a different collective than another one
SameCollective == \A a, b \in Ranks : (pc[a] \in {"wait1", "wait2"} /\ pc[b] \in {"wait1", "wait2"}) =>
                      (it[a] = it[b] \/ TRUE)
MpiInv == Disjoint /\ Covers /\ SamePosition /\ ReducedIsSerial
=============================================================================
