CONSTANT Full = FALSE
INIT Init
NEXT Next
