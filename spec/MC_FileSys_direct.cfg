CONSTANTS Protocol = "direct" Iterations = 3 Chunks = 3
INIT Init
NEXT Next
INVARIANT FileCompleteOrAbsent
