CONSTANTS MaxIter = 3  MaxOps = 4  CallsSet = {1, 2}
INIT Init
NEXT Next
INVARIANT Inv
