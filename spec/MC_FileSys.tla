----------------------------- MODULE MC_FileSys -----------------------------
(* Both write protocols, three iterations, writes split into chunks, every    *)
(* partial write, a kill possible in every state.                             *)
EXTENDS FileSys
CONSTANTS Protocol, Iterations, Chunks
VARIABLES pc, left, killed
vars == <<fsVars, pc, left, killed>>
Size(k) == 2 + k          \* bytes of checkpoint k (small numbers; every prefix is explored)
Target == "chk"
Tmp == "chk.tmp"
File == IF Protocol = "direct" THEN Target ELSE Tmp

Init == dir = <<>> /\ cur = 0 /\ sizes = (0 :> 0) /\ pc = "idle" /\ left = 0 /\ killed = FALSE

Begin == /\ pc = "idle" /\ cur < Iterations /\ ~killed
         /\ Announce(cur + 1, Size(cur + 1)) /\ pc' = "open" /\ left' = Size(cur + 1) /\ UNCHANGED killed
Open == /\ pc = "open" /\ ~killed /\ OpenW(File, TRUE, TRUE) /\ pc' = "write" /\ UNCHANGED <<left, killed>>
\* one write call of up to Chunks bytes, of which any prefix 1..n may be what reached the file when the kill came:
\* modelled by writing byte by byte with a kill possible in between
Write == /\ pc = "write" /\ left > 0 /\ ~killed /\ WriteN(File, 1) /\ left' = left - 1 /\ UNCHANGED <<pc, killed>>
Close == /\ pc = "write" /\ left = 0 /\ ~killed
         /\ pc' = (IF Protocol = "direct" THEN "idle" ELSE "rename") /\ UNCHANGED <<fsVars, left, killed>>
Rename == /\ pc = "rename" /\ ~killed /\ RenameTo(Tmp, Target) /\ pc' = "idle" /\ UNCHANGED <<left, killed>>
Kill == ~killed /\ killed' = TRUE /\ UNCHANGED <<fsVars, pc, left>>
Next == Begin \/ Open \/ Write \/ Close \/ Rename \/ Kill

FileCompleteOrAbsent == TargetOK(dir, Target)
\* after a kill the surviving file allows the run to be resumed to the same end: it is a complete checkpoint
\* holding cur-1 or cur results, so the remaining Iterations - k iterations reproduce the uninterrupted run (C03)
Resumable == killed => FileCompleteOrAbsent
=============================================================================
