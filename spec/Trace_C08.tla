----------------------------- MODULE Trace_C08 -----------------------------
(* Trace validation for C08: results of multi_channel_refine_weights, of the  *)
(* checkpoint's initial normalisation and the weights used by every iteration *)
(* of real multi-channel runs, against Refine.tla.                            *)
EXTENDS TraceBase, Refine

VARIABLES l, run, disabled, lastId, lastAllZero
vars == <<l, run, disabled, lastId, lastAllZero>>
SC == 1048576

Init == l = 1 /\ run = -1 /\ disabled = {} /\ lastId = 0 /\ lastAllZero = 0

\* observed floats (floor(v * 2^20)) agree with the exact rationals of the specification
Matches(v, zero, exact) ==
    /\ Len(v) = Len(exact) /\ Len(zero) = Len(exact)
    /\ \A i \in 1 .. Len(exact) :
         /\ Near(v[i], SC, exact[i], 2)
         /\ (zero[i] = 1) <=> (exact[i][1] = 0)

\* "sum to one" at the precision of the numeric type: n weights, each rounded once after the final division, summed exactly (113 bits) -
\* at most n / 2 + 1 epsilons off
SumToOne(e) == ("sumEps" \in DOMAIN e) => e.sumEps <= Len(e.v) + 2

RefCase ==
    /\ l <= TraceLen
    /\ LET e == TheTrace[l]
           m == <<e.mn, e.md>>
           exact == RefineW(e.w, e.r, m)
           P == ISumSeq(Prod(e.w, e.r))
       IN /\ e.e = "RefCase"
          /\ e.fin = 1
          /\ WeightsOK(e.w, e.r, m, exact)          \* the oracle itself satisfies the property
          /\ IF P = 0 THEN e.outId = e.inId         \* no information: bit-identical to the input
             ELSE Matches(e.v, e.zero, exact)
    /\ l' = l + 1 /\ UNCHANGED <<run, disabled, lastId, lastAllZero>>

InitCase ==
    /\ l <= TraceLen
    /\ LET e == TheTrace[l]
           ones == [i \in 1 .. Len(e.w) |-> 1]
       IN /\ e.e = "InitCase"
          /\ e.fin = 1
          /\ Matches(e.v, e.zero, RefineW(e.w, ones, <<e.mn, e.md>>))
          /\ SumToOne(e)
    /\ l' = l + 1 /\ UNCHANGED <<run, disabled, lastId, lastAllZero>>

\* invariants for arbitrary beta / data / minimum weight
VecOK(v, zeroOut, n, sum, floor) ==
    /\ Len(v) = n
    /\ \A i \in 1 .. n : v[i] >= 0 /\ ((zeroOut[i] = 1) => v[i] = 0)
    /\ sum >= SC - n - 8 /\ sum <= SC + n + 8

RefAny ==
    /\ l <= TraceLen
    /\ LET e == TheTrace[l] IN
       /\ e.e = "RefAny"
       /\ e.fin = 1
       /\ VecOK(e.v, e.zeroOut, e.n, e.sum, e.floor) /\ SumToOne(e)
       /\ \A i \in 1 .. e.n : (e.zeroIn[i] = 1) => e.zeroOut[i] = 1            \* never re-enabled
       /\ (e.noInfo = 1) => e.outId = e.inId                                   \* unchanged
       /\ (e.noInfo = 0) => \A i \in 1 .. e.n : (e.positive[i] = 1) => e.v[i] >= e.floor - 2
    /\ l' = l + 1 /\ UNCHANGED <<run, disabled, lastId, lastAllZero>>

RunWeights ==
    /\ l <= TraceLen
    /\ LET e == TheTrace[l]
           n == Len(e.v)
           fresh == e.run # run
           dis == IF fresh THEN {} ELSE disabled
       IN /\ e.e = "RunWeights"
          /\ e.fin = 1
          /\ VecOK(e.v, e.zeroOut, n, e.sum, e.floor) /\ SumToOne(e)
          /\ \A i \in dis : e.zeroOut[i] = 1                                   \* disabled stays disabled
          /\ (~fresh) => e.prevId = lastId
          /\ (~fresh /\ lastAllZero = 1) => e.id = lastId                      \* all-zero iteration: unchanged
          /\ (~fresh /\ lastAllZero = 0) => \A i \in 1 .. n : (e.zeroOut[i] = 0) => e.v[i] >= e.floor - 2
          /\ run' = e.run
          /\ disabled' = dis \cup {i \in 1 .. n : e.zeroOut[i] = 1}
          /\ lastId' = e.id
          /\ lastAllZero' = e.dataAllZero
    /\ l' = l + 1

\* the weights of iteration k + 1 (resp. those the checkpoint proposes) are the refinement of the result of iteration k - also when that
\* result's estimate is exactly zero because its values cancel (sumZero = 1: such a sample was found; moved = 1: the refinement moves them)
NextWeights ==
    /\ l <= TraceLen
    /\ LET e == TheTrace[l] IN
       /\ e.e = "NextWeights" /\ e.usedId = e.refId
       /\ ("sumZero" \in DOMAIN e) => (e.sumZero = 1 /\ e.moved = 1)
       /\ ("dataEqual" \in DOMAIN e) => e.dataEqual = 1   \* (channels with identical densities: the driver's premise)
    /\ l' = l + 1 /\ UNCHANGED <<run, disabled, lastId, lastAllZero>>
Next == RefCase \/ InitCase \/ RefAny \/ RunWeights \/ NextWeights
Spec == Init /\ [][Next]_vars
TraceAccepted == TraceAcceptedBy(TraceLen)
=============================================================================
