-------------------------------- MODULE Crash --------------------------------
(***************************************************************************)
(* Composition of the session (which iterations a checkpoint contains) with *)
(* the file protocol of the built-in callback and process kills (C18 + C03  *)
(* at design level): a run that is killed at arbitrary points and restarted *)
(* from whatever the checkpoint file contains ends with the checkpoint of   *)
(* the uninterrupted run.  A checkpoint is identified by the calls of the   *)
(* iterations it contains (Session!ChkOf is a function of them).            *)
(***************************************************************************)
EXTENDS Integers, Sequences, TLC

CONSTANTS Protocol,     \* "tmprename" | "direct"
          MaxKills
Plan == <<3, 1, 2>>     \* calls per iteration of the whole run

VARIABLES mem,      \* checkpoint in memory: the calls of its iterations, or <<-1>> after a kill (lost)
          file,     \* <<"absent">> | <<"complete", done>> | <<"partial", done>>
          tmp,      \* the same for the temporary file
          pc,       \* "iterate" | "open" | "write" | "close" | "rename" | "finished" | "dead"
          kills
vars == <<mem, file, tmp, pc, kills>>

Absent == <<"absent">>
Init == mem = <<>> /\ file = Absent /\ tmp = Absent /\ pc = "iterate" /\ kills = 0

Iterate == /\ pc = "iterate" /\ Len(mem) < Len(Plan)
           /\ mem' = Append(mem, Plan[Len(mem) + 1])          \* the next iteration of the plan, from the state in the checkpoint
           /\ pc' = "open" /\ UNCHANGED <<file, tmp, kills>>
Finish == pc = "iterate" /\ Len(mem) = Len(Plan) /\ pc' = "finished" /\ UNCHANGED <<mem, file, tmp, kills>>
\* the callback writes the checkpoint
Open == /\ pc = "open" /\ pc' = "write"
        /\ IF Protocol = "direct" THEN file' = <<"partial", mem>> /\ UNCHANGED tmp      \* truncation
           ELSE tmp' = <<"partial", mem>> /\ UNCHANGED file
        /\ UNCHANGED <<mem, kills>>
Write == /\ pc = "write" /\ pc' = "close" /\ UNCHANGED <<mem, file, tmp, kills>>      \* more bytes; still partial
Close == /\ pc = "close"
         /\ IF Protocol = "direct" THEN file' = <<"complete", mem>> /\ UNCHANGED tmp /\ pc' = "iterate"
            ELSE tmp' = <<"complete", mem>> /\ UNCHANGED file /\ pc' = "rename"
         /\ UNCHANGED <<mem, kills>>
Rename == pc = "rename" /\ file' = tmp /\ tmp' = Absent /\ pc' = "iterate" /\ UNCHANGED <<mem, kills>>
\* the process can be killed at any moment; what is in memory is lost, what is on disk stays
Kill == pc \notin {"dead", "finished"} /\ kills < MaxKills /\ pc' = "dead" /\ mem' = <<-1>> /\ kills' = kills + 1 /\ UNCHANGED <<file, tmp>>
\* the user starts the run again with the same file name and the remaining iterations
Restart == /\ pc = "dead"
           /\ file[1] # "partial"                                                       \* (a partial file cannot be read: the run is lost)
           /\ mem' = IF file = Absent THEN <<>> ELSE file[2]
           /\ pc' = "iterate" /\ UNCHANGED <<file, tmp, kills>>
Next == Iterate \/ Finish \/ Open \/ Write \/ Close \/ Rename \/ Kill \/ Restart \/ (pc = "finished" /\ UNCHANGED vars)

\* C18: at every instant the file, if it exists, is a complete checkpoint - of the previous or of the new iteration
FileOK == file = Absent \/ (file[1] = "complete" /\ (pc = "dead" \/ mem = <<-1>> \/ Len(file[2]) \in {Len(mem) - 1, Len(mem)}))
\* resuming leads to the same final result as the uninterrupted run
SameEnd == (pc = "finished") => mem = Plan
\* a killed run can always be resumed
NeverLost == (pc = "dead") => file[1] # "partial"
Fairness == WF_vars(Iterate \/ Finish \/ Open \/ Write \/ Close \/ Rename \/ Restart)
FairSpec == Init /\ [][Next]_vars /\ Fairness
Completes == <>(pc = "finished")
=============================================================================
