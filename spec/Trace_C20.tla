----------------------------- MODULE Trace_C20 -----------------------------
(* Trace validation for C20: the four modes of the built-in callback are      *)
(* observationally equivalent with respect to results.  One event per lane   *)
(* (= one complete run in one mode); the silent lane is the reference.  The   *)
(* design-level statement is MC_Session!ModeNonInterference (two copies of    *)
(* the session machine differing only in the mode stay equal).                *)
EXTENDS TraceBase, Summary, Report
VARIABLES l, ref
vars == <<l, ref>>
Ev == TheTrace[l]
\* Growth = 1: additionally check behaviour the listed properties do not prescribe (what is printed in which mode, which file
\* is written, the structure of the weight summary); a rejection in that pass is reported as a note, not as a violation.
Growth == "GROWTH" \in DOMAIN IOEnv /\ IOEnv.GROWTH = "1"
Init == l = 1 /\ ref = [run |-> -1, texts |-> <<>>, rets |-> <<>>, final |-> 0]

Verbose(m) == m \in {2, 3}
Writes(m) == m \in {1, 3}

LaneOK(e, r) ==
    /\ e.status = "ok"                                   \* terminates without error
    /\ e.texts = r.texts                                 \* the checkpoint handed to every iteration,
    /\ e.rets = r.rets                                   \* every stop decision
    /\ e.final = r.final                                 \* and the returned checkpoint are identical
    /\ Len(e.texts) = Len(e.rets)
    /\ (Len(e.texts) > 0) => e.final = e.texts[Len(e.texts)]
    /\ e.printedOther = 0                                \* output on rank 0 only: nothing printed ...
    /\ ("filesOther" \in DOMAIN e) => e.filesOther = 0   \* ... and no file written by another rank
    /\ (Growth) => (IF Verbose(e.mode) THEN e.printed0 > 0 ELSE e.printed0 = 0)
    /\ (Growth) => (IF Writes(e.mode) /\ Len(e.texts) > 0 /\ ~("badfile" \in DOMAIN e /\ e.badfile = 1) THEN e.fileText = e.final ELSE e.fileText = -1)
    \* growth: the verbose modes of a serial run report, per iteration, its index, its calls and its non-finite evaluations
    /\ (Growth /\ Verbose(e.mode) /\ e.world = 0) =>
          /\ Len(e.pIters) = Len(e.texts) /\ Len(e.pN) = Len(e.texts) /\ Len(e.pNnf) = Len(e.texts)
          /\ \A i \in 1 .. Len(e.texts) : e.pIters[i] = i - 1 /\ e.pN[i] = e.facts[2 * i - 1] /\ e.pNnf[i] = e.facts[2 * i]
    \* ... and every field of both report lines is the function of the checkpoint that Report.tla states
    \* (serial runs and runs on several ranks alike: rank 0 reports for the communicator)
    /\ (Growth /\ Verbose(e.mode)) => ReportOK(e)

Lane ==
    /\ l <= TraceLen /\ Ev.e = "Lane"
    /\ IF Ev.mode = 0
       THEN LET r == [run |-> Ev.run, texts |-> Ev.texts, rets |-> Ev.rets, final |-> Ev.final]
            IN LaneOK(Ev, r) /\ ref' = r
       ELSE Ev.run = ref.run /\ LaneOK(Ev, ref) /\ ref' = ref
    /\ l' = l + 1
\* structure of the printed multi channel summary (growth beyond the listed properties): which channels are reported
\* as minimal, which are listed, which one is the maximum - for every weight pattern, without error
PairsOf(f) == [i \in 1 .. Len(f) \div 2 |-> <<f[2 * i - 1], f[2 * i]>>]
SummaryEv ==
    /\ l <= TraceLen /\ Ev.e = "Summary"
    /\ Ev.status = "ok"
    /\ LET e == Expected(Ev.w, Ev.S, Ev.N) IN
       /\ StructureOfOK(Ev.w, e)
       /\ (Growth) => /\ Ev.channels = e.channels /\ Ev.minCount = e.minCount
                      /\ PairsOf(Ev.minRuns) = e.minRuns
                      /\ Ev.printed = e.printed
                      /\ Ev.wmax = e.wmax
                      /\ Ev.D = MaxDiff(Ev.adj) /\ Ev.Dfun = Ev.D /\ MaxDiffIsSpread(Ev.adj)   \* first line: D of the adjustment data
    /\ ref' = ref /\ l' = l + 1
Next == Lane \/ SummaryEv
Spec == Init /\ [][Next]_vars
TraceAccepted == TraceAcceptedBy(TraceLen)
=============================================================================
