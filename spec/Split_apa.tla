----------------------------- MODULE Split_apa -----------------------------
(* Unbounded-integer discharge of Split!Tiles with Apalache (SMT): t, w, r  *)
(* range over all naturals; the invariant is checked on the initial states  *)
(* (length 0), which are all (t, w, r) with r < w.                          *)
EXTENDS Integers
VARIABLES
    \* @type: Int;
    t,
    \* @type: Int;
    w,
    \* @type: Int;
    r

Before(tt, rr, ww) == (tt \div ww) * rr + (IF (tt % ww) < rr THEN tt % ww ELSE rr)
Sub(tt, rr, ww)    == (tt \div ww) + (IF rr < (tt % ww) THEN 1 ELSE 0)
AfterOf(tt, c, rr, ww) == LET b == Before(tt, rr, ww) IN IF b + c < tt THEN tt - b - c ELSE 0
After(tt, rr, ww)  == AfterOf(tt, Sub(tt, rr, ww), rr, ww)

Init == t \in Nat /\ w \in Nat /\ r \in Nat /\ w >= 1 /\ r < w
Next == UNCHANGED <<t, w, r>>

TilesInv ==
    /\ Before(t, 0, w) = 0
    /\ (r + 1 < w) => Before(t, r + 1, w) = Before(t, r, w) + Sub(t, r, w)
    /\ Before(t, r, w) + Sub(t, r, w) + After(t, r, w) = t
    /\ Sub(t, r, w) \in {t \div w, (t \div w) + 1}
    /\ (r = w - 1) => Before(t, r, w) + Sub(t, r, w) = t
=============================================================================
