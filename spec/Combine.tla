------------------------------ MODULE Combine ------------------------------
(***************************************************************************)
(* Combination of results (property C13).  A result is a record            *)
(* [N, nz, fin, E, V] with E the estimate and V = S^2 the variance as      *)
(* rationals (Rat.tla).  Code: mc_helper.hpp (weighted_with_variance,      *)
(* weighted_equally, chi_square_dof, hep_distribution_accumulator).        *)
(***************************************************************************)
EXTENDS Rat, FiniteSets

Live(rs) == {i \in 1 .. Len(rs) : rs[i].nz # 0}
SumOver(rs, f(_)) == LET F[i \in 0 .. Len(rs)] == IF i = 0 THEN 0 ELSE F[i - 1] + f(rs[i]) IN F[Len(rs)]
RSumOver(rs, f(_)) == LET F[i \in 0 .. Len(rs)] == IF i = 0 THEN RZero ELSE RAdd(F[i - 1], f(rs[i])) IN F[Len(rs)]
GetN(r) == r.N
GetNz(r) == r.nz
GetFin(r) == r.fin
InvVar(r) == IF r.nz # 0 THEN RDiv(ROne, r.V) ELSE RZero
EOverV(r) == IF r.nz # 0 THEN RDiv(r.E, r.V) ELSE RZero
GetE(r) == r.E
GetE2(r) == RMul(r.E, r.E)

\* variance-weighted combination: results without non-zero calls are ignored
WVar(rs) ==
    LET W == RSumOver(rs, InvVar)
        nz == SumOver(rs, GetNz)
    IN [N |-> SumOver(rs, GetN), nz |-> nz, fin |-> SumOver(rs, GetFin),
        E |-> IF nz = 0 THEN RZero ELSE RDiv(RSumOver(rs, EOverV), W),
        V |-> IF nz = 0 THEN RZero ELSE RDiv(ROne, W)]
\* equal weighting: mean and squared standard error of the mean
WEq(rs) ==
    LET m == Len(rs) IN
    IF m = 0 THEN [N |-> 0, nz |-> 0, fin |-> 0, E |-> RZero, V |-> RZero]
    ELSE IF m = 1 THEN rs[1]
    ELSE LET mean == RDiv(RSumOver(rs, GetE), R(m))
         IN [N |-> SumOver(rs, GetN), nz |-> SumOver(rs, GetNz), fin |-> SumOver(rs, GetFin), E |-> mean,
             V |-> RDiv(RSub(RDiv(RSumOver(rs, GetE2), R(m)), RMul(mean, mean)), R(m - 1))]
\* chi^2 / dof with respect to the variance-weighted combination: <<"inf", 0>> for one result
Chi2(rs) ==
    LET m == Len(rs) IN
    IF m = 1 THEN <<"inf", RZero>>
    ELSE IF m = 0 THEN <<"fin", RZero>>
    ELSE LET c == WVar(rs)
             Term(r) == RDiv(RMul(RSub(r.E, c.E), RSub(r.E, c.E)), r.V)
         IN <<"fin", RDiv(RSumOver(rs, Term), R(m - 1))>>

\* ---- the algebraic laws of the property
MinE(rs) == CHOOSE i \in Live(rs) : \A j \in Live(rs) : RLe(rs[i].E, rs[j].E)
MaxE(rs) == CHOOSE i \in Live(rs) : \A j \in Live(rs) : RLe(rs[j].E, rs[i].E)
Laws(rs) ==
    LET c == WVar(rs) IN
    /\ c.N = SumOver(rs, GetN) /\ c.nz = SumOver(rs, GetNz) /\ c.fin = SumOver(rs, GetFin)
    /\ (Live(rs) # {}) =>
         /\ RLe(rs[MinE(rs)].E, c.E) /\ RLe(c.E, rs[MaxE(rs)].E)           \* between the smallest and the largest estimate
         /\ \A i \in Live(rs) : RLe(c.V, rs[i].V)                            \* error no larger than any S_i
    /\ (\A i \in 1 .. Len(rs) : rs[i].nz # 0) => (Chi2(rs)[1] = "inf" \/ RLe(RZero, Chi2(rs)[2]))   \* (empty results have no variance)
\* conditioning of (value, error) <-> (sum, sumsq): 1 + N E^2 / ((N - 1) V)
Kappa(c) == IF c.N < 2 \/ c.V[1] = 0 THEN ROne ELSE RAdd(ROne, RDiv(RMul(R(c.N), RMul(c.E, c.E)), RMul(R(c.N - 1), c.V)))
=============================================================================
