INIT Init
NEXT Next
