------------------------------- MODULE Refine -------------------------------
(***************************************************************************)
(* Adaptation step of both adaptive integrators (C07, C08; used by C19).   *)
(*   weights: multi_channel_refine_weights.hpp                             *)
(*   grid:    vegas_pdf.hpp (vegas_refine_pdf, vegas_icdf)                 *)
(* Numbers are exact rationals (Rat.tla).                                  *)
(***************************************************************************)
EXTENDS Rat, FiniteSets

\* ============================== channel weights ==============================
\* w: old weights (naturals, any common factor), r: datum^beta as naturals, m = <<mn, md>>: minimum
\* weight.  Result: sequence of rationals.
Prod(w, r) == [i \in 1 .. Len(w) |-> w[i] * r[i]]

\* design level, as coded: normalise the products, raise the non-zero ones to m, normalise again
RefineW(w, r, m) ==
    LET p == Prod(w, r)
        P == ISumSeq(p)
        n == Len(w)
    IN IF P = 0
       THEN [i \in 1 .. n |-> Norm(w[i], ISumSeq(w))]            \* no information: unchanged
       ELSE LET q == [i \in 1 .. n |-> IF p[i] = 0 THEN RZero ELSE RMax(<<p[i], P>>, m)]
                Q == RSumSeq(q)
            IN [i \in 1 .. n |-> RDiv(q[i], Q)]

\* property level: what any refinement result `v` (rationals) must satisfy
WeightsOK(w, r, m, v) ==
    LET n == Len(w)
        p == Prod(w, r)
        P == ISumSeq(p)
        floor == RDiv(m, RAdd(ROne, RMul(R(n), m)))              \* min / (1 + n min)
    IN /\ Len(v) = n
       /\ \A i \in 1 .. n : RLe(RZero, v[i])
       /\ REq(RSumSeq(v), ROne)
       /\ \A i \in 1 .. n : (w[i] = 0) => REq(v[i], RZero)       \* never re-enabled
       /\ (P = 0) => \A i \in 1 .. n : REq(v[i], <<w[i], ISumSeq(w)>>)
       /\ (P > 0) =>
            /\ \A i \in 1 .. n : (p[i] > 0) => RLe(floor, v[i])
            \* entries above the floor are proportional to w * datum^beta
            /\ \A i, j \in 1 .. n :
                 (p[i] > 0 /\ p[j] > 0 /\ RLt(m, <<p[i], P>>) /\ RLt(m, <<p[j], P>>))
                    => REq(RMul(v[i], R(p[j])), RMul(v[j], R(p[i])))
            \* entries raised to the minimum are all equal and not larger than the others' due
            /\ \A i, j \in 1 .. n :
                 (p[i] > 0 /\ p[j] > 0 /\ RLe(<<p[i], P>>, m) /\ RLe(<<p[j], P>>, m)) => REq(v[i], v[j])

\* ================================== grid ==================================
\* A grid is a sequence x[1 .. B+1] of rationals, x[1] = 0, x[B+1] = 1, non-decreasing.
Bins(x) == Len(x) - 1
ValidGrid(x) ==
    /\ Len(x) >= 3
    /\ REq(x[1], RZero) /\ REq(x[Len(x)], ROne)
    /\ \A b \in 1 .. Len(x) - 1 : RLe(x[b], x[b + 1])

\* smoothing of the per-bin sums of squares (as coded)
Smooth(d) ==
    LET B == Len(d) IN
    [b \in 1 .. B |-> IF b = 1 THEN <<d[1] + d[2], 2>>
                      ELSE IF b = B THEN <<d[B - 1] + d[B], 2>>
                      ELSE <<d[b - 1] + d[b] + d[b + 1], 3>>]
\* damped importance for alpha = 0: pow(., 0) = 1 on bins with non-zero smoothed value
Imp0(d) == LET s == Smooth(d) IN [b \in 1 .. Len(d) |-> IF s[b][1] = 0 THEN 0 ELSE 1]

\* design level, as coded: the redistribution walk.  imp: naturals (any common factor).
\* State of the walk after placing new boundary k: <<bin, acc>> with acc = this_bin * B (integer).
Walk(x, imp) ==
    LET B == Bins(x)
        T == ISumSeq(imp)
        \* advance: add bins while acc < T ;  returns <<bin, acc>>
        Adv[s \in (0 .. B) \X (0 .. (B + 1) * T * 4)] ==
            IF s[2] < T /\ s[1] < B THEN Adv[<<s[1] + 1, s[2] + imp[s[1] + 1] * B>>] ELSE s
        St[k \in 0 .. B - 1] ==
            IF k = 0 THEN <<0, 0>>
            ELSE LET a == Adv[St[k - 1]] IN <<a[1], a[2] - T>>
        Left(k) == LET s == St[k]
                       cur == x[s[1] + 1]
                       prev == x[s[1]]
                   IN RSub(cur, RDiv(RMul(RSub(cur, prev), <<s[2], B>>), R(imp[s[1]])))
    IN IF T = 0 THEN x
       ELSE [j \in 1 .. B + 1 |-> IF j = 1 THEN x[1] ELSE IF j = B + 1 THEN x[B + 1] ELSE Left(j - 1)]

\* property level: cumulative importance of the old bins up to position y (piecewise linear),
\* evaluated with y inside old bin b
CumImp(x, imp, y, b) ==
    LET below == ISumSeq([k \in 1 .. b - 1 |-> imp[k]])
        wd == RSub(x[b + 1], x[b])
    IN IF wd[1] = 0 THEN R(below)
       ELSE RAdd(R(below), RMul(R(imp[b]), RDiv(RSub(y, x[b]), wd)))

\* y holds a share j/B of the importance: true for some old bin that contains y.  An old bin of
\* width zero carries its importance as a jump; any share inside the jump is attained there.
ShareAt(x, imp, y, j) ==
    LET B == Bins(x)
        T == ISumSeq(imp)
    IN \E b \in 1 .. B :
         /\ RLe(x[b], y) /\ RLe(y, x[b + 1])
         /\ IF REq(x[b], x[b + 1])
            THEN LET below == ISumSeq([k \in 1 .. b - 1 |-> imp[k]])
                 IN below * B <= j * T /\ j * T <= (below + imp[b]) * B
            ELSE REq(CumImp(x, imp, y, b), <<j * T, B>>)

GridRefineOK(x, imp, nx) ==
    /\ Len(nx) = Len(x)
    /\ ValidGrid(nx)
    /\ (ISumSeq(imp) = 0) => \A b \in 1 .. Len(x) : REq(nx[b], x[b])
    /\ (ISumSeq(imp) > 0) => \A j \in 1 .. Bins(x) - 1 : ShareAt(x, imp, nx[j + 1], j)


\* ---- the same share law for an *observed* refinement (trace validation): the old grid is given
\* exactly as integers gx[b] / G, the new boundary as ys = floor(y * SC) (one unit of slack for the
\* projection plus rounding of the implementation).  Everything multiplied out to integers.
ShareNear(gx, G, imp, ys, SC, j) ==
    LET B == Len(gx) - 1
        T == ISumSeq(imp)
    IN \E b \in 1 .. B :
         LET below == ISumSeq([k \in 1 .. b - 1 |-> imp[k]])
             Wg == gx[b + 1] - gx[b]
         IN /\ gx[b] * SC - G <= ys * G /\ ys * G <= gx[b + 1] * SC + G
            /\ IF Wg = 0
               THEN below * B <= j * T /\ j * T <= (below + imp[b]) * B
               ELSE Abs(below * B * Wg * SC + imp[b] * B * (ys * G - gx[b] * SC) - j * T * Wg * SC)
                       <= 2 * G * B * (imp[b] + 1)

ObservedRefineOK(gx, G, imp, new, SC) ==
    LET B == Len(gx) - 1 IN
    /\ Len(new) = B + 1
    /\ new[1] = 0 /\ new[B + 1] = SC
    /\ \A b \in 1 .. B : new[b] <= new[b + 1]
    /\ (ISumSeq(imp) = 0) => \A b \in 1 .. B + 1 : Abs(new[b] * G - gx[b] * SC) < G
    /\ (ISumSeq(imp) > 0) => \A j \in 1 .. B - 1 : ShareNear(gx, G, imp, new[j + 1], SC, j)

\* ---- inverse CDF (vegas_icdf) for one dimension: u = j / D
IcdfBin(B, j, D) == (j * B) \div D                                 \* 0-based bin
IcdfPoint(x, j, D) ==
    LET B == Bins(x)
        b == IcdfBin(B, j, D)
        frac == <<j * B - b * D, D>>
    IN RAdd(x[b + 1], RMul(frac, RSub(x[b + 2], x[b + 1])))
IcdfWeight(x, j, D) == LET b == IcdfBin(Bins(x), j, D) IN RMul(R(Bins(x)), RSub(x[b + 2], x[b + 1]))
=============================================================================
