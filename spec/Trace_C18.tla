----------------------------- MODULE Trace_C18 -----------------------------
(* Trace validation for C18: the real system-call log of the built-in          *)
(* callback (recorded by an LD_PRELOAD interposer, complete runs and runs       *)
(* killed at every call / byte prefix) is replayed on FileSys.tla.  The         *)
(* invariant TargetOK must hold after every call and inside every write to the  *)
(* target; after a kill the file found on disk must be the one the              *)
(* specification predicts and the resumed run must end like the uninterrupted.  *)
EXTENDS TraceBase, FileSys
VARIABLES l, target, killed
vars == <<fsVars, l, target, killed>>
Ev == TheTrace[l]
Is(name) == l <= TraceLen /\ Ev.e = name
Keep == UNCHANGED <<target, killed>>
OK == TargetOK(dir', target)

Init == l = 1 /\ dir = <<>> /\ cur = 0 /\ sizes = (0 :> 0) /\ target = "" /\ killed = FALSE

TReset == /\ Is("Reset") /\ dir' = <<>> /\ cur' = 0 /\ sizes' = (0 :> 0) /\ target' = Ev.target /\ killed' = FALSE /\ l' = l + 1
\* "ckpt/<k>/<size>" announced by the driver right before the callback writes checkpoint k
TMarker == /\ Is("Ckpt") /\ ~killed /\ Announce(Ev.k, Ev.size) /\ Keep /\ l' = l + 1
TOpen == /\ Is("Open") /\ ~killed
         /\ IF Ev.wr = 1 THEN OpenW(Ev.path, Ev.trunc = 1, Ev.creat = 1) ELSE UNCHANGED fsVars
         /\ OK /\ Keep /\ l' = l + 1
TWrite == /\ Is("Write") /\ ~killed
          /\ WriteN(Ev.path, Ev.done)
          /\ (Ev.path = target /\ Ev.req > 0) => FALSE      \* inside a write to the target the file is a partial checkpoint
          /\ OK /\ Keep /\ l' = l + 1
TClose == Is("Close") /\ ~killed /\ UNCHANGED fsVars /\ Keep /\ l' = l + 1
TRename == /\ Is("Rename") /\ ~killed /\ Ev.ok = 1 /\ RenameTo(Ev.from, Ev.to) /\ OK /\ Keep /\ l' = l + 1
TUnlink == /\ Is("Unlink") /\ ~killed /\ Remove(Ev.path) /\ OK /\ Keep /\ l' = l + 1
TKilled == Is("Killed") /\ ~killed /\ killed' = TRUE /\ UNCHANGED <<fsVars, target>> /\ l' = l + 1
\* what was found on disk after the kill (or at the end of a complete run)
TObserved ==
    /\ Is("Observed")
    /\ LET c == Lookup(dir, target) IN
       IF c = Absent THEN Ev.exists = 0
       ELSE Ev.exists = 1 /\ Complete(c) /\ Ev.k = c[1]     \* byte-identical to the reference text of checkpoint c[1]
    /\ UNCHANGED <<fsVars, target, killed>> /\ l' = l + 1
\* the run is started again from what is on disk (the directory keeps whatever the killed run left, e.g. a partial temporary file)
TRestart == Is("Restart") /\ killed' = FALSE /\ UNCHANGED <<fsVars, target>> /\ l' = l + 1
\* resuming from it ends with the final checkpoint of the uninterrupted run
TResumed == Is("Resumed") /\ Ev.equal = 1 /\ UNCHANGED <<fsVars, target, killed>> /\ l' = l + 1

Next == TRestart \/ TReset \/ TMarker \/ TOpen \/ TWrite \/ TClose \/ TRename \/ TUnlink \/ TKilled \/ TObserved \/ TResumed
Spec == Init /\ [][Next]_vars
TraceAccepted == TraceAcceptedBy(TraceLen)
=============================================================================
