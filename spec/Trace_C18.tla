----------------------------- MODULE Trace_C18 -----------------------------
(* Trace validation for C18: the real system-call log of the built-in          *)
(* callback (recorded by an LD_PRELOAD interposer, complete runs and runs       *)
(* killed at every call / byte prefix) is replayed on FileSys.tla.  The         *)
(* invariant TargetOK must hold after every call and inside every write to the  *)
(* target; after a kill the file found on disk must be the one the              *)
(* specification predicts and the resumed run must end like the uninterrupted.  *)
EXTENDS TraceBase, FileSys
VARIABLES l, target, killed, writers
vars == <<fsVars, l, target, killed, writers>>
Ev == TheTrace[l]
Is(name) == l <= TraceLen /\ Ev.e = name
Keep == UNCHANGED <<target, killed, writers>>
KeepT == UNCHANGED <<target, killed>>
OK == TargetOK(dir', target)

Init == l = 1 /\ dir = <<>> /\ cur = 0 /\ sizes = (0 :> 0) /\ target = "" /\ killed = FALSE /\ writers = <<>>

TReset == /\ Is("Reset") /\ dir' = <<>> /\ cur' = 0 /\ sizes' = (0 :> 0) /\ target' = Ev.target /\ killed' = FALSE /\ writers' = <<>> /\ l' = l + 1
\* "ckpt/<k>/<size>" announced by the driver right before the callback writes checkpoint k
TMarker == /\ Is("Ckpt") /\ ~killed /\ Announce(Ev.k, Ev.size) /\ Keep /\ l' = l + 1
\* writers: path -> <<checkpoint number, thread>> of the last open for writing.  Within one process (MPI ranks are threads of the shim) the
\* callbacks of different ranks are not ordered by any collective: two ranks writing the same path for the same checkpoint race in a
\* real execution, whatever order the threads happened to run in
TOpen == /\ Is("Open") /\ ~killed
         /\ IF Ev.wr = 1
            THEN /\ OpenW(Ev.path, Ev.trunc = 1, Ev.creat = 1)
                 /\ (Ev.path \in DOMAIN writers /\ writers[Ev.path][1] = cur) => writers[Ev.path][2] = Ev.tid
                 /\ writers' = IF Ev.path \in DOMAIN writers THEN [writers EXCEPT ![Ev.path] = <<cur, Ev.tid>>] ELSE (Ev.path :> <<cur, Ev.tid>>) @@ writers
            ELSE UNCHANGED fsVars /\ UNCHANGED writers
         /\ OK /\ KeepT /\ l' = l + 1
TWrite == /\ Is("Write") /\ ~killed
          /\ WriteN(Ev.path, Ev.done)
          /\ (Ev.path = target /\ Ev.req > 0) => FALSE      \* inside a write to the target the file is a partial checkpoint
          /\ OK /\ Keep /\ l' = l + 1
TClose == Is("Close") /\ ~killed /\ UNCHANGED fsVars /\ Keep /\ l' = l + 1
TRename == /\ Is("Rename") /\ ~killed /\ Ev.ok = 1 /\ RenameTo(Ev.from, Ev.to) /\ OK /\ Keep /\ l' = l + 1
TUnlink == /\ Is("Unlink") /\ ~killed /\ Remove(Ev.path) /\ OK /\ Keep /\ l' = l + 1
TKilled == Is("Killed") /\ ~killed /\ killed' = TRUE /\ UNCHANGED <<fsVars, target, writers>> /\ l' = l + 1
\* what was found on disk after the kill (or at the end of a complete run)
TObserved ==
    /\ Is("Observed")
    /\ LET c == Lookup(dir, target) IN
       IF c = Absent THEN Ev.exists = 0
       ELSE Ev.exists = 1 /\ Complete(c) /\ Ev.k = c[1]     \* byte-identical to the reference text of checkpoint c[1]
    /\ UNCHANGED <<fsVars, target, killed, writers>> /\ l' = l + 1
\* the run is started again from what is on disk (the directory keeps whatever the killed run left, e.g. a partial temporary file)
TRestart == Is("Restart") /\ killed' = FALSE /\ writers' = <<>> /\ UNCHANGED <<fsVars, target>> /\ l' = l + 1
\* resuming from it ends with the final checkpoint of the uninterrupted run
TResumed == Is("Resumed") /\ Ev.equal = 1 /\ UNCHANGED <<fsVars, target, killed, writers>> /\ l' = l + 1

Next == TRestart \/ TReset \/ TMarker \/ TOpen \/ TWrite \/ TClose \/ TRename \/ TUnlink \/ TKilled \/ TObserved \/ TResumed
Spec == Init /\ [][Next]_vars
TraceAccepted == TraceAcceptedBy(TraceLen)
=============================================================================
