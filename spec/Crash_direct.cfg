CONSTANTS Protocol = "direct" MaxKills = 3
INIT Init
NEXT Next
INVARIANT NeverLost
