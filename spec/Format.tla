------------------------------- MODULE Format -------------------------------
(***************************************************************************)
(* The checkpoint text format (property C05; structural half of C03/C15).  *)
(* A text is a sequence of tokens: NL, SP, <<"ch", c>> (a character of a   *)
(* distribution name), <<"num", n>> (one number token carrying the value   *)
(* n).  Writers follow the `serialize` members token by token; readers are *)
(* built from the three primitives the code uses: formatted extraction     *)
(* (`>>`: skip blanks and newlines, take one number), `peek/ignore` of a    *)
(* newline, and `getline`.                                                  *)
(* Code: chkpt.hpp, mc_result.hpp, plain_result.hpp,                        *)
(* distribution_parameters.hpp, distribution_result.hpp, vegas_pdf.hpp,     *)
(* vegas_result.hpp, multi_channel_result.hpp, vegas_chkpt.hpp,             *)
(* multi_channel_chkpt.hpp.                                                 *)
(***************************************************************************)
EXTENDS Integers, Sequences, FiniteSets

NL == <<"nl", 0>>
SP == <<"sp", 0>>
Num(n) == <<"num", n>>
Ch(c) == <<"ch", c>>
IsWs(t) == t[1] \in {"nl", "sp"}

RECURSIVE Flat(_)
Flat(ss) == IF ss = <<>> THEN <<>> ELSE Head(ss) \o Flat(Tail(ss))
Nums(ns) == Flat([i \in 1 .. Len(ns) |-> IF i = 1 THEN <<Num(ns[i])>> ELSE <<SP, Num(ns[i])>>])   \* n1 SP n2 SP ...

\* ============================== writers ==============================
\* mc_result: five numbers separated by blanks
WMc(h) == Nums(h)
\* distribution: name NL six parameters, then one mc_result per bin on its own line
WDist(d) == d.name \o <<NL>> \o Nums(d.par) \o Flat([i \in 1 .. Len(d.bins) |-> <<NL>> \o WMc(d.bins[i])])
WPlain(r) == WMc(r.head) \o <<NL, Num(Len(r.dists))>> \o Flat([i \in 1 .. Len(r.dists) |-> <<NL>> \o WDist(r.dists[i])])
WPdf(p) == <<Num(p.bins), SP, Num(p.dims)>> \o Flat([i \in 1 .. Len(p.xs) |-> <<SP, Num(p.xs[i])>>])
WVegasR(r) == WPlain(r) \o <<NL>> \o WPdf(r.pdf) \o <<NL>> \o Flat([i \in 1 .. Len(r.adj) |-> <<Num(r.adj[i]), SP>>])
WMcR(r) == WPlain(r) \o <<NL, Num(Len(r.pairs))>> \o Flat([i \in 1 .. Len(r.pairs) |-> <<NL, Num(r.pairs[i][1]), SP, Num(r.pairs[i][2])>>])
WResult(k, r) == IF k = "plain" THEN WPlain(r) ELSE IF k = "vegas" THEN WVegasR(r) ELSE WMcR(r)
\* header line "# name 1 digits" (skipped by the reader as a whole line), number of results, results
Header == <<Ch("#"), SP, Ch("n"), SP, Num(1), SP, Num(17)>>
WBase(c) == Header \o <<NL, Num(Len(c.results))>> \o Flat([i \in 1 .. Len(c.results) |-> <<NL>> \o WResult(c.kind, c.results[i])])
WChk(c) ==
    WBase(c)
    \o (IF c.kind = "vegas" THEN <<NL, Num(c.par[1])>> \o (IF c.results = <<>> THEN <<NL>> \o WPdf(c.first) ELSE <<>>)
        ELSE IF c.kind = "mc" THEN <<NL, Num(c.par[1]), SP, Num(c.par[2])>>
             \o (IF c.results = <<>> THEN <<NL, Num(Len(c.first))>> \o Flat([i \in 1 .. Len(c.first) |-> <<SP, Num(c.first[i])>>]) ELSE <<>>)
        ELSE <<>>)
    \o Flat([i \in 1 .. Len(c.gens) |-> <<NL>> \o Nums(c.gens[i])])

\* ============================== readers ==============================
\* A reader state is <<pos, ok>> on the token sequence s; a parser returns <<value, pos, ok>>.
Fail == <<0, 0, FALSE>>
RECURSIVE SkipWs(_, _)
SkipWs(s, p) == IF p <= Len(s) /\ IsWs(s[p]) THEN SkipWs(s, p + 1) ELSE p
\* in >> number
RNum(s, p) == LET q == SkipWs(s, p) IN IF q <= Len(s) /\ s[q][1] = "num" THEN <<s[q][2], q + 1, TRUE>> ELSE Fail
\* k numbers in a row
RECURSIVE RNums(_, _, _)
RNums(s, p, k) == IF k = 0 THEN <<<<>>, p, TRUE>>
                  ELSE LET a == RNum(s, p) IN IF ~a[3] THEN Fail
                       ELSE LET b == RNums(s, a[2], k - 1) IN IF ~b[3] THEN Fail ELSE <<<<a[1]>> \o b[1], b[2], TRUE>>
\* getline: everything up to (not including) the next newline, which is consumed
RECURSIVE LineEnd(_, _)
LineEnd(s, p) == IF p > Len(s) \/ s[p] = NL THEN p ELSE LineEnd(s, p + 1)
GetLine(s, p) == LET e == LineEnd(s, p) IN <<SubSeq(s, p, e - 1), IF e <= Len(s) THEN e + 1 ELSE e, TRUE>>
\* the name line of a distribution
\*   current code (84d9fba): the container consumes exactly one newline, the name is the line as it is
NameExact(s, p) == GetLine(s, IF p <= Len(s) /\ s[p] = NL THEN p + 1 ELSE p)
\*   before the fix: skip all whitespace, then getline
NameSkipWs(s, p) == GetLine(s, SkipWs(s, p))

RMc(s, p) == RNums(s, p, 5)
RECURSIVE RMcs(_, _, _)
RMcs(s, p, k) == IF k = 0 THEN <<<<>>, p, TRUE>>
                 ELSE LET a == RMc(s, p) IN IF ~a[3] THEN Fail
                      ELSE LET b == RMcs(s, a[2], k - 1) IN IF ~b[3] THEN Fail ELSE <<<<a[1]>> \o b[1], b[2], TRUE>>
RDist(s, p, nm) ==
    LET n == IF nm = "exact" THEN NameExact(s, p) ELSE NameSkipWs(s, p)
        par == RNums(s, n[2], 6)
    IN IF ~par[3] \/ par[1][1] < 0 \/ par[1][4] < 0 \/ par[1][1] * par[1][4] > 8 THEN Fail
       ELSE LET b == RMcs(s, par[2], par[1][1] * par[1][4])
            IN IF ~b[3] THEN Fail ELSE <<[name |-> n[1], par |-> par[1], bins |-> b[1]], b[2], TRUE>>
RECURSIVE RDists(_, _, _, _)
RDists(s, p, k, nm) ==
    IF k = 0 THEN <<<<>>, p, TRUE>>
    ELSE LET a == RDist(s, p, nm) IN IF ~a[3] THEN Fail
         ELSE LET b == RDists(s, a[2], k - 1, nm) IN IF ~b[3] THEN Fail ELSE <<<<a[1]>> \o b[1], b[2], TRUE>>
RPlain(s, p, nm) ==
    LET h == RMc(s, p) IN IF ~h[3] THEN Fail
    ELSE LET n == RNum(s, h[2]) IN IF ~n[3] \/ n[1] < 0 \/ n[1] > 4 THEN Fail
         ELSE LET d == RDists(s, n[2], n[1], nm) IN IF ~d[3] THEN Fail
              ELSE <<[head |-> h[1], dists |-> d[1]], d[2], TRUE>>
RPdf(s, p) ==
    LET bd == RNums(s, p, 2) IN IF ~bd[3] \/ bd[1][1] < 0 \/ bd[1][2] < 0 \/ (bd[1][1] + 1) * bd[1][2] > 12 THEN Fail
    ELSE LET x == RNums(s, bd[2], (bd[1][1] + 1) * bd[1][2]) IN IF ~x[3] THEN Fail
         ELSE <<[bins |-> bd[1][1], dims |-> bd[1][2], xs |-> x[1]], x[2], TRUE>>
RResult(k, s, p, nm) ==
    LET pl == RPlain(s, p, nm) IN IF ~pl[3] THEN Fail
    ELSE IF k = "plain" THEN pl
    ELSE IF k = "vegas" THEN
         LET pd == RPdf(s, pl[2]) IN IF ~pd[3] THEN Fail
         ELSE LET a == RNums(s, pd[2], pd[1].bins * pd[1].dims) IN IF ~a[3] THEN Fail
              ELSE <<[head |-> pl[1].head, dists |-> pl[1].dists, pdf |-> pd[1], adj |-> a[1]], a[2], TRUE>>
    ELSE LET n == RNum(s, pl[2]) IN IF ~n[3] \/ n[1] < 0 \/ n[1] > 40 THEN Fail
         ELSE LET a == RNums(s, n[2], 2 * n[1]) IN IF ~a[3] THEN Fail
              ELSE <<[head |-> pl[1].head, dists |-> pl[1].dists,
                      pairs |-> [i \in 1 .. n[1] |-> <<a[1][2 * i - 1], a[1][2 * i]>>]], a[2], TRUE>>
RECURSIVE RResults(_, _, _, _, _)
RResults(k, s, p, m, nm) ==
    IF m = 0 THEN <<<<>>, p, TRUE>>
    ELSE LET a == RResult(k, s, p, nm) IN IF ~a[3] THEN Fail
         ELSE LET b == RResults(k, s, a[2], m - 1, nm) IN IF ~b[3] THEN Fail ELSE <<<<a[1]>> \o b[1], b[2], TRUE>>
RECURSIVE RGens(_, _, _, _)
RGens(s, p, m, w) == IF m = 0 THEN <<<<>>, p, TRUE>>
                     ELSE LET a == RNums(s, p, w) IN IF ~a[3] THEN Fail
                          ELSE LET b == RGens(s, a[2], m - 1, w) IN IF ~b[3] THEN Fail ELSE <<<<a[1]>> \o b[1], b[2], TRUE>>

\* the whole checkpoint; gw = number of number tokens one generator occupies.  `first` is what the reader knows
\* about the first grid / weights afterwards: read from the text, or restored from the first result
RChk(k, s, gw, nm) ==
    LET start == IF Len(s) > 0 /\ s[1] = Ch("#") THEN GetLine(s, 1)[2] ELSE 1       \* skip the header line
        n == RNum(s, start)
    IN IF ~n[3] \/ n[1] < 0 \/ n[1] > 4 THEN Fail
       ELSE LET rs == RResults(k, s, n[2], n[1], nm) IN IF ~rs[3] THEN Fail
       ELSE LET par == IF k = "plain" THEN <<<<>>, rs[2], TRUE>> ELSE RNums(s, rs[2], IF k = "vegas" THEN 1 ELSE 2)
            IN IF ~par[3] THEN Fail
       ELSE LET first ==
                  IF n[1] > 0 THEN <<(IF k = "vegas" THEN rs[1][1].pdf
                                      ELSE IF k = "mc" THEN [i \in 1 .. Len(rs[1][1].pairs) |-> rs[1][1].pairs[i][2]] ELSE <<>>), par[2], TRUE>>
                  ELSE IF k = "vegas" THEN RPdf(s, par[2])
                  ELSE IF k = "mc" THEN LET c == RNum(s, par[2]) IN IF ~c[3] \/ c[1] < 0 \/ c[1] > 40 THEN Fail ELSE RNums(s, c[2], c[1])
                  ELSE <<<<>>, par[2], TRUE>>
            IN IF ~first[3] THEN Fail
       ELSE LET g == RGens(s, first[2], n[1] + 1, gw) IN IF ~g[3] THEN Fail
            ELSE <<[kind |-> k, results |-> rs[1], par |-> par[1], first |-> first[1], gens |-> g[1]], g[2], TRUE>>

\* ---- the property: reading what was written gives the same checkpoint, the stream is good and fully consumed
\* (the first state of a checkpoint with results is the one recorded in its first result)
Canon(c) == [c EXCEPT !.first = IF c.results = <<>> THEN c.first
                                 ELSE IF c.kind = "vegas" THEN c.results[1].pdf
                                 ELSE IF c.kind = "mc" THEN [i \in 1 .. Len(c.results[1].pairs) |-> c.results[1].pairs[i][2]] ELSE <<>>]
RoundTrip(c, gw, nm) ==
    LET s == WChk(c)
        r == RChk(c.kind, s, gw, nm)
    IN r[3] /\ r[1] = Canon(c) /\ r[2] = Len(s) + 1

\* token kinds of a text, for comparing the shape of a real checkpoint text with WChk
Shape(s) == [i \in 1 .. Len(s) |-> s[i][1]]
=============================================================================
