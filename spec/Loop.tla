-------------------------------- MODULE Loop --------------------------------
(***************************************************************************)
(* The integrator loop seen from outside (property C12): per (simulated)   *)
(* rank the integrand calls of an iteration, then exactly one callback     *)
(* with exactly the results so far, stop iff it returns false, return that *)
(* checkpoint.  Serial runs are world = 1.  Code: plain.hpp:86-101,        *)
(* vegas.hpp:107-125, multi_channel.hpp:152-169, mpi_*.hpp, callback.hpp.  *)
(***************************************************************************)
EXTENDS Integers, Sequences, FiniteSets, Split

VARIABLES run,   \* [plan, n0, world, builtin, targetPos]
          st     \* rank -> [k, c, pc]: iterations completed, calls made in the current one, "run" | "done" | "ret"
loopVars == <<run, st>>

Ranks == 0 .. run.world - 1
Share(N, r) == Sub(N, r, run.world)

\* the built-in callback's decision (see Session.tla): no positive target => never stop;
\* otherwise stop exactly when the combined relative error is known to be <= target
Continue(targetPositive, rel) == (~targetPositive) \/ (rel # "le")

Start(plan, n0, world, builtin, targetPos) ==
    /\ run' = [plan |-> plan, n0 |-> n0, world |-> world, builtin |-> builtin, targetPos |-> targetPos]
    /\ st' = [r \in 0 .. world - 1 |-> [k |-> 0, c |-> 0, pc |-> "run"]]

Call(r) ==
    /\ r \in Ranks /\ st[r].pc = "run" /\ st[r].k < Len(run.plan)
    /\ st[r].c < Share(run.plan[st[r].k + 1], r)              \* never more than the requested calls
    /\ st' = [st EXCEPT ![r].c = @ + 1]
    /\ UNCHANGED run

Callback(r, n, ret, cls) ==
    /\ r \in Ranks /\ st[r].pc = "run" /\ st[r].k < Len(run.plan)
    /\ st[r].c = Share(run.plan[st[r].k + 1], r)              \* after all calls of the iteration, not before
    /\ n = run.n0 + st[r].k + 1                               \* exactly the results so far
    /\ run.builtin => (cls = "edge" \/ ret = Continue(run.targetPos, cls))   \* ("edge": within rounding of the target - either)
    /\ st' = [st EXCEPT ![r] = [k |-> @.k + 1, c |-> 0, pc |-> IF ret THEN "run" ELSE "done"]]
    /\ UNCHANGED run

Returned(r, n) ==
    /\ r \in Ranks
    /\ st[r].pc = "done" \/ (st[r].pc = "run" /\ st[r].k = Len(run.plan) /\ st[r].c = 0)   \* stop iff told so, or finished
    /\ n = run.n0 + st[r].k
    /\ st' = [st EXCEPT ![r].pc = "ret"]
    /\ UNCHANGED run

\* all ranks have returned the same number of results (same stop decisions everywhere)
Finished == \A r \in Ranks : st[r].pc = "ret" /\ st[r].k = st[0].k
=============================================================================
