------------------------------- MODULE MC_Mpi -------------------------------
EXTENDS Mpi, TLC
\* plans are given through PlanId because configuration files cannot hold tuples
CONSTANT PlanId
PlanOf(i) == CASE i = 1 -> <<0, 3>> [] i = 2 -> <<1, 4>> [] i = 3 -> <<5, 2>> [] i = 4 -> <<2>> [] i = 5 -> <<4, 1, 3>> [] OTHER -> <<>>
ThePlan1 == PlanOf(1)
ThePlan2 == PlanOf(2)
ThePlan3 == PlanOf(3)
ThePlan4 == PlanOf(4)
ThePlan5 == PlanOf(5)
=============================================================================
