CONSTANTS N = 3  W = 2  D = 120
INIT Init
NEXT Next
