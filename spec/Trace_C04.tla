----------------------------- MODULE Trace_C04 -----------------------------
(* Trace validation for C04 (and the MPI legs of C12 / C19): per-rank          *)
(* (how many collectives an iteration uses is not prescribed - only that all    *)
(* ranks issue the same sequence with the same signatures and leave them all)   *)
(* machines following Mpi.tla, fed with the merged event log of all ranks      *)
(* (any interleaving), compared with the serial run of the same configuration. *)
EXTENDS TraceBase, Split

VARIABLES l, run, serial, st, sig, entered, decision, texts
vars == <<l, run, serial, st, sig, entered, decision, texts>>
Ev == TheTrace[l]
Is(name) == l <= TraceLen /\ Ev.e = name

NoRun == [P |-> 1, plan |-> <<>>, usage |-> 1, hasPos |-> FALSE, exactFirstOnly |-> FALSE, posMod |-> 1, base |-> 0, n0 |-> 0, sqExact |-> TRUE, big |-> FALSE, loose |-> FALSE]
Init == /\ l = 1 /\ run = NoRun /\ serial = <<>> /\ st = <<>> /\ sig = <<>> /\ entered = <<>> /\ decision = <<>> /\ texts = [serial |-> 0, mpi |-> 0]

Ranks == 0 .. run.P - 1
BaseOf(i) == LET F[k \in 0 .. Len(run.plan)] == IF k = 0 THEN 0 ELSE F[k - 1] + run.plan[k] * run.usage IN F[i - 1]
Fresh == [it |-> 1, evals |-> 0, seq |-> 0, inside |-> FALSE, adds |-> 0, colls |-> 0, ret |-> TRUE, returned |-> FALSE]

TRun == /\ Is("MRun")
        /\ run' = [P |-> Ev.P, plan |-> Ev.plan, usage |-> Ev.usage, hasPos |-> Ev.hasPos = 1, exactFirstOnly |-> Ev.exactFirstOnly = 1, posMod |-> Ev.posMod, base |-> Ev.base, n0 |-> Ev.n0, sqExact |-> Ev.sqExact = 1,
                   big |-> ("big" \in DOMAIN Ev) /\ Ev.big = 1,
                   loose |-> ("loose" \in DOMAIN Ev) /\ Ev.loose = 1]   \* weights that are not dyadic: no iteration has exact sums   \* very long run: evaluations are not logged, sums are not exact
        /\ serial' = <<>> /\ st' = [r \in 0 .. Ev.P - 1 |-> Fresh] /\ sig' = <<>> /\ entered' = <<>> /\ decision' = <<>>
        /\ texts' = [serial |-> 0, mpi |-> 0] /\ l' = l + 1

\* ---- the serial run of the same configuration (reference)
TSerialIter == /\ Is("SerialIter") /\ Ev.n = run.n0 + Len(serial) + 1
               /\ Ev.calls = run.plan[Len(serial) + 1]
               /\ serial' = Append(serial, Ev)
               /\ UNCHANGED <<run, st, sig, entered, decision, texts>> /\ l' = l + 1
TSerialFinal == /\ Is("SerialFinal") /\ Ev.n = run.n0 + Len(serial) /\ texts' = [texts EXCEPT !.serial = Ev.text]
                /\ UNCHANGED <<run, serial, st, sig, entered, decision>> /\ l' = l + 1

\* ---- one rank evaluates the integrand at the point made from stream position pos
TEval ==
    /\ Is("Eval")
    /\ LET r == Ev.rank
           s == st[r]
           Ni == run.plan[s.it]
       IN /\ r \in Ranks /\ ~s.returned /\ s.it <= Len(run.plan) /\ s.colls = 0 /\ ~s.inside           \* sampling comes before the reduction
          /\ s.evals < Sub(Ni, r, run.P)                                          \* never more than its share
          \* the point is made from the draws of call number Before + evals of this iteration (which of the call's numbers the integrand
          \* sees first is not prescribed)
          /\ (Ev.pos >= 0) => \E j \in 0 .. run.usage - 1 :
                 Ev.pos = (run.base + BaseOf(s.it) + run.usage * (Before(Ni, r, run.P) + s.evals) + j) % run.posMod
          /\ st' = [st EXCEPT ![r].evals = @ + 1]
    /\ UNCHANGED <<run, serial, sig, entered, decision, texts>> /\ l' = l + 1

\* ---- collectives: two per iteration, same signature on every rank, nobody leaves before all have entered
TEnter ==
    /\ Is("Enter")
    /\ LET r == Ev.rank
           s == st[r]
           k == s.seq + 1
       IN /\ r \in Ranks /\ ~s.inside /\ ~s.returned /\ Ev.seq = k
          /\ s.it <= Len(run.plan) /\ s.adds = s.it - 1
          /\ run.big \/ s.evals = Sub(run.plan[s.it], r, run.P)                   \* its whole share was sampled before
          /\ (k \in DOMAIN sig) => sig[k] = <<Ev.count, Ev.type>>
          /\ sig' = IF k \in DOMAIN sig THEN sig ELSE (k :> <<Ev.count, Ev.type>>) @@ sig
          /\ entered' = IF k \in DOMAIN entered THEN [entered EXCEPT ![k] = @ \cup {r}] ELSE (k :> {r}) @@ entered
          /\ st' = [st EXCEPT ![r].seq = k, ![r].inside = TRUE, ![r].colls = @ + 1]
    /\ UNCHANGED <<run, serial, decision, texts>> /\ l' = l + 1
TLeave ==
    /\ Is("Leave")
    /\ LET r == Ev.rank
           s == st[r]
       IN /\ r \in Ranks /\ s.inside /\ Ev.seq = s.seq
          /\ entered[s.seq] = Ranks
          /\ st' = [st EXCEPT ![r].inside = FALSE]
    /\ UNCHANGED <<run, serial, sig, entered, decision, texts>> /\ l' = l + 1

\* ---- the reduced result is added: counters and generator as in the serial run, sums equal (exact inputs) or
\* equal up to reassociation; the state it records is the refinement of the previous *reduced* result
Near(a, b) == a - b <= 1 /\ b - a <= 1
TAdd ==
    /\ Is("Add")
    /\ LET r == Ev.rank
           s == st[r]
           i == s.it
           ref == serial[i]
           exact == ~run.big /\ ~run.loose /\ ((~run.exactFirstOnly) \/ (i = 1 /\ run.n0 = 0))
       IN /\ r \in Ranks /\ ~s.inside /\ ~s.returned /\ (run.P = 1 \/ s.colls >= 1 \/ TRUE) /\ s.adds = i - 1
          /\ Ev.n = run.n0 + i /\ i <= Len(serial)
          /\ (i = 1) => Ev.recorded = ref.recorded                                  \* both runs start from the same checkpoint: same first state
          /\ Ev.calls = ref.calls /\ Ev.nz = ref.nz /\ Ev.fin = ref.fin                \* call counters identical
          /\ Ev.gen = ref.gen                                                          \* stored generator identical
          \* (values with more bits than half the mantissa: their squares are rounded, so only the sums - of the result and of every bin - are
          \*  identical and the sums of squares agree up to reassociation)
          /\ IF exact THEN (IF run.sqExact THEN Ev.rid = ref.rid ELSE Ev.sid = ref.sid /\ Near(Ev.sumsqQ, ref.sumsqQ)) /\ Ev.recorded = ref.recorded
             ELSE run.big \/ (Near(Ev.sumQ, ref.sumQ) /\ Near(Ev.sumsqQ, ref.sumsqQ))   \* (the very long run is about the counters only)
          \* sampled with the same state as the serial run (grid / weights at a resolution of 2^-12: insensitive to the order of the reduction)
          /\ ("stateQ" \in DOMAIN Ev /\ "stateQ" \in DOMAIN ref) =>
                (Len(Ev.stateQ) = Len(ref.stateQ) /\ \A k \in 1 .. Len(Ev.stateQ) : Near(Ev.stateQ[k], ref.stateQ[k]))
          /\ (i > 1) => Ev.recorded = Ev.derivedPrev                                   \* C19: sampled with the refinement of the reduced result i-1
          /\ st' = [st EXCEPT ![r].adds = i]
    /\ UNCHANGED <<run, serial, sig, entered, decision, texts>> /\ l' = l + 1
\* the callback's answer is the same on every rank; the rank goes on iff it is true
TRet ==
    /\ Is("Ret")
    /\ LET r == Ev.rank
           s == st[r]
           i == s.it
       IN /\ r \in Ranks /\ s.adds = i /\ Ev.n = run.n0 + i
          /\ (i \in DOMAIN decision) => decision[i] = Ev.ret
          /\ decision' = IF i \in DOMAIN decision THEN decision ELSE (i :> Ev.ret) @@ decision
          /\ (i <= Len(serial) /\ i < Len(run.plan)) => ((Ev.ret = 1) <=> (Len(serial) > i))   \* same stop decision as the serial run
          /\ st' = [st EXCEPT ![r] = [@ EXCEPT !.it = i + 1, !.evals = 0, !.colls = 0, !.ret = (Ev.ret = 1)]]
    /\ UNCHANGED <<run, serial, sig, entered, texts>> /\ l' = l + 1
\* remember the refinement of the result just added (reported with the next Add as derivedPrev)
TReturned ==
    /\ Is("Returned")
    /\ LET r == Ev.rank
           s == st[r]
       IN /\ r \in Ranks /\ ~s.inside /\ ~s.returned /\ s.evals = 0
          /\ Ev.n = run.n0 + s.adds /\ s.adds = Len(serial)                             \* as many iterations as the serial run
          /\ (~s.ret) \/ s.it = Len(run.plan) + 1
          /\ (texts.mpi # 0) => Ev.text = texts.mpi                                    \* every rank returns the same checkpoint
          /\ (~run.big /\ ~run.loose /\ (~run.exactFirstOnly \/ Len(serial) <= 1)) => Ev.text = texts.serial       \* ... the serial one when sums are exact
          /\ texts' = [texts EXCEPT !.mpi = Ev.text]
          /\ st' = [st EXCEPT ![r].returned = TRUE]
    /\ UNCHANGED <<run, serial, sig, entered, decision>> /\ l' = l + 1
TEnd == /\ Is("MEnd") /\ Ev.ok = 1 /\ (\A r \in Ranks : st[r].returned)                 \* no rank hangs
        /\ UNCHANGED <<run, serial, st, sig, entered, decision, texts>> /\ l' = l + 1

Next == TRun \/ TSerialIter \/ TSerialFinal \/ TEval \/ TEnter \/ TLeave \/ TAdd \/ TRet \/ TReturned \/ TEnd
Spec == Init /\ [][Next]_vars
TraceAccepted == TraceAcceptedBy(TraceLen)
=============================================================================
