----------------------------- MODULE MC_Summary -----------------------------
EXTENDS Summary, TLC
ASSUME \A n \in 1 .. 4 : \A w \in [1 .. n -> 0 .. 3] :
          LET S == (LET F[i \in 0 .. n] == IF i = 0 THEN 0 ELSE F[i - 1] + w[i] IN F[n]) IN S > 0 => StructureOK(w, S, 8)
\* many channels: the elided form never indexes outside the channels
ASSUME \A k \in 12 .. 16 : \A z \in 0 .. k - 1 :
          LET w == [i \in 1 .. k |-> IF i <= z THEN 0 ELSE i] IN StructureOK(w, 200, 1000)
ASSUME Runs(<<0, 1, 2, 5, 7, 8>>) = <<<<0, 2>>, <<5, 5>>, <<7, 8>>>>
\* the maximum difference of the first line is the spread of the adjustment data, for every data vector over 0 .. 3 of up to 4 channels
ASSUME \A n \in 1 .. 4 : \A a \in [1 .. n -> 0 .. 3] : MaxDiffIsSpread(a)
ASSUME MaxDiff(<<3>>) = 0 /\ MaxDiff(<<1, 4, 2>>) = 3
VARIABLE z
Init == z = 0
Next == z < 1 /\ z' = z + 1
=============================================================================
