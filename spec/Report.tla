------------------------------ MODULE Report -------------------------------
(***************************************************************************)
(* What the verbose callback modes report after every iteration of a      *)
(* run - serial, or rank 0 of an MPI run (growth; supports C20).  Code:    *)
(* callback.hpp `callback::operator()`:                                    *)
(*   iteration <k> finished.                                               *)
(*   this iteration: N=<n> E=<e> +- <s> (<p>%) eff=<f>% nnf=<q>            *)
(*   all iterations: N=<n*> E=<e*> +- <s*> (<p*>%) chi^2/dof=<c>           *)
(* The report after iteration i (1-based, results r_1 .. r_i) is a function *)
(* of the checkpoint handed to the callback:                                *)
(*   k = i - 1; n, e, s, q are the calls, the estimate, the error and the   *)
(*   number of non-finite evaluations of r_i; f = 100 nz_i / n_i;           *)
(*   n* = n_1 + .. + n_i; e*, s* are the variance-weighted combination and  *)
(*   c its chi^2 / dof (Combine.tla: WVar, Chi2) of r_1 .. r_i.             *)
(* Integers and the efficiency are decided exactly (Rat.tla); the floating  *)
(* point fields are compared as printed tokens: the token in the report is   *)
(* the token the same stream prints for the accessor of the checkpoint      *)
(* (`value()`, `error()`, `accumulate<weighted_with_variance>`,             *)
(* `chi_square_dof<weighted_with_variance>`), recorded as interned ids.     *)
(***************************************************************************)
EXTENDS Rat

PrefixSum(s, i) == LET F[k \in 0 .. i] == IF k = 0 THEN 0 ELSE F[k - 1] + s[k] IN F[i]

\* the efficiency as printed with six significant digits, recorded in units of 1/1000 percent (-1: not a number)
EffOK(p, nz, n) == IF n = 0 THEN p = -1 ELSE Near(p, 1000, <<100 * nz, n>>, 1)

\* e: a Lane event of a verbose mode; m iterations were reported (by the process itself or by rank 0 of the communicator)
ReportOK(e) ==
    LET m == Len(e.texts) IN
    /\ \A f \in {"pIters", "pN", "pNnf", "pEff", "pE", "pErr", "pAllN", "pAllE", "pAllErr", "pChi",
                 "cN", "cNz", "cNnf", "cE", "cErr", "cAllE", "cAllErr", "cChi"} : Len(e[f]) = m
    /\ \A i \in 1 .. m :
          /\ e.pIters[i] = i - 1                      \* iterations are counted from zero
          /\ e.pN[i] = e.cN[i]                        \* this iteration: calls,
          /\ e.pNnf[i] = e.cNnf[i]                    \*   non-finite evaluations,
          /\ e.cNz[i] <= e.cN[i] /\ e.cNnf[i] <= e.cNz[i]
          /\ EffOK(e.pEff[i], e.cNz[i], e.cN[i])      \*   share of non-zero evaluations,
          /\ e.pE[i] = e.cE[i] /\ e.pErr[i] = e.cErr[i]          \* estimate and error of the last result
          /\ e.pAllN[i] = PrefixSum(e.cN, i)          \* all iterations: calls of all results so far,
          /\ e.pAllE[i] = e.cAllE[i] /\ e.pAllErr[i] = e.cAllErr[i]  \* their variance-weighted combination
          /\ e.pChi[i] = e.cChi[i]                    \* and its chi^2 / dof
=============================================================================
