CONSTANTS P = 10 MaxLen = 150 Algo = "skip" Wide = FALSE
INIT Init
NEXT Next
INVARIANT ErrBound
