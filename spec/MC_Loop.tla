------------------------------ MODULE MC_Loop ------------------------------
(* All behaviours of the loop for small plans: callbacks may return anything. *)
EXTENDS Loop, TLC
Plans == {<<>>, <<2>>, <<1, 0, 3>>, <<2, 2>>, <<0>>}
Worlds == {1, 2, 3}
VARIABLE log      \* rank -> sequence of callback records
vars == <<loopVars, log>>
Init == \E p \in Plans : \E w \in Worlds : \E n0 \in {0, 2} :
          /\ run = [plan |-> p, n0 |-> n0, world |-> w, builtin |-> FALSE, targetPos |-> FALSE]
          /\ st = [r \in 0 .. w - 1 |-> [k |-> 0, c |-> 0, pc |-> "run"]]
          /\ log = [r \in 0 .. w - 1 |-> <<>>]
Next == \/ \E r \in Ranks : Call(r) /\ UNCHANGED log
        \/ \E r \in Ranks : \E ret \in BOOLEAN :
              /\ Callback(r, run.n0 + st[r].k + 1, ret, "user")
              /\ log' = [log EXCEPT ![r] = Append(@, [n |-> run.n0 + st[r].k + 1, calls |-> st[r].c, ret |-> ret])]
        \/ \E r \in Ranks : Returned(r, run.n0 + st[r].k) /\ UNCHANGED log
\* exactly one callback per performed iteration, in order, each after exactly that rank's share of the calls;
\* nothing happens after a callback returned false
Protocol ==
    \A r \in Ranks :
       /\ Len(log[r]) = st[r].k
       /\ \A i \in 1 .. Len(log[r]) : log[r][i].n = run.n0 + i /\ log[r][i].calls = Share(run.plan[i], r)
       /\ \A i \in 1 .. Len(log[r]) - 1 : log[r][i].ret
       /\ (Len(log[r]) > 0 /\ ~log[r][Len(log[r])].ret) => (st[r].pc \in {"done", "ret"} /\ st[r].c = 0)
       /\ st[r].pc = "ret" => (st[r].k = Len(run.plan) \/ ~log[r][Len(log[r])].ret)
=============================================================================
