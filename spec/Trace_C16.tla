----------------------------- MODULE Trace_C16 -----------------------------
(* Trace validation for C16: every observed share of the real integrators   *)
(* and helper functions must be a step of the tiling state machine.         *)
EXTENDS TraceBase, Split, Wide

VARIABLES l,        \* next event
          cur,      \* <<src, t, w>> of the split being walked
          nextR,    \* rank expected next
          endPos,   \* end of the previous rank's share
          wcur, wEnd,   \* the same for wide splits: <<t, w>> and <<hi, lo>>
          subLo, subHi  \* wide: smallest / largest share seen for this split

vars == <<l, cur, nextR, endPos, wcur, wEnd, subLo, subHi>>

Init == /\ l = 1 /\ cur = <<"", 0, 0>> /\ nextR = 0 /\ endPos = 0
        /\ wcur = <<WZero, 0>> /\ wEnd = WZero /\ subLo = WZero /\ subHi = WZero

\* one rank's share observed through an integrator running under the shim
Share ==
    /\ l <= TraceLen
    /\ LET e == TheTrace[l] IN
       /\ e.e = "Share"
       /\ IF e.r = 0 THEN TRUE ELSE cur = <<e.src, e.t, e.w>> /\ e.r = nextR
       /\ e.r < e.w
       /\ ShareOK(e.t, e.w, e.r, e.before, e.sub, e.after, IF e.r = 0 THEN 0 ELSE endPos)
       \* what the integrator did agrees with what the helper functions say:
       \* the first point evaluated is the one at stream position usage * before
       /\ (e.sub > 0) => (e.first >= e.usage * e.before /\ e.first < e.usage * (e.before + 1))
       /\ (e.sub = 0) => e.first = -1
       \* every rank ends the iteration at the same stream position
       /\ e.end = e.usage * e.t
       /\ cur' = <<e.src, e.t, e.w>>
       /\ nextR' = e.r + 1
       /\ endPos' = e.before + e.sub
    /\ l' = l + 1
    /\ UNCHANGED <<wcur, wEnd, subLo, subHi>>

\* helper functions on wide values; ranks of one split arrive in increasing order, possibly
\* with gaps (a sampled window); `next` is the start of the following rank's share
WideShare ==
    /\ l <= TraceLen
    /\ LET e == TheTrace[l]
           t == <<e.t[1], e.t[2]>>
           b == <<e.before[1], e.before[2]>>
           s == <<e.sub[1], e.sub[2]>>
           a == <<e.after[1], e.after[2]>>
           n == <<e.next[1], e.next[2]>>
           fresh == e.r = 0
       IN
       /\ e.e = "Wide"
       /\ WOk(t) /\ WOk(b) /\ WOk(s) /\ WOk(a) /\ WOk(n)
       /\ e.r < e.w
       /\ fresh \/ (wcur = <<t, e.w>> /\ e.r >= nextR)
       /\ fresh => b = WZero
       /\ (~fresh /\ e.r = nextR) => b = wEnd          \* contiguous with the previous logged rank
       /\ (~fresh /\ e.r > nextR) => WLe(wEnd, b)      \* monotone across a gap
       /\ WAdd(b, s) = n
       /\ WAdd(n, a) = t                                  \* before + sub + after = t
       /\ (e.r = e.w - 1) => n = t
       /\ WLe(n, t)
       /\ IF fresh THEN subLo' = s /\ subHi' = s
          ELSE /\ subLo' = IF WLe(s, subLo) THEN s ELSE subLo
               /\ subHi' = IF WLe(subHi, s) THEN s ELSE subHi
       /\ WNear(subLo', subHi')                           \* shares differ by at most one
       /\ wcur' = <<t, e.w>>
       /\ nextR' = e.r + 1
       /\ wEnd' = n
       /\ UNCHANGED <<cur, endPos>>
    /\ l' = l + 1

Next == Share \/ WideShare
Spec == Init /\ [][Next]_vars
TraceAccepted == TraceAcceptedBy(TraceLen)
=============================================================================
