CONSTANTS P = 3  Plan <- ThePlan2  U = 2  SkipSecondOnEmpty = FALSE  PlanId = 2
SPECIFICATION FairSpec
INVARIANT MpiInv
PROPERTY Termination
