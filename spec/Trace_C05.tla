----------------------------- MODULE Trace_C05 -----------------------------
(* Trace validation for C05: for every checkpoint the driver built, wrote     *)
(* and read back, (1) the token shape of the real text is the shape of        *)
(* Format!WChk for the abstract checkpoint with the same structure, (2) the   *)
(* reader's stream stayed good, (3) every field and every generator compared  *)
(* equal bit for bit.                                                         *)
EXTENDS TraceBase, Format
VARIABLES l
vars == <<l>>
Ev == TheTrace[l]
Init == l = 1
\* The concrete layout (which blanks / newlines separate the tokens) is not part of the property; it is compared with
\* Format!WChk only in a second pass whose failure means "the specification's writer is out of date", not a violation.
CheckLayout == "LAYOUT" \in DOMAIN IOEnv /\ IOEnv.LAYOUT = "1"

NameOf(pat) == [i \in 1 .. Len(pat) |-> IF pat[i] = 1 THEN SP ELSE Ch(1)]
McD == <<1, 1, 1, 1, 1>>
DistOf(pat, bx, by) == [name |-> NameOf(pat), par |-> <<bx, 1, 1, by, 1, 1>>, bins |-> [b \in 1 .. bx * by |-> McD]]
PdfOf(bins, dims) == [bins |-> bins, dims |-> dims, xs |-> [i \in 1 .. (bins + 1) * dims |-> 1]]
Abstract(e) ==
    LET ds == [i \in 1 .. Len(e.names) |-> DistOf(e.names[i], e.bx[i], e.by[i])]
        res == IF e.kind = "plain" THEN [head |-> McD, dists |-> ds]
               ELSE IF e.kind = "vegas" THEN [head |-> McD, dists |-> ds, pdf |-> PdfOf(e.bins, e.dims), adj |-> [i \in 1 .. e.bins * e.dims |-> 1]]
               ELSE [head |-> McD, dists |-> ds, pairs |-> [i \in 1 .. e.channels |-> <<1, 1>>]]
    IN [kind |-> e.kind, results |-> [i \in 1 .. e.nres |-> res],
        par |-> IF e.kind = "plain" THEN <<>> ELSE IF e.kind = "vegas" THEN <<1>> ELSE <<1, 1>>,
        first |-> IF e.kind = "vegas" THEN PdfOf(e.bins, e.dims) ELSE IF e.kind = "mc" THEN [i \in 1 .. e.channels |-> 1] ELSE <<>>,
        gens |-> [i \in 1 .. e.nres + 1 |-> [j \in 1 .. e.gw |-> 1]]]

KindCode(t) == IF t[1] = "nl" THEN 0 ELSE IF t[1] = "sp" THEN 1 ELSE 2
ShapeCodes(s) == [i \in 1 .. Len(s) |-> KindCode(s[i])]
\* the driver reports a maximal run of characters that are neither blank nor newline as one word (a name like "#jets" is one word)
Collapse(s) == LET F[i \in 0 .. Len(s)] == IF i = 0 THEN <<>> ELSE IF i > 1 /\ s[i] = 2 /\ s[i - 1] = 2 THEN F[i - 1] ELSE Append(F[i - 1], s[i])
               IN F[Len(s)]

Case ==
    /\ l <= TraceLen /\ Ev.e = "Case"
    /\ LET c == IF Ev.genTail = -1 THEN Abstract(Ev) ELSE [Abstract(Ev) EXCEPT !.gens = <<>>]
           s == WChk(c)
       IN /\ (CheckLayout) => Collapse(Ev.shape) = Collapse(ShapeCodes(s))   \* layout: header line, name lines, counts, field order, separators
          /\ (CheckLayout) => Ev.genTail \in {-1, 1}   \* long generator states: one per line, single blanks, nres + 1 of them
          /\ (Ev.gw <= 30) => RoundTrip(c, Ev.gw, "exact")   \* the format itself is unambiguous for this structure
    /\ Ev.good = 1                             \* the stream is still good after reading
    /\ Ev.equal = 1                            \* every field equal, bit for bit
    /\ Ev.gensEqual = 1                        \* every stored generator equal
    /\ l' = l + 1
\* distribution parameters on their own (many ranges, bin counts that are not powers of two): all read back equal, bit for bit
Params == /\ l <= TraceLen /\ Ev.e = "Params" /\ Ev.n > 0 /\ Ev.bad = 0 /\ Ev.good = 1 /\ l' = l + 1
Next == Case \/ Params
Spec == Init /\ [][Next]_vars
TraceAccepted == TraceAcceptedBy(TraceLen)
=============================================================================
