CONSTANTS Ranks = 2 Writers = {0, 1} Iterations = 2 Size = 2
SPECIFICATION Spec
INVARIANT FileCompleteOrAbsent
INVARIANT Resumable
