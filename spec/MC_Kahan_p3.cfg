CONSTANTS P = 3 MaxLen = 9 Algo = "kahan" Wide = TRUE
INIT Init
NEXT Next
INVARIANT ErrBound
