---------------------------- MODULE MC_MpiGroups ----------------------------
(* Two and three groups, different needs; as coded (local decisions) and the *)
(* world-broadcast alternative.                                              *)
EXTENDS MpiGroups
SizesV == <<2, 3>>
NeedV == <<2, 4>>
Sizes3 == <<1, 2, 2>>
Need3 == <<5, 1, 3>>
=============================================================================
