----------------------------- MODULE MC_Refine -----------------------------
EXTENDS Refine, TLC
CONSTANTS NW, WMax, RVal, BMax, G, IMax

\* ---------------- weights
WVecs == UNION {[1 .. n -> 0 .. WMax] : n \in 1 .. NW}
RVecs(n) == [1 .. n -> 0 .. RVal]
Mins(n) == {<<0, 1>>, <<1, 10>>, <<1, 5>>} \cap {m \in {<<0, 1>>, <<1, 10>>, <<1, 5>>} : m[1] * n < m[2]}
ASSUME \A w \in WVecs : ISumSeq(w) > 0 =>
          \A r \in RVecs(Len(w)) : \A m \in Mins(Len(w)) : WeightsOK(w, r, m, RefineW(w, r, m))
\* non-vacuity: the pre-fix behaviour (0/0 -> not a probability vector) is not WeightsOK; modelled by
\* returning all zeros
ASSUME ~WeightsOK(<<1, 3>>, <<0, 0>>, <<0, 1>>, <<RZero, RZero>>)
\* non-vacuity: floor applied after the final normalisation violates "sums to one"
ASSUME ~WeightsOK(<<1, 3>>, <<1, 1>>, <<1, 5>>, <<<<1, 4>>, <<4, 5>>>>)

\* ---------------- grid
\* all non-decreasing grids over k/G with B bins
RECURSIVE GridsFrom(_, _)
GridsFrom(B, lo) == IF B = 1 THEN {<<>>} ELSE {<<k>> \o g : k \in lo .. G, g \in {h \in GridsFrom(B - 1, 0) : TRUE}}
Inner(B) == {s \in [1 .. B - 1 -> 0 .. G] : \A i \in 1 .. B - 2 : s[i] <= s[i + 1]}
GridOf(s) == <<RZero>> \o [i \in 1 .. Len(s) |-> Norm(s[i], G)] \o <<ROne>>
Grids(B) == {GridOf(s) : s \in Inner(B)}
Imps(B) == [1 .. B -> 0 .. IMax]

ASSUME \A B \in 2 .. BMax : \A x \in Grids(B) : \A imp \in Imps(B) :
          LET nx == Walk(x, imp) IN GridRefineOK(x, imp, nx)
\* the new boundary stays inside the old bin the walk stopped in (containment), hence the refined
\* grid interleaves with the accumulated importance; checked through ShareAt's bin witness above.
\* Smoothing: alpha = 0 importance is 1 exactly on the bins whose smoothed value is non-zero, and an
\* iteration without any data has no importance anywhere
ASSUME \A B \in 2 .. BMax : \A d \in [1 .. B -> 0 .. 2] :
          /\ (ISumSeq(Imp0(d)) = 0) <=> (ISumSeq(d) = 0)
          /\ \A b \in 1 .. B : (d[b] > 0) => Imp0(d)[b] = 1
\* non-vacuity: before fix 47037e0 all-zero data produced the *uniform* grid
ASSUME ~GridRefineOK(GridOf(<<1>>), <<0, 0>>, <<RZero, <<1, 2>>, ROne>>) \/ G = 2
\* inverse CDF: the point lies in the reported bin and the weight is B * width
ASSUME \A B \in 2 .. BMax : \A x \in Grids(B) : \A j \in 0 .. 23 :
          LET b == IcdfBin(B, j, 24)
              y == IcdfPoint(x, j, 24)
          IN /\ b < B
             /\ RLe(x[b + 1], y) /\ RLe(y, x[b + 2])
             /\ REq(IcdfWeight(x, j, 24), RMul(R(B), RSub(x[b + 2], x[b + 1])))
\* the observed-refinement predicate accepts the exact result (floor-projected) of the walk
Floor(r, SC) == (r[1] * SC) \div r[2]
ASSUME \A B \in 2 .. 3 : \A x \in Grids(B) : \A imp \in Imps(B) :
          LET nx == Walk(x, imp)
              gx == [b \in 1 .. B + 1 |-> (x[b][1] * G) \div x[b][2]]
          IN ObservedRefineOK(gx, G, imp, [b \in 1 .. B + 1 |-> Floor(nx[b], 65536)], 65536)
VARIABLE z
Init == z = 0
Next == z < 1 /\ z' = z + 1
=============================================================================
