------------------------------ MODULE MC_Split ------------------------------
EXTENDS Split, TLC
CONSTANTS TMax, WMax
\* exhaustive small-constant check of the design-level formulas against the property
ASSUME \A t \in 0 .. TMax : \A w \in 1 .. WMax : Tiles(t, w)
\* non-vacuity: a one-character mutation of the share size (`<=` for `<`) breaks the tiling
BadSub(t, r, w) == (t \div w) + (IF r <= (t % w) THEN 1 ELSE 0)
ASSUME \E t \in 0 .. 8 : \E w \in 1 .. 4 : \E r \in 1 .. w - 1 :
          Before(t, r, w) # Before(t, r - 1, w) + BadSub(t, r - 1, w)
VARIABLE x
Init == x = 0
Next == x < 1 /\ x' = x + 1
=============================================================================
