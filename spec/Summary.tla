------------------------------ MODULE Summary ------------------------------
(***************************************************************************)
(* Structure of the multi-channel weight summary printed by the verbose    *)
(* callback modes (growth beyond the listed properties; supports C20).     *)
(* Code: multi_channel_summary.hpp, multi_channel_weight_info.hpp.         *)
(* Input: channel weights as integers over a common scale S (sum = S),     *)
(* and the calls N of the last iteration.                                  *)
(***************************************************************************)
EXTENDS Integers, Sequences, FiniteSets

\* channels (0-based) in ascending order of weight, ties in index order (stable sort)
Before(w, a, b) == w[a + 1] < w[b + 1] \/ (w[a + 1] = w[b + 1] /\ a < b)
Sorted(w) ==
    LET n == Len(w)
        Rank == [c \in 0 .. n - 1 |-> Cardinality({d \in 0 .. n - 1 : Before(w, d, c)})]
    IN [i \in 1 .. n |-> CHOOSE c \in 0 .. n - 1 : Rank[c] = i - 1]
\* expected number of calls per channel, truncated
CallsOf(w, S, N, c) == (N * w[c + 1]) \div S
\* number of channels sharing the smallest expected call count
MinCount(w, S, N) ==
    LET s == Sorted(w)
        lo == CallsOf(w, S, N, s[1])
    IN Cardinality({i \in 1 .. Len(w) : CallsOf(w, S, N, s[i]) = lo})
\* consecutive runs of a sequence of channel indices in the order given: <<a, b>> pairs
RECURSIVE Runs(_)
Runs(cs) ==
    IF cs = <<>> THEN <<>>
    ELSE LET ext[i \in 1 .. Len(cs)] == IF i = Len(cs) \/ cs[i + 1] # cs[i] + 1 THEN i ELSE ext[i + 1]
             e == ext[1]
         IN <<<<cs[1], cs[e]>>>> \o Runs(SubSeq(cs, e + 1, Len(cs)))
\* the channels printed on "   w=" lines, in order; -1 stands for the "..." line
Printed(w, S, N) ==
    LET n == Len(w)
        s == Sorted(w)
        m == MinCount(w, S, N)
        p0 == n - m
        p == IF p0 > 0 THEN p0 - 1 ELSE 0
    IN IF p = 0 THEN <<>>
       ELSE IF p <= 11 THEN [i \in 1 .. p |-> s[m + i]]
       ELSE [i \in 1 .. 5 |-> s[m + i]] \o <<-1>> \o [i \in 1 .. 5 |-> s[n - 6 + i]]
Expected(w, S, N) ==
    LET n == Len(w)
        s == Sorted(w)
        lo == CallsOf(w, S, N, s[1])
        m == Cardinality({i \in 1 .. n : CallsOf(w, S, N, s[i]) = lo})
        p0 == n - m
        p == IF p0 > 0 THEN p0 - 1 ELSE 0
        printed == IF p = 0 THEN <<>>
                   ELSE IF p <= 11 THEN [i \in 1 .. p |-> s[m + i]]
                   ELSE [i \in 1 .. 5 |-> s[m + i]] \o <<-1>> \o [i \in 1 .. 5 |-> s[n - 6 + i]]
    IN [channels |-> n, minCount |-> m, minRuns |-> Runs(SubSeq(s, 1, m)), printed |-> printed,
        wmax |-> IF m # n THEN s[n] ELSE -1]

\* sanity properties of the structure itself
StructureOfOK(w, e) ==
    /\ e.minCount >= 1 /\ e.minCount <= e.channels
    /\ \A i \in 1 .. Len(e.printed) : e.printed[i] = -1 \/ (e.printed[i] >= 0 /\ e.printed[i] < e.channels)
    /\ Len(e.printed) <= 11
    /\ (e.wmax # -1) => \A c \in 1 .. Len(w) : w[c] <= w[e.wmax + 1]
StructureOK(w, S, N) == StructureOfOK(w, Expected(w, S, N))
\* the first line of the summary reports the maximum difference D = max_{i < j} |W_i - W_j| of the adjustment data W of the last result
\* (multi_channel_max_difference.hpp); for a single channel there is no pair and D = 0
AbsDiff(a, b) == IF a < b THEN b - a ELSE a - b
MaxDiff(adj) ==
    LET P == {<<i, j>> \in (1 .. Len(adj)) \X (1 .. Len(adj)) : i < j}
    IN IF P = {} THEN 0 ELSE CHOOSE d \in {AbsDiff(adj[p[1]], adj[p[2]]) : p \in P} : \A q \in P : AbsDiff(adj[q[1]], adj[q[2]]) <= d
\* ... which is the spread of the data
MaxDiffIsSpread(adj) ==
    Len(adj) >= 1 => \E i, j \in 1 .. Len(adj) : /\ \A k \in 1 .. Len(adj) : adj[j] <= adj[k] /\ adj[k] <= adj[i]
                                                 /\ MaxDiff(adj) = adj[i] - adj[j]
=============================================================================
