SPECIFICATION Spec
CONSTANTS
  Family <- MCFamily
  MaxFills = 2
  Stride = "area"
  ReadStride = "area"
INVARIANTS TypeOK InBounds NoAlias ReadsOwnFills
