----------------------------- MODULE Trace_Call -----------------------------
(* Trace validation against Call.tla, shared by C02 (estimator), C10 (fixed  *)
(* generator consumption) and C17 (call protocol): the recorded events of    *)
(* real PLAIN / VEGAS / multi-channel iterations must be a behaviour of the   *)
(* call state machine, and every iteration result must be what the machine   *)
(* accumulated.                                                               *)
EXTENDS TraceBase, Call

VARIABLES l, eng, mapSelf,  \* mapSelf: identity of the map object that was asked for the coordinates of the call in flight
          fseq             \* the integrand object's own count of its evaluations, as logged with the last one (-1: none yet in this iteration)
vars == <<callVars, l, eng, mapSelf, fseq>>

Init == /\ l = 1 /\ eng = <<0, 0>> /\ mapSelf = 0 /\ fseq = -1
        /\ cfg = [kind |-> "none", d |-> 0, k |-> 0, n |-> 0, w |-> <<>>, bins |-> 0, calls |-> 0, noSq |-> FALSE]
        /\ phase = "Idle" /\ pos = 0 /\ cur = NoCall
        /\ acc = [calls |-> 0, nz |-> 0, fin |-> 0, sum |-> 0, sumsq |-> 0, adj |-> <<>>, exact |-> TRUE]

Ev == TheTrace[l]
Is(name) == l <= TraceLen /\ Ev.e = name
Step == l' = l + 1
Keep == UNCHANGED <<eng, mapSelf, fseq>>

TIterBegin ==
    /\ Is("IterBegin")
    /\ phase = "Idle"
    /\ (eng[1] > 0) => Ev.k = Usage(eng[1], eng[2])
    /\ UNCHANGED <<eng, mapSelf>> /\ fseq' = -1
    /\ BeginIter([kind |-> Ev.kind, d |-> Ev.d, k |-> Ev.k, n |-> Ev.n, w |-> Ev.w, bins |-> Ev.bins, calls |-> Ev.calls, noSq |-> Ev.noSq = 1])
    /\ Step

TDraw == Keep /\ Is("Draw") /\ Draw(Ev.n) /\ Step
TMapCoord == Is("MapCoord") /\ UNCHANGED <<eng, fseq>> /\ mapSelf' = Ev.self /\ MapCoord(Ev.ch, Ev.enabled, Ev.rn, Ev.caddr, Ev.daddr, Ev.unitOK = 1) /\ Step
TMapCoordDone == Keep /\ Is("MapCoordDone") /\ MapCoordDone(Ev.csum, Ev.dsum) /\ Step
\* the function object that is evaluated is one and the same throughout an iteration (its own state moves on by one per evaluation)
TIntBegin == Is("IntBegin") /\ UNCHANGED <<eng, mapSelf>> /\ (fseq = -1 \/ Ev.fseq = fseq + 1) /\ fseq' = Ev.fseq /\ IntBegin(Ev.unitOK = 1, Ev.chan, Ev.csum, Ev.caddr) /\ Step
TWeightReq == Keep /\ Is("WeightReq") /\ WeightReq /\ Step
\* "the map is asked for densities": the object that computed the coordinates, not a copy of it (a map may keep state between the two requests)
TMapDens == Is("MapDens") /\ Keep /\ Ev.self = mapSelf /\ MapDens(Ev.ch, Ev.rn, Ev.caddr, Ev.csum, Ev.daddr, Ev.dsum) /\ Step
TIntEnd == Keep /\ Is("IntEnd") /\ IntEnd(<<Ev.vt, Ev.v>>, <<Ev.wt, Ev.w>>, Ev.p, Ev.bin) /\ Step

TIterEnd ==
    /\ Is("IterEnd")
    /\ ResultOK([calls |-> Ev.calls, nz |-> Ev.nz, fin |-> Ev.fin, sum |-> Ev.sum, sumsq |-> Ev.sumsq, adj |-> Ev.adj])
    /\ acc'.exact => Ev.sumExact = 1
    /\ Ev.tail = 0                      \* nothing is drawn after the last call
    /\ Ev.genEq = 1                     \* stored generator = generator before, advanced by calls * usage
    /\ Ev.predK = cfg.k                 \* the library's usage predictor reports the measured cost
    /\ Ev.derivedOK = 1                 \* value = sum / N, variance = (sumsq / N - value^2) / (N - 1)
    /\ Ev.finite = 1
    /\ phase' = "Idle" /\ cur' = NoCall /\ UNCHANGED <<cfg, pos>>
    /\ Step /\ Keep

\* informational marker: which engine / numeric type the following iterations use
TEngine == Is("Engine") /\ phase = "Idle" /\ Step /\ UNCHANGED <<callVars, mapSelf, fseq>> /\ eng' = <<Ev.digits, Ev.lg>>

Next == TEngine \/ TIterBegin \/ TDraw \/ TMapCoord \/ TMapCoordDone \/ TIntBegin \/ TWeightReq \/ TMapDens \/ TIntEnd \/ TIterEnd
Spec == Init /\ [][Next]_vars
TraceAccepted == TraceAcceptedBy(TraceLen)
=============================================================================
