------------------------------ MODULE FileSys ------------------------------
(***************************************************************************)
(* The checkpoint file under process kills (property C18).                 *)
(* A file's content is <<ck, len>>: the first `len` bytes of the text of   *)
(* checkpoint number ck; Absent when the name does not exist.  The process *)
(* can be killed in every state and inside every write (any byte prefix),  *)
(* so the property is an invariant of *all* states, including the          *)
(* intermediate states of a write.  Code: callback.hpp (the block that     *)
(* writes the checkpoint).                                                 *)
(***************************************************************************)
EXTENDS Integers, Sequences, FiniteSets, TLC

VARIABLES dir,    \* name -> content
          cur,    \* number of the checkpoint being written (number of results it holds)
          sizes   \* checkpoint number -> size of its text in bytes
fsVars == <<dir, cur, sizes>>

Absent == <<-1, 0>>
Lookup(d, name) == IF name \in DOMAIN d THEN d[name] ELSE Absent
Put(d, name, c) == IF name \in DOMAIN d THEN [d EXCEPT ![name] = c] ELSE (name :> c) @@ d

Complete(c) == c # Absent /\ c[1] \in DOMAIN sizes /\ c[2] = sizes[c[1]]
\* the property: the target file, if it exists, is a complete checkpoint - the previous one or the new one
TargetOK(d, target) ==
    LET c == Lookup(d, target) IN c = Absent \/ (Complete(c) /\ c[1] \in {cur - 1, cur})

\* a new checkpoint (with k results, text of `size` bytes) is about to be written
Announce(k, size) == cur' = k /\ sizes' = (IF k \in DOMAIN sizes THEN [sizes EXCEPT ![k] = size] ELSE (k :> size) @@ sizes) /\ UNCHANGED dir
\* open for writing: truncation empties the file, creation makes an empty one
OpenW(name, trunc, creat) ==
    /\ dir' = IF trunc \/ (creat /\ Lookup(dir, name) = Absent) THEN Put(dir, name, <<cur, 0>>) ELSE dir
    /\ UNCHANGED <<cur, sizes>>
\* n more bytes of the text of checkpoint `cur` reach the file
WriteN(name, n) ==
    /\ LET c == Lookup(dir, name) IN dir' = Put(dir, name, <<cur, (IF c = Absent THEN 0 ELSE c[2]) + n>>)
    /\ UNCHANGED <<cur, sizes>>
RenameTo(from, to) ==
    /\ Lookup(dir, from) # Absent
    /\ dir' = Put(Put(dir, to, Lookup(dir, from)), from, Absent)
    /\ UNCHANGED <<cur, sizes>>
Remove(name) == dir' = Put(dir, name, Absent) /\ UNCHANGED <<cur, sizes>>
=============================================================================
