-------------------------------- MODULE Call --------------------------------
(***************************************************************************)
(* One iteration of an integrator as a state machine over integrand calls  *)
(* (properties C02, C06, C10, C17).  Code anchors: plain.hpp:57-74,        *)
(* vegas.hpp:69-89, multi_channel.hpp:82-133, accumulator.hpp,             *)
(* multi_channel_point.hpp (lazy weight).                                  *)
(*                                                                         *)
(* A value is <<tag, n>>: <<"fin", n>> an exactly known integer (scaled),  *)
(* or <<"nan", 0>>, <<"+inf", 0>>, <<"-inf", 0>>, or <<"unk", 0>> (finite  *)
(* but not exactly projected - only counters are tracked then).            *)
(***************************************************************************)
EXTENDS Integers, Sequences, FiniteSets

VARIABLES
    cfg,     \* the iteration: [kind, d, k, n (channels), w (weight pattern), bins, calls (requested), noSq]
    phase,   \* "Idle" | "Drawn" | "Mapped" | "Evaluating" | "Returned"
    pos,     \* raw generator outputs consumed so far in this iteration
    cur,     \* the call in flight: [chan, rn, caddr, csum, daddr, wreq, dens, v, w, p, bin]
    acc      \* [calls, nz, fin, sum, sumsq, adj, exact]

callVars == <<cfg, phase, pos, cur, acc>>

IsFin(v) == v[1] = "fin"
IsNonFinite(v) == v[1] \in {"nan", "+inf", "-inf"}
Known(v) == v[1] # "unk"

\* raw generator outputs per canonical number with b mantissa bits for a generator whose range has
\* floor(log2(range)) = lg  (generate_canonical; the library's predictor random_number_usage must agree)
Usage(b, lg) == IF (b + lg - 1) \div lg < 1 THEN 1 ELSE (b + lg - 1) \div lg

PerCall(c) == (IF c.kind = "mc" THEN c.d + 1 ELSE c.d) * c.k

EnabledSet(w) == {i \in 1 .. Len(w) : w[i] # 0}
EnabledSeq(w) == LET F[i \in 0 .. Len(w)] ==
                        IF i = 0 THEN <<>> ELSE IF w[i] # 0 THEN Append(F[i - 1], i - 1) ELSE F[i - 1]
                 IN F[Len(w)]

NoCall == [chan |-> -1, rn |-> 0, caddr |-> 0, csum |-> 0, daddr |-> 0, dsum |-> 0, wreq |-> FALSE, dens |-> 0,
           v |-> <<"fin", 0>>, w |-> <<"fin", 0>>, p |-> <<>>, bin |-> <<>>]

ZeroAdj(c) == IF c.kind = "vegas" THEN [i \in 1 .. c.d * c.bins |-> 0]
              ELSE IF c.kind = "mc" THEN [i \in 1 .. c.n |-> 0] ELSE <<>>

BeginIter(c) ==
    /\ cfg' = c
    /\ phase' = "Idle"
    /\ pos' = 0
    /\ cur' = NoCall
    /\ acc' = [calls |-> 0, nz |-> 0, fin |-> 0, sum |-> 0, sumsq |-> 0, adj |-> ZeroAdj(c), exact |-> TRUE]

\* ---- accumulation of a finished call (accumulator.hpp::invoke and the adjustment data loops)
\* product value * weight: non-finite if either factor is (a zero value is never multiplied)
Prod(v, w) == IF IsNonFinite(v) \/ IsNonFinite(w) THEN <<"nan", 0>>
              ELSE IF v[1] = "unk" \/ w[1] = "unk" THEN <<"unk", 0>>
              ELSE <<"fin", v[2] * w[2]>>

\* a: accumulator, c: cfg, v: value returned by the integrand, w: point weight, p: densities, bin: bins
Accumulated(a, c, v, w, p, bin) ==
    IF v = <<"fin", 0>> THEN [a EXCEPT !.calls = @ + 1]                          \* zero: nothing else happens
    ELSE LET fw == Prod(v, w) IN
         IF IsNonFinite(fw) THEN [a EXCEPT !.calls = @ + 1, !.nz = @ + 1]       \* counted as non-zero only
         ELSE IF fw[1] = "unk" THEN [a EXCEPT !.calls = @ + 1, !.nz = @ + 1, !.fin = @ + 1, !.exact = FALSE]
         ELSE LET x == fw[2]
                  sq == x * x
                  adj == IF c.kind = "vegas"
                         THEN [i \in 1 .. c.d * c.bins |->
                                 a.adj[i] + (IF \E j \in 1 .. c.d : i = (j - 1) * c.bins + bin[j] + 1 THEN sq ELSE 0)]
                         ELSE IF c.kind = "mc" /\ x # 0
                         THEN [i \in 1 .. c.n |-> a.adj[i] + p[i] * sq * w[2]]
                         ELSE a.adj
              IN [a EXCEPT !.calls = @ + 1, !.nz = @ + 1, !.fin = @ + 1,
                           !.sum = @ + x, !.sumsq = @ + sq, !.adj = adj]

\* internal step: the call in flight (if any) is accumulated
Finish ==
    IF phase = "Returned"
    THEN /\ (cfg.kind = "mc" /\ cur.v # <<"fin", 0>>) => cur.dens > 0           \* densities were needed
         /\ acc' = Accumulated(acc, cfg, cur.v, cur.w, cur.p, cur.bin)
    ELSE phase = "Idle" /\ acc' = acc

\* ---- protocol actions
\* the random numbers of the next call have been drawn: always the same amount (C10)
Draw(n) ==
    /\ phase \in {"Idle", "Returned"}
    /\ Finish
    /\ n = PerCall(cfg)
    /\ pos' = pos + n
    /\ phase' = "Drawn"
    /\ cur' = NoCall
    /\ UNCHANGED cfg

\* multi channel: the map is asked for coordinates with an enabled channel and the complete list
MapCoord(ch, enabled, rn, caddr, daddr, unitOK) ==
    /\ cfg.kind = "mc" /\ phase = "Drawn"
    /\ ch + 1 \in EnabledSet(cfg.w)
    /\ enabled = EnabledSeq(cfg.w)
    /\ unitOK                                                 \* random numbers in [0, 1)
    /\ cur' = [cur EXCEPT !.chan = ch, !.rn = rn, !.caddr = caddr, !.daddr = daddr]
    /\ phase' = "Mapped"
    /\ UNCHANGED <<cfg, pos, acc>>

\* csum / dsum: checksums of the coordinate and density buffers as the map left them
MapCoordDone(csum, dsum) ==
    /\ phase = "Mapped" /\ cur.csum = 0
    /\ cur' = [cur EXCEPT !.csum = csum, !.dsum = dsum]
    /\ UNCHANGED <<cfg, pos, acc, phase>>

IntBegin(unitOK, chanSeen, csumSeen, caddrSeen) ==
    /\ phase = (IF cfg.kind = "mc" THEN "Mapped" ELSE "Drawn")
    /\ unitOK
    /\ (cfg.kind = "mc") => (chanSeen = cur.chan /\ csumSeen = cur.csum /\ caddrSeen = cur.caddr)
    /\ phase' = "Evaluating"
    /\ UNCHANGED <<cfg, pos, acc, cur>>

WeightReq ==
    /\ phase = "Evaluating"
    /\ cur' = [cur EXCEPT !.wreq = TRUE]
    /\ UNCHANGED <<cfg, pos, acc, phase>>

\* densities: only when needed, with the same channel, numbers and buffers, untouched in between
MapDens(ch, rn, caddr, csum, daddr, dsum) ==
    /\ cfg.kind = "mc"
    /\ \/ (phase = "Evaluating" /\ cur.wreq)
       \/ (phase = "Returned" /\ cur.v # <<"fin", 0>>)
    /\ ch = cur.chan /\ rn = cur.rn /\ caddr = cur.caddr /\ daddr = cur.daddr /\ csum = cur.csum
    /\ (cur.dens = 0) => dsum = cur.dsum                    \* density buffer untouched since the coordinates call
    /\ cur' = [cur EXCEPT !.dens = @ + 1]
    /\ UNCHANGED <<cfg, pos, acc, phase>>

\* v: value returned; w: the point's weight; p: densities (mc); bin: bins (vegas)
IntEnd(v, w, p, bin) ==
    /\ phase = "Evaluating"
    /\ (cfg.kind = "vegas") => (Len(bin) = cfg.d /\ \A j \in 1 .. cfg.d : bin[j] >= 0 /\ bin[j] < cfg.bins)
    /\ cur' = [cur EXCEPT !.v = v, !.w = w, !.p = p, !.bin = bin]
    /\ phase' = "Returned"
    /\ UNCHANGED <<cfg, pos, acc>>

\* ---- what the iteration must report (C02 / C10)
ResultOK(r) ==
    /\ phase \in {"Idle", "Returned"}
    /\ Finish
    /\ r.calls = cfg.calls /\ acc'.calls = cfg.calls        \* exactly N evaluations, reported as N
    /\ r.nz = acc'.nz /\ r.fin = acc'.fin
    /\ acc'.fin <= acc'.nz /\ acc'.nz <= acc'.calls
    /\ pos = cfg.calls * PerCall(cfg)
    \* (noSq: the values of this iteration are so small that their squares underflow in the numeric type; only the sum is compared)
    /\ acc'.exact => (r.sum = acc'.sum /\ (cfg.noSq \/ (r.sumsq = acc'.sumsq /\ r.adj = acc'.adj)))

\* ---- invariants of the state machine itself (checked by TLC on MC_Call)
TypeOK ==
    /\ phase \in {"Idle", "Drawn", "Mapped", "Evaluating", "Returned"}
    /\ acc.fin <= acc.nz /\ acc.nz <= acc.calls
DensOnlyWhenNeeded == (cur.dens > 0) => (cur.wreq \/ (phase = "Returned" /\ cur.v # <<"fin", 0>>))
FixedConsumption == pos = (acc.calls + (IF phase = "Idle" THEN 0 ELSE 1)) * PerCall(cfg)
=============================================================================
