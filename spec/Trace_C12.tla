----------------------------- MODULE Trace_C12 -----------------------------
EXTENDS TraceBase, Loop
VARIABLES l
vars == <<loopVars, l>>
Ev == TheTrace[l]
Is(name) == l <= TraceLen /\ Ev.e = name
Init == /\ l = 1
        /\ run = [plan |-> <<>>, n0 |-> 0, world |-> 1, builtin |-> FALSE, targetPos |-> FALSE]
        /\ st = [r \in 0 .. 0 |-> [k |-> 0, c |-> 0, pc |-> "ret"]]
TRun == /\ Is("Run") /\ (\A r \in Ranks : st[r].pc = "ret")
        /\ Start(Ev.plan, Ev.n0, IF Ev.world = 0 THEN 1 ELSE Ev.world, Ev.builtin = 1, Ev.targetPos = 1)
        /\ l' = l + 1
TCall == Is("Call") /\ Call(Ev.rank) /\ l' = l + 1
\* (a user callback with state of its own: it is the object handed to the integrator that is invoked every time, so its answers are those of
\*  an object that has seen all invocations)
TCallback == Is("Callback") /\ Callback(Ev.rank, Ev.n, Ev.ret = 1, Ev.cls) /\ (("want" \in DOMAIN Ev) => Ev.ret = Ev.want) /\ l' = l + 1
TReturned == Is("Returned") /\ Returned(Ev.rank, Ev.n) /\ l' = l + 1
TRunEnd == Is("RunEnd") /\ Finished /\ UNCHANGED loopVars /\ l' = l + 1
Next == TRun \/ TCall \/ TCallback \/ TReturned \/ TRunEnd
Spec == Init /\ [][Next]_vars
TraceAccepted == TraceAcceptedBy(TraceLen)
=============================================================================
