----------------------------- MODULE TraceBase -----------------------------
(* Plumbing shared by all Trace_* specifications: the recorded NDJSON trace, *)
(* the cursor `l`, and the acceptance postcondition.                        *)
EXTENDS Integers, Sequences, TLC, Json, IOUtils

TraceFile == IF "TRACE" \in DOMAIN IOEnv THEN IOEnv.TRACE ELSE "trace.ndjson"
TheTrace == ndJsonDeserialize(TraceFile)
TraceLen == Len(TheTrace)

Has(rec, f) == f \in DOMAIN rec

\* Acceptance: the state graph of a trace specification is a chain with one state per consumed
\* event plus the initial state.
TraceAcceptedBy(n) ==
    LET d == TLCGet("stats").diameter
    IN IF d - 1 = n THEN TRUE ELSE PrintT(<<"VT_MATCHED", d - 1>>) /\ FALSE
=============================================================================
