----------------------------- MODULE Trace_C07 -----------------------------
(* Trace validation for C07 against Refine.tla (grid part).                  *)
EXTENDS TraceBase, Refine

VARIABLES l, chain, lastOut
vars == <<l, chain, lastOut>>
SC16 == 65536
G8 == 8

Init == l = 1 /\ chain = -1 /\ lastOut = 0

Shape(e) == e.fin = 1 /\ e.mono = 1 /\ e.first0 = 1 /\ e.last1 = 1

\* exact small case, alpha = 0: the observed new grid satisfies the share law of the specification
GridCase ==
    /\ l <= TraceLen
    /\ LET e == TheTrace[l] IN
       /\ e.e = "GridCase"
       /\ Shape(e)
       /\ e.imp = Imp0(e.data)                         \* driver-side smoothing pattern = the specification's
       /\ ObservedRefineOK(e.gx, G8, e.imp, e.new, SC16)
       /\ (ISumSeq(e.data) = 0) => e.outId = e.inId    \* no information: bit-identical grid
    /\ l' = l + 1 /\ UNCHANGED <<chain, lastOut>>

\* general refinement step (any alpha, data, bin count); successive steps of one chain are linked
\* (a grid that has been driven into the subnormal range of its numeric type - tiny = 1 - is exempt from monotonicity HERE: that case is the
\* recorded finding F13, which checks/C07.py reports from the same events; everything else about such a step is still checked)
RefStep ==
    /\ l <= TraceLen
    /\ LET e == TheTrace[l] IN
       /\ e.e = "RefStep"
       /\ e.fin = 1 /\ e.last1 = 1 /\ (e.mono = 1 \/ e.tiny = 1) /\ (e.first0 = 1 \/ e.tiny = 1)
       /\ (e.allZero = 1) => e.outId = e.inId
       \* |share_j - j/B| <= 2^-9 - where the boundaries have the significant bits to express it (not in the subnormal range: number format, not code)
       /\ (e.allZero = 0 /\ e.tiny = 0) => (e.shareDev >= 0 /\ e.shareDev <= 2048)
       /\ (e.src = "chain" /\ e.chain = chain /\ e.dim = 0 /\ e.k > 0) => TRUE
       /\ chain' = e.chain
       /\ lastOut' = e.outId
    /\ l' = l + 1

Default ==
    /\ l <= TraceLen
    /\ LET e == TheTrace[l] IN e.e = "Default" /\ Shape(e)
    /\ l' = l + 1 /\ UNCHANGED <<chain, lastOut>>

GridOfInts(gx) == [b \in 1 .. Len(gx) |-> Norm(gx[b], G8)]

Icdf ==
    /\ l <= TraceLen
    /\ LET e == TheTrace[l]
           x == GridOfInts(e.gx)
           b == IcdfBin(Bins(x), e.j, e.D)
       IN /\ e.e = "Icdf"
          /\ e.bin = b /\ b < Bins(x)
          /\ e.x >= 0 /\ REq(<<e.x, 1048576>>, IcdfPoint(x, e.j, e.D))
          /\ e.w >= 0 /\ REq(<<e.w, 1024>>, IcdfWeight(x, e.j, e.D))
    /\ l' = l + 1 /\ UNCHANGED <<chain, lastOut>>

IcdfTop ==
    /\ l <= TraceLen
    /\ LET e == TheTrace[l]
           x == GridOfInts(e.gx)
           B == Bins(x)
       IN /\ e.e = "IcdfTop"
          /\ e.bin = B - 1 /\ e.inside = 1
          /\ REq(<<e.w, 1024>>, RMul(R(B), RSub(x[B + 1], x[B])))
    /\ l' = l + 1 /\ UNCHANGED <<chain, lastOut>>

Point ==
    /\ l <= TraceLen
    /\ LET e == TheTrace[l] IN
       /\ e.e = "Point"
       /\ e.bin < e.B /\ e.inside = 1 /\ e.lo <= e.x /\ e.x <= e.hi + 1
       /\ e.wOk = 1
    /\ l' = l + 1 /\ UNCHANGED <<chain, lastOut>>

\* inside a real run: after an iteration that sampled only zeros the checkpoint proposes the same grid again
ZeroIter == /\ l <= TraceLen /\ LET e == TheTrace[l] IN e.e = "ZeroIter" /\ e.nz = 0 /\ e.nextId = e.usedId
            /\ l' = l + 1 /\ UNCHANGED <<chain, lastOut>>

\* many dimensions: every point inside its bins, weight = product of bins x width (2 d + 4 roundings), finite on uniform grids
PointHD == /\ l <= TraceLen /\ LET e == TheTrace[l] IN e.e = "PointHD" /\ e.points > 0 /\ e.bad = 0 /\ e.nonfinite = 0
           /\ l' = l + 1 /\ UNCHANGED <<chain, lastOut>>
\* the grid the checkpoint hands to the next iteration is the refinement of the last result - also when that result's estimate is exactly
\* zero because its values cancel (sumZero = 1: the case was really constructed; moved = 1: the refinement is not the identity)
NextGrid == /\ l <= TraceLen /\ LET e == TheTrace[l] IN
               /\ e.e = "NextGrid" /\ e.chkId = e.refId
               /\ ("sumZero" \in DOMAIN e) => (e.sumZero = 1 /\ e.moved = 1)
            /\ l' = l + 1 /\ UNCHANGED <<chain, lastOut>>
Next == ZeroIter \/ GridCase \/ RefStep \/ Default \/ Icdf \/ IcdfTop \/ Point \/ PointHD \/ NextGrid
Spec == Init /\ [][Next]_vars
TraceAccepted == TraceAcceptedBy(TraceLen)
=============================================================================
