CONSTANTS Sizes <- SizesV Need <- NeedV MaxIt = 5 Mode = "world"
SPECIFICATION Spec
INVARIANT Independent
PROPERTY Termination
