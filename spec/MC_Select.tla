----------------------------- MODULE MC_Select -----------------------------
EXTENDS Select, TLC
CONSTANTS N, W, D
Weights == UNION {[1 .. n -> 0 .. W] : n \in 1 .. N}
Good(w) == Total(w) > 0
Lattice == 0 .. D - 1

\* every canonical number has exactly one owner, the owner is enabled and admissible,
\* and the code's choice (upper_bound) is the owner
ASSUME \A w \in Weights : Good(w) =>
          \A j \in Lattice :
             /\ Cardinality(Owner(w, j, D)) = 1
             /\ Owner(w, j, D) \subseteq Admissible(w, j, D)
             /\ PickUpper(w, j, D) \in Owner(w, j, D)
\* selection probabilities equal the weights (D is a multiple of every possible weight sum)
ASSUME \A w \in Weights : Good(w) =>
          \A i \in 1 .. Len(w) :
             Cardinality({j \in Lattice : Owner(w, j, D) = {i}}) * Total(w) = D * w[i]
\* away from a boundary there is no freedom at all
ASSUME \A w \in Weights : Good(w) =>
          \A j \in Lattice :
             (\A i \in 0 .. Len(w) : (Cum(w, i) * D - j * Total(w)) \notin (1 - Total(w)) .. (Total(w) - 1))
                => Admissible(w, j, D) = Owner(w, j, D)
\* the enabled list is increasing, complete and contains enabled channels only
ASSUME \A w \in Weights :
          LET L == EnabledList(w) IN
          /\ {L[k] + 1 : k \in 1 .. Len(L)} = Enabled(w)
          /\ \A k \in 1 .. Len(L) - 1 : L[k] < L[k + 1]
\* non-vacuity / as-coded before the fix: lower_bound picks a disabled leading channel at u = 0
ASSUME \E w \in Weights : Good(w) /\ PickLower(w, 0, D) \notin Admissible(w, 0, D)
ASSUME \A w \in Weights : Good(w) => CountOK(w, D, [i \in 1 .. Len(w) |->
                                   Cardinality({j \in Lattice : PickUpper(w, j, D) = i})])
\* the carry chain of LimbQ is the floor of the exact quotient (base 4, three limbs, every x, S <= 9, the addend at every limb), and the
\* first channel above it is the owner of x / 4^3 on the lattice of 64 points
ASSUME \A b \in [1 .. 3 -> 0 .. 3] : \A S \in 1 .. 9 : \A o \in 0 .. 2 : \A add \in {0, 1, 5, 8 * S} :
          LimbQ(b, S, o, add, 4) = (LimbValue(b, 4) * S + add * 4 ^ o) \div 64
ASSUME \A w \in Weights : (Good(w) /\ Len(w) <= 3) =>
          \A b \in [1 .. 3 -> 0 .. 3] : {FirstAbove(w, LimbQ(b, Total(w), 0, 0, 4))} = Owner(w, LimbValue(b, 4), 64)
\* a boundary that coincides with the largest lattice point belongs to the upper channel (half-open intervals), also behind disabled ones
ASSUME Owner(<<15, 1>>, 15, 16) = {2} /\ Owner(<<15, 1>>, 14, 16) = {1} /\ Owner(<<0, 15, 1, 0>>, 15, 16) = {3} /\ PickUpper(<<0, 15, 1, 0>>, 15, 16) = 3
VARIABLE x
Init == x = 0
Next == x < 1 /\ x' = x + 1
=============================================================================
