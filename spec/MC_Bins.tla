------------------------------ MODULE MC_Bins ------------------------------
EXTENDS Bins, TLC
\* scale 4: sizes {1/4, 1, 3} -> {1, 4, 12}; xmin {-2, 0, 1/2} -> {-8, 0, 2}
Sizes == {1, 4, 12}
Mins == {-8, 0, 2}
Params == [bx : 1 .. 3, by : 1 .. 2, xmin : Mins, sx : Sizes, ymin : {0, 2}, sy : {4, 12}]
Tags == {<<"nan", 0>>, <<"+inf", 0>>, <<"-inf", 0>>}
Coords(min, size, bins) == {Fin(min + ((k * size) \div 4)) : k \in -8 .. (4 * bins + 8)} \cup Tags

\* interior: exactly one bin; on an edge: at most the two neighbours; outside and tags: nothing
ASSUME \A p \in Params : \A x \in Coords(p.xmin, p.sx, p.bx) : \A y \in {Fin(p.ymin), Fin(p.ymin + (p.sy \div 2)), Fin(p.ymin + p.sy * p.by), <<"nan", 0>>} :
          LET B == BinOf(p, x, y)
              sx == AxisStrict(x, p.xmin, p.sx, p.bx)
              sy == AxisStrict(y, p.ymin, p.sy, p.by)
              strict == IF sx = NoBin \/ sy = NoBin THEN NoBin ELSE sy * p.bx + sx
          IN /\ strict \in B                                            \* the half-open owner is admissible
             /\ Cardinality(B) <= 4
             /\ \A f \in B : f = NoBin \/ (f >= 0 /\ f < p.bx * p.by)
             /\ (IsTag(x) \/ IsTag(y)) => B = {NoBin}
             /\ (~IsTag(x) /\ ~IsTag(y) /\ (x[2] - p.xmin) % p.sx # 0 /\ (y[2] - p.ymin) % p.sy # 0) => B = {strict}
             /\ (~IsTag(x) /\ (x[2] < p.xmin - p.sx \/ x[2] > p.xmin + p.sx * (p.bx + 1))) => B = {NoBin}
\* flat order agrees with the mid-points: the bin that owns its own mid-point is itself
ASSUME \A p \in Params : \A f \in 1 .. p.bx * p.by :
          LET mx == MidX2(p)[f]
              my == MidY2(p)[f]
              q == [p EXCEPT !.xmin = 2 * p.xmin, !.sx = 2 * p.sx, !.ymin = 2 * p.ymin, !.sy = 2 * p.sy]
          IN BinOf(q, Fin(mx), Fin(my)) = {f - 1}
\* non-vacuity: the pre-fix conversion (huge coordinate -> bin 0) is not admissible
ASSUME 0 \notin BinOf([bx |-> 4, by |-> 1, xmin |-> 0, sx |-> 1, ymin |-> 0, sy |-> 4], <<"+inf", 0>>, Fin(0))
VARIABLE z
Init == z = 0
Next == z < 1 /\ z' = z + 1
=============================================================================
