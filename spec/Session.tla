------------------------------ MODULE Session ------------------------------
(***************************************************************************)
(* The integrator loop and the checkpoint object over uninterpreted terms  *)
(* (properties C03, C12, C15, C19, C20).  Code anchors: plain.hpp:86-101,  *)
(* vegas.hpp:107-125, multi_channel.hpp:152-169, chkpt.hpp,                *)
(* vegas_chkpt.hpp, multi_channel_chkpt.hpp, callback.hpp.                 *)
(*                                                                         *)
(*   State  ::= <<"Init">> | <<"Refine", State, Data>>                     *)
(*   Gen    ::= <<"Seed">> | <<"Adv", Gen, calls>>                         *)
(*   Data   ::= <<"D", State, Gen, calls>>   (pure integrand)              *)
(*   Result ::= <<"R", State, Gen, calls>>                                 *)
(***************************************************************************)
EXTENDS Integers, Sequences, FiniteSets

InitState == <<"Init">>
Seed == <<"Seed">>
Refine(s, d) == <<"Refine", s, d>>
Adv(g, c) == <<"Adv", g, c>>
DataOf(s, g, c) == <<"D", s, g, c>>
ResultOf(s, g, c) == <<"R", s, g, c>>
RState(r) == r[2]
RGen(r) == r[3]
RCalls(r) == r[4]
RData(r) == DataOf(r[2], r[3], r[4])

\* ---- property level: the checkpoint of an uninterrupted run that performed the calls `cs`
RECURSIVE StateAfter(_), GenAfter(_)
GenAfter(cs) == IF cs = <<>> THEN Seed ELSE Adv(GenAfter(SubSeq(cs, 1, Len(cs) - 1)), cs[Len(cs)])
StateAfter(cs) ==
    IF cs = <<>> THEN InitState
    ELSE LET p == SubSeq(cs, 1, Len(cs) - 1)
         IN Refine(StateAfter(p), DataOf(StateAfter(p), GenAfter(p), cs[Len(cs)]))
ResultK(cs, k) == LET p == SubSeq(cs, 1, k - 1) IN ResultOf(StateAfter(p), GenAfter(p), cs[k])
\* a checkpoint is what a user can observe of it: the results, the generators, and the state the
\* next iteration will use
ChkOf(cs) == [results |-> [k \in 1 .. Len(cs) |-> ResultK(cs, k)],
              gens |-> [k \in 1 .. Len(cs) + 1 |-> GenAfter(SubSeq(cs, 1, k - 1))],
              next |-> StateAfter(cs)]

\* ---- design level: the checkpoint object as coded
\* chk = [results, gens, first]; `first` is <<>> when absent (e.g. default VEGAS checkpoint before
\* dimensions() / a checkpoint read from text before the fix)
NextState(c) == IF c.results = <<>> THEN c.first
                ELSE LET r == c.results[Len(c.results)] IN Refine(RState(r), RData(r))
GenOf(c) == c.gens[Len(c.gens)]
Fresh == [results |-> <<>>, gens |-> <<Seed>>, first |-> InitState]
\* one iteration: take generator and state *from the checkpoint*, sample, add
Iterated(c, calls) ==
    LET g == GenOf(c)
        s == NextState(c)
    IN [c EXCEPT !.results = Append(@, ResultOf(s, g, calls)), !.gens = Append(@, Adv(g, calls))]
\* text round trip: the first state is written only while there are no results; the reader
\* restores it from the first result                                   [after fix ac56e79]
Reloaded(c) == [c EXCEPT !.first = IF c.results = <<>> THEN c.first ELSE RState(c.results[1])]
ReloadedNoFirst(c) == [c EXCEPT !.first = IF c.results = <<>> THEN c.first ELSE <<"Lost">>]   \* before the fix
\* rollback(k): keep k results and k+1 generators                      [after fix 5240915]
RolledBack(c, k) == [c EXCEPT !.results = SubSeq(@, 1, k), !.gens = SubSeq(@, 1, k + 1)]
RolledBackEraseFromK(c, k) == [c EXCEPT !.results = SubSeq(@, 1, k), !.gens = SubSeq(@, 1, k)]  \* before the fix

Observable(c) == [results |-> c.results, gens |-> c.gens, next |-> NextState(c)]

\* ---- the built-in callback's decision (callback.hpp): rel is the class of the relative error of
\* the combined result with respect to the target: "le" (<= target), "gt" (> target), "nan"
Continue(targetPositive, rel) == (~targetPositive) \/ (rel # "le")
ContinueAsCodedBefore(targetPositive, rel) == rel = "gt"          \* `rel_err > target`, before fix bb5946d;
                                                                  \* with target 0: "le" iff rel_err = 0
=============================================================================
