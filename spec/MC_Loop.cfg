INIT Init
NEXT Next
INVARIANT Protocol
