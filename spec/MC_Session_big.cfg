CONSTANTS MaxIter = 5  MaxOps = 6  CallsSet = {1, 2}
INIT Init
NEXT Next
INVARIANT Inv
