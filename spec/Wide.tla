-------------------------------- MODULE Wide --------------------------------
(* Non-negative integers up to 2^40 as two 20-bit limbs <<hi, lo>>; TLC has  *)
(* 32-bit integers only and aborts on overflow.                              *)
EXTENDS Naturals, Sequences
B20 == 1048576
WNorm(hi, lo) == <<hi + (lo \div B20), lo % B20>>
WAdd(a, b) == WNorm(a[1] + b[1], a[2] + b[2])
WOk(a) == Len(a) = 2 /\ a[1] >= 0 /\ a[2] >= 0 /\ a[2] < B20 /\ a[1] < B20
WLe(a, b) == a[1] < b[1] \/ (a[1] = b[1] /\ a[2] <= b[2])
WZero == <<0, 0>>
\* |a - b| <= 1
WNear(a, b) == a = b \/ WAdd(a, <<0, 1>>) = b \/ WAdd(b, <<0, 1>>) = a
=============================================================================
