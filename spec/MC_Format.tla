----------------------------- MODULE MC_Format -----------------------------
(* Round-trip theorem over a bounded family of abstract checkpoints.          *)
EXTENDS Format, TLC

Names == {<<>>, <<Ch(1)>>, <<SP>>, <<SP, Ch(1)>>, <<Ch(1), SP>>, <<Ch(1), SP, Ch(2)>>}
Mc(i) == <<100 + i, 101 + i, 102 + i, 103 + i, 104 + i>>
Dist(name, bx, by, i) == [name |-> name, par |-> <<bx, 200 + i, 201 + i, by, 202 + i, 203 + i>>, bins |-> [b \in 1 .. bx * by |-> Mc(10 * b + i)]]
DistSets == {<<>>}
       \cup {<<Dist(n, bx, by, 1)>> : n \in Names, bx \in 1 .. 2, by \in 1 .. 2}
       \cup {<<Dist(n1, 1, 1, 1), Dist(n2, 2, 1, 2)>> : n1 \in Names, n2 \in Names}
Pdf(i) == [bins |-> 2, dims |-> 1, xs |-> <<300 + i, 301 + i, 302 + i>>]
ResultOf(k, ds, i) ==
    IF k = "plain" THEN [head |-> Mc(i), dists |-> ds]
    ELSE IF k = "vegas" THEN [head |-> Mc(i), dists |-> ds, pdf |-> Pdf(i), adj |-> <<400 + i, 401 + i>>]
    ELSE [head |-> Mc(i), dists |-> ds, pairs |-> <<<<500 + i, 501 + i>>, <<502 + i, 503 + i>>>>]
Gen(i) == <<600 + i, 601 + i>>
ChkOfKind(k, nres, ds) ==
    [kind |-> k, results |-> [i \in 1 .. nres |-> ResultOf(k, ds, 10 * i)],
     par |-> IF k = "plain" THEN <<>> ELSE IF k = "vegas" THEN <<700>> ELSE <<701, 702>>,
     first |-> IF k = "vegas" THEN Pdf(50) ELSE IF k = "mc" THEN <<800, 801>> ELSE <<>>,
     gens |-> [i \in 1 .. nres + 1 |-> Gen(i)]]
Family == {ChkOfKind(k, n, ds) : k \in {"plain", "vegas", "mc"}, n \in 0 .. 2, ds \in DistSets}

ASSUME \A c \in Family : RoundTrip(c, 2, "exact")
\* non-vacuity / as coded before fix 84d9fba: the whitespace-skipping name reader loses empty and blank-led names
ASSUME \E c \in Family : ~RoundTrip(c, 2, "skipws")
ASSUME \A c \in Family : (\A r \in 1 .. Len(c.results) : \A d \in 1 .. Len(c.results[r].dists) :
                            LET nm == c.results[r].dists[d].name IN nm # <<>> /\ nm[1] # SP)
                         => RoundTrip(c, 2, "skipws")
ASSUME PrintT(<<"VT_FAMILY", Cardinality(Family)>>)
VARIABLE z
Init == z = 0
Next == z < 1 /\ z' = z + 1
=============================================================================
