---------------------------- MODULE FileSys_apa ----------------------------
(***************************************************************************)
(* Unbounded discharge (Apalache, SMT) of the file protocol of property    *)
(* C18: the temporary-file-then-rename protocol of callback.hpp keeps the  *)
(* target file absent or a complete checkpoint - the previous or the new   *)
(* one - in every state, for ANY number of iterations and ANY sizes of the *)
(* checkpoint texts (MC_FileSys explores 3 iterations of 3..5 bytes with   *)
(* TLC and is the module bound to the code by Trace_C18; this module is    *)
(* the same state machine over integers, with the two files as pairs of    *)
(* integer variables instead of a directory function).                     *)
(*                                                                         *)
(* IndInv is inductive:  Init => IndInv  (length 0)  and                   *)
(* IndInv /\ Next => IndInv'  (length 1 from the states satisfying IndInv).*)
(* IndInv => TargetOK, the property.  `Direct = TRUE` is the protocol that *)
(* writes into the target itself: there the induction step fails.          *)
(***************************************************************************)
EXTENDS Integers

CONSTANT
    \* @type: Bool;
    Direct

VARIABLES
    \* @type: Int;
    tgtCk,      \* checkpoint number in the target file, -1: the name does not exist
    \* @type: Int;
    tgtLen,     \* bytes of it that are in the file
    \* @type: Int;
    tmpCk,      \* the same for the temporary file
    \* @type: Int;
    tmpLen,
    \* @type: Int;
    cur,        \* number of the checkpoint being written (results it holds)
    \* @type: Int;
    curSize,    \* size of the text of checkpoint cur
    \* @type: Int;
    prevSize,   \* size of the text of checkpoint cur - 1
    \* @type: Str;
    pc,
    \* @type: Int;
    left,       \* bytes of the current write that have not reached the file yet
    \* @type: Bool;
    killed

CInit == Direct = FALSE
CInitDirect == Direct = TRUE

SizeOf(k) == IF k = cur THEN curSize ELSE prevSize
\* the property (FileSys!TargetOK)
TargetOK == tgtCk = -1 \/ (tgtCk \in {cur - 1, cur} /\ tgtLen = SizeOf(tgtCk))

Init ==
    /\ tgtCk = -1 /\ tgtLen = 0 /\ tmpCk = -1 /\ tmpLen = 0
    /\ cur = 0 /\ curSize = 0 /\ prevSize = 0 /\ pc = "idle" /\ left = 0 /\ killed = FALSE

\* a new checkpoint, one result longer, of any positive size
Begin ==
    /\ pc = "idle" /\ ~killed
    /\ \E s \in Nat : s >= 1 /\ curSize' = s /\ left' = s
    /\ cur' = cur + 1 /\ prevSize' = curSize /\ pc' = "open"
    /\ UNCHANGED <<tgtCk, tgtLen, tmpCk, tmpLen, killed>>
\* open with truncation / creation: the file written to is empty afterwards
Open ==
    /\ pc = "open" /\ ~killed /\ pc' = "write"
    /\ IF Direct THEN tgtCk' = cur /\ tgtLen' = 0 /\ UNCHANGED <<tmpCk, tmpLen>>
       ELSE tmpCk' = cur /\ tmpLen' = 0 /\ UNCHANGED <<tgtCk, tgtLen>>
    /\ UNCHANGED <<cur, curSize, prevSize, left, killed>>
\* one more byte reaches the file (a kill may come between any two bytes)
Write ==
    /\ pc = "write" /\ left > 0 /\ ~killed /\ left' = left - 1
    /\ IF Direct THEN tgtLen' = tgtLen + 1 /\ UNCHANGED <<tmpLen>> ELSE tmpLen' = tmpLen + 1 /\ UNCHANGED <<tgtLen>>
    /\ UNCHANGED <<tgtCk, tmpCk, cur, curSize, prevSize, pc, killed>>
Close ==
    /\ pc = "write" /\ left = 0 /\ ~killed
    /\ pc' = (IF Direct THEN "idle" ELSE "rename")
    /\ UNCHANGED <<tgtCk, tgtLen, tmpCk, tmpLen, cur, curSize, prevSize, left, killed>>
Rename ==
    /\ pc = "rename" /\ ~killed /\ tmpCk # -1
    /\ tgtCk' = tmpCk /\ tgtLen' = tmpLen /\ tmpCk' = -1 /\ tmpLen' = 0 /\ pc' = "idle"
    /\ UNCHANGED <<cur, curSize, prevSize, left, killed>>
Kill ==
    /\ ~killed /\ killed' = TRUE
    /\ UNCHANGED <<tgtCk, tgtLen, tmpCk, tmpLen, cur, curSize, prevSize, pc, left>>
Next == Begin \/ Open \/ Write \/ Close \/ Rename \/ Kill

TypeOK ==
    /\ tgtCk \in Int /\ tgtLen \in Int /\ tmpCk \in Int /\ tmpLen \in Int /\ cur \in Int /\ curSize \in Int /\ prevSize \in Int
    /\ pc \in {"idle", "open", "write", "rename"} /\ left \in Int /\ killed \in BOOLEAN

\* the inductive invariant of the temporary-file protocol
IndInv ==
    /\ TypeOK
    /\ cur >= 0 /\ curSize >= 0 /\ prevSize >= 0 /\ left >= 0 /\ left <= curSize
    /\ TargetOK
    \* while the new checkpoint is on its way the target still is the previous one (or absent) ...
    /\ (pc \in {"open", "write", "rename"}) => (cur >= 1 /\ (tgtCk = -1 \/ tgtCk = cur - 1))
    \* ... the temporary file holds what has been written of the new one ...
    /\ (pc = "open") => left = curSize
    /\ (pc = "write") => (tmpCk = cur /\ tmpLen = curSize - left)
    /\ (pc = "rename") => (tmpCk = cur /\ tmpLen = curSize /\ left = 0)
    \* ... and between two checkpoints the target is the latest one (absent only before the first)
    /\ (pc = "idle") => ((cur = 0 /\ tgtCk = -1) \/ (tgtCk = cur /\ tgtLen = curSize))
=============================================================================
