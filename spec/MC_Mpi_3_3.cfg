CONSTANTS P = 3  Plan <- ThePlan3  U = 2  SkipSecondOnEmpty = FALSE  PlanId = 3
INIT Init
NEXT Next
INVARIANT MpiInv
CHECK_DEADLOCK TRUE
