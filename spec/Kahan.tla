-------------------------------- MODULE Kahan --------------------------------
(***************************************************************************)
(* Compensated summation (property C14) in a toy binary floating-point     *)
(* format: integers with a P-bit significand, unbounded exponent, round to *)
(* nearest even.  All values of the model are integers (fixed-point units),*)
(* so every operation of the algorithm is an integer operation followed by *)
(* rounding.  Code: accumulator.hpp, hep::accumulate (lines 38-47).        *)
(***************************************************************************)
EXTENDS Integers, Sequences

CONSTANT P      \* significand bits

Abs(x) == IF x < 0 THEN -x ELSE x
RECURSIVE BitLen(_)
BitLen(x) == IF x = 0 THEN 0 ELSE 1 + BitLen(x \div 2)
RECURSIVE Pow2(_)
Pow2(n) == IF n = 0 THEN 1 ELSE 2 * Pow2(n - 1)

\* round the integer x to P significant bits, ties to even
Rnd(x) ==
    LET a == Abs(x)
        s == BitLen(a) - P
    IN IF s <= 0 THEN x
       ELSE LET u == Pow2(s)
                q == a \div u
                rem == a % u
                half == u \div 2
                q2 == IF rem > half \/ (rem = half /\ q % 2 = 1) THEN q + 1 ELSE q
            IN (IF x < 0 THEN -1 ELSE 1) * q2 * u
\* unit in the last place of a positive integer magnitude
Ulp(x) == LET s == BitLen(Abs(x)) - P IN IF s <= 0 THEN 1 ELSE Pow2(s)

\* ---- design level, as coded
KahanStep(sum, comp, v) ==
    LET y == Rnd(v - comp)
        t == Rnd(sum + y)
    IN <<t, Rnd(Rnd(t - sum) - y)>>            \* <<new sum, new compensation>>
NaiveStep(sum, comp, v) == <<Rnd(sum + v), 0>>
\* "optimisation" that skips the update when the addend does not change the sum (loses the small terms)
SkipStep(sum, comp, v) ==
    LET y == Rnd(v - comp)
        t == Rnd(sum + y)
    IN IF t = sum THEN <<sum, comp>> ELSE <<t, Rnd(Rnd(t - sum) - y)>>

\* ---- property level: the reported sum differs from the exact one by at most K units in the last place of the
\* sum of the magnitudes
\* (first-order term of the classical bound (2u + O(n u^2)) sum|v|; the second-order term n u^2 sum|v| is kept
\* explicitly because it is not negligible in tiny formats)
K == 2
SecondOrder(absSum, n) == ((absSum \div Pow2(P - 1)) * n) \div Pow2(P - 1)
WithinBound(sum, exact, absSum, n) == Abs(sum - exact) <= K * Ulp(absSum) + SecondOrder(absSum, n)
=============================================================================
