------------------------------ MODULE MC_Kahan ------------------------------
(* All value sequences up to MaxLen over an alphabet of mixed magnitude and   *)
(* sign; the algorithm is selected by Algo so that the same model shows the    *)
(* bound for the compensated sum and its violation for the naive / skipping    *)
(* variants.                                                                   *)
EXTENDS Kahan, TLC
CONSTANTS MaxLen, Algo, Wide
Alphabet == IF Wide THEN {1, -1, 3, -5, 16, 48, -80, 256} ELSE {4096, 1}
VARIABLES sum, comp, exact, absSum, n
vars == <<sum, comp, exact, absSum, n>>
Init == sum = 0 /\ comp = 0 /\ exact = 0 /\ absSum = 0 /\ n = 0
Step(v) == LET r == IF Algo = "kahan" THEN KahanStep(sum, comp, v) ELSE IF Algo = "naive" THEN NaiveStep(sum, comp, v) ELSE SkipStep(sum, comp, v)
           IN sum' = r[1] /\ comp' = r[2] /\ exact' = exact + v /\ absSum' = absSum + Abs(v) /\ n' = n + 1
Next == n < MaxLen /\ \E v \in Alphabet : Step(v)
ErrBound == WithinBound(sum, exact, absSum, n)
=============================================================================
