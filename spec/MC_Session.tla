----------------------------- MODULE MC_Session -----------------------------
(* Exhaustive exploration of all histories of the checkpoint object and the   *)
(* integrator loop: run (one iteration at a time, with a callback that may    *)
(* stop), return / begin again in memory, save + load through text, rollback  *)
(* to any k, with unequal calls.  `done` is the history variable: the calls   *)
(* of the iterations that are still part of the checkpoint.                   *)
EXTENDS Session, TLC
CONSTANTS MaxIter, MaxOps, CallsSet

VARIABLES chk, done, ops, cbLog, running, lastRet, mode, chk2
vars == <<chk, done, ops, cbLog, running, lastRet, mode, chk2>>

Modes == {"silent", "silent_write", "verbose", "verbose_write"}

Init == /\ chk = Fresh /\ done = <<>> /\ ops = 0 /\ cbLog = <<>> /\ running = FALSE /\ lastRet = TRUE
        /\ mode \in Modes /\ chk2 = Fresh

\* the loop: iterate, add, call back exactly once with the checkpoint so far, stop iff it returns false
Iterate(c, ret) ==
    /\ running
    /\ Len(done) < MaxIter
    /\ chk' = Iterated(chk, c)
    /\ chk2' = Iterated(chk2, c)              \* the same run under the "silent" mode (C20 self-composition)
    /\ done' = Append(done, c)
    /\ cbLog' = Append(cbLog, [n |-> Len(chk'.results), d |-> Len(done'), ret |-> ret])
    /\ lastRet' = ret
    /\ running' = ret                         \* stop immediately iff the callback returned false
    /\ UNCHANGED <<ops, mode>>

Begin == /\ ~running /\ ops < MaxOps /\ running' = TRUE /\ ops' = ops + 1 /\ lastRet' = TRUE
         /\ UNCHANGED <<chk, done, cbLog, mode, chk2>>
Return == /\ running /\ running' = FALSE /\ UNCHANGED <<chk, done, ops, cbLog, lastRet, mode, chk2>>
SaveLoad == /\ ~running /\ ops < MaxOps /\ chk' = Reloaded(chk) /\ chk2' = Reloaded(chk2) /\ ops' = ops + 1
            /\ UNCHANGED <<done, cbLog, running, lastRet, mode>>
Rollback(k) == /\ ~running /\ ops < MaxOps /\ ops' = ops + 1
               /\ IF k > Len(chk.results)
                  THEN UNCHANGED <<chk, done, chk2>>                     \* rejected, nothing changes
                  ELSE chk' = RolledBack(chk, k) /\ chk2' = RolledBack(chk2, k) /\ done' = SubSeq(done, 1, k)
               /\ UNCHANGED <<cbLog, running, lastRet, mode>>

Next == \/ \E c \in CallsSet : \E ret \in BOOLEAN : Iterate(c, ret)
        \/ Begin \/ Return \/ SaveLoad
        \/ \E k \in 0 .. MaxIter + 1 : Rollback(k)

\* C03 + C15 + C19: whatever happened, the checkpoint is observably the checkpoint of the
\* uninterrupted run that performed exactly the surviving iterations
ChkIsUninterrupted == Observable(chk) = ChkOf(done)
GensInvariant == Len(chk.gens) = Len(chk.results) + 1
\* C20: the mode never influences the checkpoint
ModeNonInterference == chk = chk2
\* C12: one callback per iteration, in order, with exactly the results so far
CallbackProtocol == \A i \in 1 .. Len(cbLog) : cbLog[i].n = cbLog[i].d /\ cbLog[i].n >= 1
StopsOnFalse == (~lastRet) => ~running
Inv == ChkIsUninterrupted /\ GensInvariant /\ ModeNonInterference /\ CallbackProtocol /\ StopsOnFalse

\* non-vacuity (as coded before the fixes): each alternative breaks the invariant somewhere
ASSUME LET c == Iterated(Iterated(Fresh, 1), 2) IN Observable(RolledBackEraseFromK(c, 1)) # ChkOf(<<1>>)
ASSUME LET c == Iterated(Fresh, 1) IN Observable(RolledBack(ReloadedNoFirst(c), 0)) # ChkOf(<<>>)
\* the built-in callback: target 0 never stops; positive target stops exactly at the first "le"
ASSUME \A rel \in {"le", "gt", "nan"} : Continue(FALSE, rel)
ASSUME \A rel \in {"le", "gt", "nan"} : Continue(TRUE, rel) <=> (rel # "le")
ASSUME \E rel \in {"le", "gt", "nan"} : ~ContinueAsCodedBefore(FALSE, rel)
=============================================================================
