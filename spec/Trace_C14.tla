----------------------------- MODULE Trace_C14 -----------------------------
(* Trace validation for C14.  Toy events: the result of the library's own      *)
(* hep::accumulate instantiated on minifloat<P> for a run-length encoded value *)
(* sequence; the specification computes the exact sum and the sum of           *)
(* magnitudes and applies the error bound of Kahan.tla.  SumCheck events:      *)
(* real numeric types, error in units in the last place of the sum of          *)
(* magnitudes as measured by the driver against an exact integer sum.          *)
EXTENDS TraceBase
VARIABLES l
vars == <<l>>
Ev == TheTrace[l]
Init == l = 1

K3 == INSTANCE Kahan WITH P <- 3
K4 == INSTANCE Kahan WITH P <- 4
K5 == INSTANCE Kahan WITH P <- 5
K16 == INSTANCE Kahan WITH P <- 16
AbsI(x) == IF x < 0 THEN -x ELSE x
ExactOf(r) == LET F[i \in 0 .. Len(r) \div 2] == IF i = 0 THEN 0 ELSE F[i - 1] + r[2 * i - 1] * r[2 * i] IN F[Len(r) \div 2]
AbsOf(r) == LET F[i \in 0 .. Len(r) \div 2] == IF i = 0 THEN 0 ELSE F[i - 1] + AbsI(r[2 * i - 1]) * r[2 * i] IN F[Len(r) \div 2]

Toy == /\ l <= TraceLen /\ Ev.e = "Toy"
       /\ LET ex == ExactOf(Ev.rle)
              ab == AbsOf(Ev.rle)
              n == LET F[i \in 0 .. Len(Ev.rle) \div 2] == IF i = 0 THEN 0 ELSE F[i - 1] + Ev.rle[2 * i] IN F[Len(Ev.rle) \div 2]
          IN CASE Ev.P = 3 -> K3!WithinBound(Ev.sum, ex, ab, n)
               [] Ev.P = 4 -> K4!WithinBound(Ev.sum, ex, ab, n)
               [] Ev.P = 5 -> K5!WithinBound(Ev.sum, ex, ab, n)
               [] OTHER -> K16!WithinBound(Ev.sum, ex, ab, n)
       /\ l' = l + 1
\* the bound must not grow with N: a few units in the last place for every N, for the integral and every bin
SumCheck == /\ l <= TraceLen /\ Ev.e = "SumCheck"
            /\ Ev.errUlps <= 4
            /\ \A b \in 1 .. Len(Ev.binErrUlps) : Ev.binErrUlps[b] <= 4
            /\ l' = l + 1
Next == Toy \/ SumCheck
Spec == Init /\ [][Next]_vars
TraceAccepted == TraceAcceptedBy(TraceLen)
=============================================================================
