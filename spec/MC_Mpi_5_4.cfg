CONSTANTS P = 4  Plan <- ThePlan5  U = 2  SkipSecondOnEmpty = FALSE  PlanId = 5
INIT Init
NEXT Next
INVARIANT MpiInv
CHECK_DEADLOCK TRUE
