------------------------------ MODULE MpiFile ------------------------------
(***************************************************************************)
(* The checkpoint file when several processes run the same integration    *)
(* (mpi_callback.hpp + callback.hpp), property C18 under MPI.              *)
(*                                                                         *)
(* Every rank reaches its callback after the collectives of an iteration;  *)
(* nothing orders the callbacks of different ranks.  `Writers` is the set  *)
(* of ranks whose callback writes the file: {0} as coded (all other ranks  *)
(* are silenced), all ranks in the alternative.  Files are inodes, a name  *)
(* is a directory entry: a rank that still holds a descriptor keeps        *)
(* writing into the inode after another rank has truncated or renamed it.  *)
(* The process group can be killed in every state.                         *)
(***************************************************************************)
EXTENDS Integers, Sequences, FiniteSets, TLC

CONSTANTS Ranks,        \* number of processes
          Writers,      \* ranks whose callback writes the checkpoint
          Iterations,   \* callbacks per rank
          Size          \* bytes per checkpoint (every prefix is a state)

VARIABLES inodes,   \* inode number -> [ck, len, torn]: the first len bytes of checkpoint ck (torn: not a prefix of any checkpoint)
          dir,      \* name -> inode number
          it,       \* rank -> number of the checkpoint its next callback would write
          pc,       \* rank -> "sample" | "open" | "write" | "rename"
          fd,       \* rank -> [ino, off]: open descriptor and file offset
          done,     \* number of completed collectives (iterations everybody has finished sampling)
          killed
vars == <<inodes, dir, it, pc, fd, done, killed>>

R == 0 .. Ranks - 1
Target == "chk"
Tmp == "chk.tmp"
NoFd == [ino |-> 0, off |-> 0]

Init == /\ inodes = <<>> /\ dir = <<>> /\ it = [r \in R |-> 1] /\ pc = [r \in R |-> "sample"]
        /\ fd = [r \in R |-> NoFd] /\ done = 0 /\ killed = FALSE

Lookup(name) == IF name \in DOMAIN dir THEN dir[name] ELSE 0

\* the collective of iteration k completes when every rank has finished the callback of iteration k - 1
Collective ==
    /\ ~killed /\ done < Iterations
    /\ \A r \in R : pc[r] = "sample" /\ it[r] = done + 1
    /\ done' = done + 1
    /\ pc' = [r \in R |-> IF r \in Writers THEN "open" ELSE "sample"]
    /\ it' = [r \in R |-> IF r \in Writers THEN it[r] ELSE it[r] + 1]       \* silenced ranks return from the callback at once
    /\ UNCHANGED <<inodes, dir, fd, killed>>

\* open(tmp, O_CREAT | O_TRUNC): truncates the inode the name refers to (whoever else still writes into it), or creates one
Open(r) ==
    /\ ~killed /\ pc[r] = "open"
    /\ LET old == Lookup(Tmp)
           ino == IF old # 0 THEN old ELSE Len(inodes) + 1
       IN /\ inodes' = IF old # 0 THEN [inodes EXCEPT ![old] = [ck |-> it[r], len |-> 0, torn |-> FALSE]]
                       ELSE Append(inodes, [ck |-> it[r], len |-> 0, torn |-> FALSE])
          /\ dir' = IF old # 0 THEN dir ELSE (Tmp :> ino) @@ dir
          /\ fd' = [fd EXCEPT ![r] = [ino |-> ino, off |-> 0]]
    /\ pc' = [pc EXCEPT ![r] = "write"]
    /\ UNCHANGED <<it, done, killed>>

\* one byte of the text of checkpoint it[r] at the descriptor's offset
WriteByte(r) ==
    /\ ~killed /\ pc[r] = "write" /\ fd[r].off < Size
    /\ LET f == inodes[fd[r].ino]
           ok == ~f.torn /\ fd[r].off = f.len /\ (f.ck = it[r] \/ f.len = 0)    \* appends the next byte of the same text
       IN inodes' = [inodes EXCEPT ![fd[r].ino] =
              IF ok THEN [ck |-> it[r], len |-> f.len + 1, torn |-> FALSE]
              ELSE IF fd[r].off < f.len /\ f.ck = it[r] /\ ~f.torn THEN f        \* rewrites a byte with the same value (same text)
              ELSE [f EXCEPT !.torn = TRUE, !.len = IF fd[r].off + 1 > f.len THEN fd[r].off + 1 ELSE f.len]]
    /\ fd' = [fd EXCEPT ![r].off = @ + 1]
    /\ UNCHANGED <<dir, it, pc, done, killed>>

CloseFile(r) ==
    /\ ~killed /\ pc[r] = "write" /\ fd[r].off = Size
    /\ pc' = [pc EXCEPT ![r] = "rename"] /\ fd' = [fd EXCEPT ![r] = NoFd]
    /\ UNCHANGED <<inodes, dir, it, done, killed>>

\* rename(tmp, target); fails (and is ignored, as coded) when another rank has renamed the temporary file away already
Rename(r) ==
    /\ ~killed /\ pc[r] = "rename"
    /\ dir' = IF Lookup(Tmp) # 0 THEN [n \in (DOMAIN dir \cup {Target}) \ {Tmp} |-> IF n = Target THEN dir[Tmp] ELSE dir[n]] ELSE dir
    /\ pc' = [pc EXCEPT ![r] = "sample"] /\ it' = [it EXCEPT ![r] = @ + 1]
    /\ UNCHANGED <<inodes, fd, done, killed>>

Kill == ~killed /\ killed' = TRUE /\ UNCHANGED <<inodes, dir, it, pc, fd, done>>

Next == Collective \/ (\E r \in R : Open(r) \/ WriteByte(r) \/ CloseFile(r) \/ Rename(r)) \/ Kill
Spec == Init /\ [][Next]_vars

\* the property: whenever the target exists it is a complete checkpoint (of the last or the last but one iteration)
Complete(f) == ~f.torn /\ f.len = Size
FileCompleteOrAbsent ==
    LET t == Lookup(Target) IN t = 0 \/ (Complete(inodes[t]) /\ inodes[t].ck \in {done - 1, done})
\* ... in particular in the state a kill leaves behind
Resumable == killed => FileCompleteOrAbsent
=============================================================================
