CONSTANTS MaxCalls = 4
INIT Init
NEXT Next
INVARIANT Inv
INVARIANT DensWhenNeeded
