CONSTANTS MaxCalls = 3
INIT Init
NEXT Next
INVARIANT Inv
INVARIANT DensWhenNeeded
