----------------------------- MODULE MpiGroups -----------------------------
(***************************************************************************)
(* Several integrations at the same time on disjoint communicators of one  *)
(* world (as after MPI_Comm_split): C04 / C12 under MPI.                   *)
(*                                                                         *)
(* Every rank of a group samples its share, joins the collective of its    *)
(* group, and evaluates the callback on the reduced result.  As coded      *)
(* (Mode = "local") every rank computes the decision itself from the       *)
(* reduced result, which is identical on all ranks of the group.  In the   *)
(* alternative (Mode = "world") the rank with world rank 0 decides and     *)
(* broadcasts its decision on the world communicator.                      *)
(*                                                                         *)
(* Need[g]: number of iterations after which the result of group g         *)
(* reaches its target (the callback returns false at that iteration).      *)
(***************************************************************************)
EXTENDS Integers, Sequences, FiniteSets, TLC

CONSTANTS Sizes,     \* <<size of group 1, size of group 2, ...>>
          Need,      \* <<iterations group g needs>>
          MaxIt,     \* length of the calls list
          Mode       \* "local" | "world"

Groups == 1 .. Len(Sizes)
Base(g) == LET F[i \in 0 .. Len(Sizes)] == IF i = 0 THEN 0 ELSE F[i - 1] + Sizes[i] IN F[g - 1]
Ranks == 0 .. Base(Len(Sizes)) + Sizes[Len(Sizes)] - 1           \* world ranks
GroupOf(r) == CHOOSE g \in Groups : Base(g) <= r /\ r < Base(g) + Sizes[g]
Members(g) == {r \in Ranks : GroupOf(r) = g}

VARIABLES pc,        \* rank -> "sample" | "reduce" | "decide" | "bcast" | "done"
          it,        \* rank -> iterations completed
          inColl,    \* group -> set of ranks waiting in the group's collective
          inWorld,   \* set of ranks waiting in the world broadcast
          verdict    \* rank -> decision the rank is about to act on (TRUE = go on)
vars == <<pc, it, inColl, inWorld, verdict>>

Init == /\ pc = [r \in Ranks |-> IF MaxIt = 0 THEN "done" ELSE "sample"] /\ it = [r \in Ranks |-> 0]
        /\ inColl = [g \in Groups |-> {}] /\ inWorld = {} /\ verdict = [r \in Ranks |-> TRUE]

\* the decision the documented rule gives for group g after k iterations
GoOn(g, k) == k < Need[g]

Sample(r) == /\ pc[r] = "sample" /\ pc' = [pc EXCEPT ![r] = "reduce"]
             /\ inColl' = [inColl EXCEPT ![GroupOf(r)] = @ \cup {r}] /\ UNCHANGED <<it, inWorld, verdict>>

\* the collective of a group completes when all its members have arrived; everybody leaves with the reduced result
Reduce(g) == /\ inColl[g] = Members(g)
             /\ inColl' = [inColl EXCEPT ![g] = {}]
             /\ pc' = [r \in Ranks |-> IF r \in Members(g) THEN "decide" ELSE pc[r]]
             /\ it' = [r \in Ranks |-> IF r \in Members(g) THEN it[r] + 1 ELSE it[r]]
             /\ UNCHANGED <<inWorld, verdict>>

\* as coded: the decision is a function of the reduced result, hence the same on every rank of the group
DecideLocal(r) == /\ Mode = "local" /\ pc[r] = "decide"
                  /\ LET go == GoOn(GroupOf(r), it[r]) /\ it[r] < MaxIt
                     IN pc' = [pc EXCEPT ![r] = IF go THEN "sample" ELSE "done"]
                  /\ UNCHANGED <<it, inColl, inWorld, verdict>>

\* alternative: everybody enters a broadcast on the world; world rank 0 supplies the decision of *its* group
EnterBcast(r) == /\ Mode = "world" /\ pc[r] = "decide"
                 /\ pc' = [pc EXCEPT ![r] = "bcast"] /\ inWorld' = inWorld \cup {r}
                 /\ UNCHANGED <<it, inColl, verdict>>
Bcast == /\ Mode = "world" /\ inWorld = Ranks
         /\ LET go == GoOn(GroupOf(0), it[0]) IN
            /\ verdict' = [r \in Ranks |-> go]
            /\ pc' = [r \in Ranks |-> IF go /\ it[r] < MaxIt THEN "sample" ELSE "done"]
         /\ inWorld' = {} /\ UNCHANGED <<it, inColl>>

Next == (\E r \in Ranks : Sample(r) \/ DecideLocal(r) \/ EnterBcast(r)) \/ (\E g \in Groups : Reduce(g)) \/ Bcast
Spec == Init /\ [][Next]_vars /\ WF_vars(Next)

Expected(g) == IF Need[g] < MaxIt THEN Need[g] ELSE MaxIt
\* every group performs exactly the iterations its own results ask for, whatever the other groups do
Independent == \A r \in Ranks : pc[r] = "done" => it[r] = Expected(GroupOf(r))
\* the ranks of a group never disagree by more than the iteration in flight
InStep == \A g \in Groups : \A a, b \in Members(g) : it[a] - it[b] \in {-1, 0, 1}
\* and every rank finishes (no rank waits for a collective that the others never enter)
Termination == <>(\A r \in Ranks : pc[r] = "done")
=============================================================================
