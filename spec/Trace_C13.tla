----------------------------- MODULE Trace_C13 -----------------------------
(* Trace validation for C13: what hep::accumulate / chi_square_dof returned    *)
(* for sequences of exactly representable results, against the exact           *)
(* rationals of Combine.tla, with the tolerance the property prescribes        *)
(* (eps of the numeric type times the conditioning of the                      *)
(* (value, error) <-> (sum, sumsq) conversion).                                *)
EXTENDS TraceBase, Combine
VARIABLES l
vars == <<l>>
Ev == TheTrace[l]
Init == l = 1
SC == 1048576

ResOf(f, i) == [N |-> f[6 * i - 5], nz |-> f[6 * i - 4], fin |-> f[6 * i - 3], E |-> Norm(f[6 * i - 2], 4), V |-> Norm(f[6 * i - 1], f[6 * i])]
SeqOf(f) == [i \in 1 .. Len(f) \div 6 |-> ResOf(f, i)]

\* mantissa bits minus the 20 bits of the projection: float 23, double 52, long double 63
Slack(T) == IF T = "float" THEN 8 ELSE 1048576
\* tolerance in units of 2^-20: projection (2) + eps * kappa * magnitude
Tol(T, kappa, mag) == 2 + ((kappa[1] * (1 + Abs(mag[1]) \div mag[2])) \div (kappa[2] * Slack(T))) * 4
Matches(T, out, c) ==
    /\ out[1] = c.N /\ out[2] = c.nz /\ out[3] = c.fin                     \* summed call counters
    /\ (c.N >= 2) => (out[4] > -900000000 /\ out[5] > -900000000)          \* finite (the driver's marker for a non-finite number)
    /\ (c.N >= 2) =>                                                        \* value and error are undefined for fewer than two calls
         LET kap == Kappa(c)
             kk == <<(kap[1] \div kap[2]) + 1, 1>>
         IN /\ Near(out[4], SC, c.E, Tol(T, kk, c.E))                      \* documented estimate
            /\ Near(out[5], SC, c.V, Tol(T, kk, c.V))                      \* documented error (as its square)

Comb ==
    /\ l <= TraceLen /\ Ev.e = "Comb"
    /\ LET rs == SeqOf(Ev.rs)
           chi == Chi2(rs)
       IN /\ Len(rs) = Ev.m
          /\ Laws(rs)                                                       \* the exact values obey the algebraic laws
          /\ Matches(Ev.T, Ev.wv, WVar(rs))
          /\ IF \A i \in 1 .. Len(rs) : rs[i].N > 0 THEN Matches(Ev.T, Ev.we, WEq(rs)) ELSE TRUE   \* (the estimate of a result without calls is 0 / 0)
          /\ IF Len(rs) = 1 THEN Ev.chiTag = "inf"                             \* infinite for one result
             ELSE IF \E i \in 1 .. Len(rs) : rs[i].nz = 0 THEN TRUE         \* entries without information: chi^2 not specified
             ELSE Ev.chiTag = "fin" /\ Ev.chi >= 0 /\ Near(Ev.chi, 4096, chi[2], 4 + (IF Ev.T = "float" THEN 64 ELSE 0))
    /\ l' = l + 1
CombHead ==
    /\ l <= TraceLen /\ Ev.e = "CombHead"
    /\ LET rs == SeqOf(Ev.rs) IN
       /\ IF Ev.which = 1 /\ \E i \in 1 .. Len(rs) : rs[i].N = 0 THEN TRUE ELSE Matches(Ev.T, Ev.out, IF Ev.which = 0 THEN WVar(rs) ELSE WEq(rs))
       /\ (Ev.m > 0) => (Ev.ndist = 2 /\ Ev.nbins0 = 3 /\ Ev.nbins1 = 4)   \* every bin of every distribution is present
    /\ l' = l + 1
CombBin ==
    /\ l <= TraceLen /\ Ev.e = "CombBin"
    /\ LET rs == SeqOf(Ev.rs) IN IF Ev.which = 1 /\ \E i \in 1 .. Len(rs) : rs[i].N = 0 THEN TRUE ELSE
                             Matches(Ev.T, Ev.out, IF Ev.which = 0 THEN WVar(rs) ELSE WEq(rs))   \* the same rule, bin by bin
    /\ l' = l + 1
\* results of runs with more than 2^32 calls each: the counters are added without truncation (20-bit limbs) and the
\* conversion between (value, error) and (sum, sum of squares) still round-trips
LimbSum(ns) == LET F[i \in 0 .. Len(ns)] == IF i = 0 THEN <<0, 0>> ELSE <<F[i - 1][1] + ns[i][1], F[i - 1][2] + ns[i][2]>>
               IN <<F[Len(ns)][1] + (F[Len(ns)][2] \div 1048576), F[Len(ns)][2] % 1048576>>
CombBig ==
    /\ l <= TraceLen /\ Ev.e = "CombBig"
    /\ LET rs == SeqOf(Ev.rs)
           c == WVar(rs)
           slack == IF Ev.T = "float" THEN 64 ELSE 4
       IN /\ Len(rs) = Ev.m /\ Len(Ev.Ns) = Ev.m
          /\ Ev.outN = LimbSum(Ev.Ns) /\ Ev.sameCounters = 1
          /\ Near(Ev.E, SC, c.E, slack) /\ Near(Ev.V, SC, c.V, slack)
    /\ l' = l + 1
Next == Comb \/ CombHead \/ CombBin \/ CombBig
Spec == Init /\ [][Next]_vars
TraceAccepted == TraceAcceptedBy(TraceLen)
=============================================================================
