CONSTANTS TMax = 200  WMax = 40
INIT Init
NEXT Next
