------------------------------- MODULE Measure -------------------------------
(***************************************************************************)
(* Measure preservation (property C01): driven by an equidistributed        *)
(* midpoint lattice instead of random numbers, point transformation x       *)
(* weight integrates exactly what the midpoint rule integrates exactly.     *)
(* VEGAS: Refine!Icdf*; multi channel: channels are piecewise linear maps   *)
(* given by grids, densities are the reciprocal weights, the point weight   *)
(* is jacobian / sum_j alpha_j density_j (multi_channel_point.hpp).         *)
(***************************************************************************)
EXTENDS Refine, Select

\* integrands: <<"one">>, <<"x">>, <<"ind", b>> = indicator of the first b bins of a reference grid
FAt(f, y, ref) == IF f[1] = "one" THEN ROne ELSE IF f[1] = "x" THEN y ELSE IF RLt(y, ref[f[2] + 1]) THEN ROne ELSE RZero
Integral(f, ref) == IF f[1] = "one" THEN ROne ELSE IF f[1] = "x" THEN <<1, 2>> ELSE ref[f[2] + 1]

\* ---- VEGAS, one dimension: midpoint lattice u_j = (2j+1) / (2M), j = 0 .. M-1
VegasLatticeSum(x, f, M) ==
    RSumSeq([j \in 1 .. M |-> RMul(FAt(f, IcdfPoint(x, 2 * j - 1, 2 * M), x), IcdfWeight(x, 2 * j - 1, 2 * M))])
VegasExact(x, f, M) == REq(RDiv(VegasLatticeSum(x, f, M), R(M)), Integral(f, x))

\* ---- multi channel: channel i has grid gs[i] (B bins); density of channel i at y = 1 / (B * width of its bin containing y)
BinOfY(x, y) == CHOOSE b \in 1 .. Bins(x) : (RLe(x[b], y) /\ RLt(y, x[b + 1])) \/ (b = Bins(x) /\ REq(y, x[b + 1]))
Density(x, y) == LET b == BinOfY(x, y) IN RDiv(ROne, RMul(R(Bins(x)), RSub(x[b + 1], x[b])))
TotalDensity(gs, w, y) == RDiv(RSumSeq([i \in 1 .. Len(gs) |-> RMul(R(w[i]), Density(gs[i], y))]), R(Total(w)))
\* two-dimensional midpoint lattice over (number, channel selector): Mu x Ms points
McLatticeSum(gs, w, f, ref, Mu, Ms) ==
    RSumSeq([k \in 1 .. Mu * Ms |->
        LET ju == ((k - 1) % Mu) + 1
            js == ((k - 1) \div Mu) + 1
            ch == CHOOSE i \in Owner(w, 2 * js - 1, 2 * Ms) : TRUE
            y == IcdfPoint(gs[ch], 2 * ju - 1, 2 * Mu)
        IN RDiv(FAt(f, y, ref), TotalDensity(gs, w, y))])
McExact(gs, w, f, ref, Mu, Ms) == REq(RDiv(McLatticeSum(gs, w, f, ref, Mu, Ms), R(Mu * Ms)), Integral(f, ref))

\* ---- arbitrary (adapted) weights: the selector lattice of Ms points gives channel i a share that differs from w[i] / Total(w) by less than
\* 1 / Ms, and a disabled channel none; hence the lattice value differs from sum_i alpha_i I_i = integral by less than sum_i I_i / Ms,
\* where I_i = int f p_i / g is the contribution of channel i (used by Trace_C01!McAdapt with I_i <= sup p_i / g)
SelCount(w, i, Ms) == Cardinality({js \in 1 .. Ms : i \in Owner(w, 2 * js - 1, 2 * Ms)})
SelectorCountOK(w, Ms) ==
    /\ \A i \in 1 .. Len(w) :
          LET c == SelCount(w, i, Ms)
          IN /\ (w[i] = 0) => (c = 0)
             /\ c * Total(w) - Ms * w[i] < Total(w) /\ Ms * w[i] - c * Total(w) < Total(w)
    /\ \A js \in 1 .. Ms : Cardinality(Owner(w, 2 * js - 1, 2 * Ms)) = 1            \* every lattice point has exactly one owner
=============================================================================
