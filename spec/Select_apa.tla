----------------------------- MODULE Select_apa -----------------------------
(***************************************************************************)
(* Unbounded discharge (Apalache, SMT) of the ownership laws of Select.tla *)
(* (property C09) for five channels with ANY natural weights and ANY       *)
(* position j in [0, S): exactly one channel owns j (half-open intervals   *)
(* [Cum(i-1), Cum(i))), its weight is positive, and it is the channel that *)
(* `upper_bound` finds (first i with Cum(i) > j).  The `lower_bound`       *)
(* variant (first i with Cum(i) >= j) is not: LowerInv is violated - it    *)
(* picks a disabled channel at j = 0 when the first weight is zero.        *)
(* MC_Select checks the same laws with TLC for all weight vectors over     *)
(* small ranges and is the module bound to the code by Trace_C09; here the *)
(* weights and j range over all naturals (checked at length 0: the initial *)
(* states are all admissible (w, j)).                                      *)
(***************************************************************************)
EXTENDS Integers
VARIABLES
    \* @type: Int;
    w1,
    \* @type: Int;
    w2,
    \* @type: Int;
    w3,
    \* @type: Int;
    w4,
    \* @type: Int;
    w5,
    \* @type: Int;
    j

W(i) == IF i = 1 THEN w1 ELSE IF i = 2 THEN w2 ELSE IF i = 3 THEN w3 ELSE IF i = 4 THEN w4 ELSE w5
Cum(i) == IF i = 0 THEN 0 ELSE IF i = 1 THEN w1 ELSE IF i = 2 THEN w1 + w2 ELSE IF i = 3 THEN w1 + w2 + w3
          ELSE IF i = 4 THEN w1 + w2 + w3 + w4 ELSE w1 + w2 + w3 + w4 + w5
S == Cum(5)
Ch == 1 .. 5

Init == w1 \in Nat /\ w2 \in Nat /\ w3 \in Nat /\ w4 \in Nat /\ w5 \in Nat /\ j \in Nat /\ S > 0 /\ j < S
Next == UNCHANGED <<w1, w2, w3, w4, w5, j>>

Owns(i) == Cum(i - 1) <= j /\ j < Cum(i)
IsUpper(i) == Cum(i) > j /\ \A k \in Ch : k < i => ~(Cum(k) > j)       \* what std::upper_bound on the cumulative sums returns
IsLower(i) == Cum(i) >= j /\ \A k \in Ch : k < i => ~(Cum(k) >= j)     \* what std::lower_bound would return

OwnerInv ==
    /\ \E i \in Ch : Owns(i)                                            \* somebody owns j
    /\ \A a, b \in Ch : (Owns(a) /\ Owns(b)) => a = b                   \* nobody else does
    /\ \A i \in Ch : Owns(i) => W(i) > 0                                \* a disabled channel owns nothing
    /\ \A i \in Ch : IsUpper(i) <=> Owns(i)                             \* upper_bound finds the owner
\* the as-coded alternative: violated
LowerInv == \A i \in Ch : IsLower(i) => W(i) > 0
=============================================================================
