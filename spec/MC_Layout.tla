----------------------------- MODULE MC_Layout -----------------------------
EXTENDS Layout
Shapes == {<<1, 1>>, <<2, 1>>, <<3, 1>>, <<2, 2>>, <<2, 3>>, <<3, 2>>}
\* all lists of one to three distributions over the shapes
MCFamily == {<<a>> : a \in Shapes} \cup {<<a, b>> : a \in Shapes, b \in Shapes} \cup {<<a, b, c>> : a \in Shapes, b \in Shapes, c \in {<<1, 1>>, <<2, 1>>, <<2, 2>>}}
=============================================================================
