CONSTANTS P = 3  Plan <- ThePlan1  U = 2  SkipSecondOnEmpty = FALSE  PlanId = 1
INIT Init
NEXT Next
INVARIANT MpiInv
CHECK_DEADLOCK TRUE
