----------------------------- MODULE MC_Combine -----------------------------
EXTENDS Combine, TLC
CONSTANT Full
Es == IF Full THEN {<<-2, 1>>, <<0, 1>>, <<1, 2>>, <<2, 1>>} ELSE {<<-2, 1>>, <<1, 2>>, <<2, 1>>}
Vs == IF Full THEN {<<1, 1>>, <<1, 4>>, <<4, 1>>} ELSE {<<1, 4>>, <<4, 1>>}
Res == {[N |-> 4, nz |-> nz, fin |-> nz, E |-> e, V |-> v] : nz \in {0, 3}, e \in Es, v \in Vs}
Seqs == UNION {[1 .. m -> Res] : m \in 0 .. 3}
Perm3 == {<<1, 2, 3>>, <<1, 3, 2>>, <<2, 1, 3>>, <<2, 3, 1>>, <<3, 1, 2>>, <<3, 2, 1>>}
Same(a, b) == a.N = b.N /\ a.nz = b.nz /\ a.fin = b.fin /\ REq(a.E, b.E) /\ REq(a.V, b.V)
ASSUME \A rs \in Seqs : Laws(rs)
\* order independence
ASSUME \A rs \in [1 .. 3 -> Res] : \A p \in Perm3 :
          LET qs == [i \in 1 .. 3 |-> rs[p[i]]] IN Same(WVar(rs), WVar(qs)) /\ Same(WEq(rs), WEq(qs)) /\ REq(Chi2(rs)[2], Chi2(qs)[2])
\* results without non-zero calls change nothing but the call counter
ASSUME \A rs \in [1 .. 2 -> Res] : \A z \in {r \in Res : r.nz = 0} :
          LET a == WVar(rs) b == WVar(Append(rs, z)) IN REq(a.E, b.E) /\ REq(a.V, b.V) /\ b.N = a.N + z.N
ASSUME Chi2(<<>>) = <<"fin", RZero>> /\ \A r \in Res : Chi2(<<r>>)[1] = "inf"
\* non-vacuity: weights 1/S instead of 1/S^2 violate "error no larger than any S_i" somewhere - modelled by swapping V for its root on {1/4}
ASSUME \E rs \in [1 .. 2 -> Res] : Live(rs) = {1, 2} /\ ~REq(WVar(rs).E, WEq(rs).E)
VARIABLE z
Init == z = 0
Next == z < 1 /\ z' = z + 1
=============================================================================
