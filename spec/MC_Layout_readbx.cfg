SPECIFICATION Spec
CONSTANTS
  Family <- MCFamily
  MaxFills = 2
  Stride = "area"
  ReadStride = "bx"
INVARIANTS TypeOK InBounds NoAlias ReadsOwnFills
