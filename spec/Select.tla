------------------------------- MODULE Select -------------------------------
(***************************************************************************)
(* Channel selection (property C09).                                       *)
(* Weights are a sequence of naturals (any common positive factor cancels) *)
(* and a canonical random number is u = j / D.                             *)
(***************************************************************************)
EXTENDS Integers, Sequences, FiniteSets

RECURSIVE Cum(_, _)
Cum(w, i) == IF i = 0 THEN 0 ELSE Cum(w, i - 1) + w[i]
Total(w) == Cum(w, Len(w))
Enabled(w) == {i \in 1 .. Len(w) : w[i] > 0}
\* the list handed to the channel map: enabled channels in increasing order (0-based values)
EnabledList(w) == LET F[i \in 0 .. Len(w)] ==
                        IF i = 0 THEN <<>> ELSE IF w[i] > 0 THEN Append(F[i - 1], i - 1) ELSE F[i - 1]
                  IN F[Len(w)]

\* ---- property level
\* Channel i owns the interval [C(i-1)/S, C(i)/S] of the cumulative normalised weights.  The
\* property leaves the side of an exact boundary open, and a generator output closer to a
\* boundary than one lattice step 1/D may be attributed to either neighbour (the implementation
\* normalises in floating point) - but a channel with weight zero is never admissible.
Admissible(w, j, D) ==
    LET S == Total(w) IN
    {i \in Enabled(w) : Cum(w, i - 1) * D - (S - 1) <= j * S /\ j * S <= Cum(w, i) * D + (S - 1)}

\* half-open intervals [C(i-1)/S, C(i)/S): the unique owner of every u in [0, 1)
Owner(w, j, D) == LET S == Total(w) IN
    {i \in Enabled(w) : Cum(w, i - 1) * D <= j * S /\ j * S < Cum(w, i) * D}

\* ---- design level (as coded in discrete_distribution.hpp)
\* upper_bound on the normalised partial sums: first i with C(i)/S > u   [current code]
PickUpper(w, j, D) == LET S == Total(w)
                          c == {i \in 1 .. Len(w) : Cum(w, i) * D > j * S}
                      IN CHOOSE i \in c : \A k \in c : i <= k
\* lower_bound: first i with C(i)/S >= u                                  [before fix 08987f4]
PickLower(w, j, D) == LET S == Total(w)
                          c == {i \in 1 .. Len(w) : Cum(w, i) * D >= j * S}
                      IN CHOOSE i \in c : \A k \in c : i <= k

\* ---- what is required of an observed selection (used by the trace specification)
PickOK(w, j, D, idx) == idx \in Admissible(w, j, D)

\* number of lattice points attributed to each channel over the full lattice 0 .. D-1
CountOK(w, D, counts) ==
    LET S == Total(w) IN
    /\ Len(counts) = Len(w)
    /\ Cum(counts, Len(counts)) = D
    /\ \A i \in 1 .. Len(w) :
         /\ (w[i] = 0) => counts[i] = 0
         /\ counts[i] * S - D * w[i] < 2 * S
         /\ D * w[i] - counts[i] * S < 2 * S

\* ---- selections at the full precision of the numeric type (Trace_C09!PickWide): the canonical number is x / B^n for an integer x given by
\* n limbs b[1] (least significant) .. b[n] in base B; Q = floor((x * S + add * B^o) / B^n) by a carry chain that never needs more than
\* B * S + add in one step; the owner of x / B^n is the first channel i with Cum(w, i) > floor(x * S / B^n)
LimbQ(b, S, o, add, B) ==
    LET n == Len(b)
        C[i \in 0 .. n] == IF i = 0 THEN 0 ELSE (b[i] * S + C[i - 1] + (IF i = o + 1 THEN add ELSE 0)) \div B
    IN C[n]
LimbValue(b, B) == LET F[i \in 0 .. Len(b)] == IF i = 0 THEN 0 ELSE F[i - 1] * B + b[Len(b) + 1 - i] IN F[Len(b)]
FirstAbove(w, q) == LET c == {i \in 1 .. Len(w) : Cum(w, i) > q} IN IF c = {} THEN 0 ELSE CHOOSE i \in c : \A k \in c : i <= k   \* (0: beyond one)
=============================================================================
