CONSTANTS P = 3  Plan <- ThePlan2  U = 2  SkipSecondOnEmpty = TRUE  PlanId = 2
SPECIFICATION FairSpec
PROPERTY Termination
