SPECIFICATION Spec
CONSTANTS
  Family <- MCFamily
  MaxFills = 2
  Stride = "bx"
  ReadStride = "area"
INVARIANTS TypeOK InBounds NoAlias ReadsOwnFills
