CONSTANT Full = TRUE
INIT Init
NEXT Next
