----------------------------- MODULE MC_Measure -----------------------------
EXTENDS Measure, TLC
G == 4
GridOf(s) == <<RZero>> \o [i \in 1 .. Len(s) |-> Norm(s[i], G)] \o <<ROne>>
Grids2 == {GridOf(<<k>>) : k \in 1 .. G - 1}
Grids3 == {GridOf(<<a, b>>) : a \in 1 .. G - 1, b \in 1 .. G - 1} \cap {g \in {GridOf(<<a, b>>) : a \in 1 .. G - 1, b \in 1 .. G - 1} : RLe(g[2], g[3])}
Fs(B) == {<<"one">>, <<"x">>} \cup {<<"ind", b>> : b \in 1 .. B - 1}
\* VEGAS: every grid, every integrand of the class, lattice sizes that are multiples of the bin count
ASSUME \A x \in Grids2 \cup Grids3 : \A f \in Fs(Bins(x)) : \A m \in 1 .. 2 : VegasExact(x, f, Bins(x) * 2 * m)
\* multi channel: two channels, all weight vectors over 0..2 (not all zero) incl. a disabled channel; lattice aligned with the
\* common refinement of the channel grids (quarters): Mu = 24, selector lattice Ms = multiple of the weight sum
Ws == {w \in [1 .. 2 -> 0 .. 2] : w[1] + w[2] > 0}
ASSUME \A g1 \in Grids2 : \A g2 \in Grids2 : \A w \in Ws : \A f \in {<<"one">>, <<"x">>, <<"ind", 1>>} :
          McExact(<<g1, g2>>, w, f, GridOf(<<1>>), 24, Total(w) * 2)
\* non-vacuity: dividing by the unweighted sum of densities is not measure preserving
ASSUME LET gs == <<GridOf(<<1>>), GridOf(<<2>>)>>
           w == <<1, 2>>
           Bad == RSumSeq([k \in 1 .. 24 * 6 |->
                     LET ju == ((k - 1) % 24) + 1
                         js == ((k - 1) \div 24) + 1
                         ch == CHOOSE i \in Owner(w, 2 * js - 1, 12) : TRUE
                         y == IcdfPoint(gs[ch], 2 * ju - 1, 48)
                     IN RDiv(ROne, RDiv(RAdd(Density(gs[1], y), Density(gs[2], y)), R(2)))])
       IN ~REq(RDiv(Bad, R(144)), ROne)
\* selector lattice with arbitrary weights: all weight vectors over 0..4 with three channels, lattice sizes incl. primes and 24
ASSUME \A w \in {v \in [1 .. 3 -> 0 .. 4] : v[1] + v[2] + v[3] > 0} : \A Ms \in {1, 2, 3, 5, 7, 24} : SelectorCountOK(w, Ms)
VARIABLE z
Init == z = 0
Next == z < 1 /\ z' = z + 1
=============================================================================
