CONSTANTS Sizes <- SizesV Need <- NeedV MaxIt = 5 Mode = "local"
SPECIFICATION Spec
INVARIANT Independent
INVARIANT InStep
PROPERTY Termination
