------------------------------- MODULE Split -------------------------------
(***************************************************************************)
(* Work split of one MPI iteration (property C16; used by Mpi.tla).        *)
(*                                                                         *)
(* Property level: `Tiling(t, w, share)` says what a correct split is.     *)
(* Design level: Before / Sub / After transcribe generator_helper.hpp      *)
(* (discard_before, discard_after) and the inline `sub_calls` expression   *)
(* of mpi_plain.hpp / mpi_vegas.hpp / mpi_multi_channel.hpp.               *)
(* Theorem `Tiles`: the transcription satisfies the property.              *)
(***************************************************************************)
EXTENDS Naturals

\* ---- design level (as coded)
Before(t, r, w) == (t \div w) * r + (IF (t % w) < r THEN t % w ELSE r)
Sub(t, r, w)    == (t \div w) + (IF r < (t % w) THEN 1 ELSE 0)
AfterOf(t, c, r, w) == LET b == Before(t, r, w) IN IF b + c < t THEN t - b - c ELSE 0
After(t, r, w)  == AfterOf(t, Sub(t, r, w), r, w)

\* ---- property level: a record per rank [before, sub, after]
ShareOK(t, w, r, before, sub, after, endOfPrevious) ==
    /\ before = endOfPrevious                    \* contiguous, no gap, no overlap, rank order
    /\ before + sub + after = t                  \* every rank ends at the same stream position
    /\ sub \in {t \div w, (t \div w) + 1}        \* counts differ by at most one (given that they sum to t)
    /\ (r = w - 1) => (before + sub = t)         \* shares sum to the total

Tiles(t, w) ==
    /\ Before(t, 0, w) = 0
    /\ \A r \in 0 .. w - 1 :
         ShareOK(t, w, r, Before(t, r, w), Sub(t, r, w), After(t, r, w),
                 IF r = 0 THEN 0 ELSE Before(t, r - 1, w) + Sub(t, r - 1, w))
=============================================================================
