------------------------------- MODULE Layout -------------------------------
(***************************************************************************)
(* Storage layout of an iteration with distributions (accumulator.hpp,     *)
(* accumulator<T, true>; the packed buffer of mpi_helper.hpp,              *)
(* allreduce_result): one flat array holds the integral (slots 0, 1) and,  *)
(* distribution after distribution, a pair (sum, sum of squares) per bin,  *)
(* x fastest.  Counters live in a second array indexed by slot / 2.        *)
(*                                                                         *)
(* The module states what C11 / C04 / C14 rely on implicitly: every bin of *)
(* every distribution has a pair of its own, inside the array, and what    *)
(* result() (resp. the unpacking after the reduction) reads for bin k of   *)
(* distribution d is what the fills of that bin wrote - whatever other     *)
(* distributions, one- or two-dimensional, come before or after it.        *)
(*                                                                         *)
(* "area" is as coded (a distribution takes 2 bx by slots); "bx" is the    *)
(* alternative that forgets the rows of a two-dimensional distribution     *)
(* when it advances to the next one - on the writing side (Stride) or on   *)
(* the reading side (ReadStride).                                          *)
(***************************************************************************)
EXTENDS Integers, Sequences, FiniteSets

CONSTANTS Family,    \* set of sequences of <<bx, by>>: the lists of distributions explored
          MaxFills,  \* fills per behaviour
          Stride,    \* "area" | "bx": how the writer (the accumulator's table of first slots) advances from one distribution to the next
          ReadStride \* "area" | "bx": how the reader advances (result() walks bin by bin = "area"; the unpacking after an MPI reduction computes offsets)

VARIABLES dists,     \* the list of distributions of this behaviour
          arr,       \* slot -> number of contributions written there (sum slot; the square slot follows it)
          cnt,       \* slot \div 2 -> counter
          hist,      \* ghost: <<d, k>> -> fills of bin k (flat, x fastest) of distribution d
          fills
vars == <<dists, arr, cnt, hist, fills>>

Bins(ds, d) == ds[d][1] * ds[d][2]
Step(ds, d) == IF Stride = "area" THEN 2 * Bins(ds, d) ELSE 2 * ds[d][1]
\* slot of the first bin of distribution d (accumulator: indices_)
Start(ds, d) == LET F[i \in 1 .. Len(ds) + 1] == IF i = 1 THEN 2 ELSE F[i - 1] + Step(ds, i - 1) IN F[d]
\* the array is sized from the true number of bins (as coded: 2 + 2 + 2 * all bins)
Size(ds) == LET F[i \in 0 .. Len(ds)] == IF i = 0 THEN 4 ELSE F[i - 1] + 2 * Bins(ds, i) IN F[Len(ds)]
Flat(ds, d, ix, iy) == iy * ds[d][1] + ix
Slot(ds, d, ix, iy) == Start(ds, d) + 2 * Flat(ds, d, ix, iy)
Keys(ds) == {<<d, k>> : d \in 1 .. Len(ds), k \in 0 .. 8} \cap {<<d, k>> \in (1 .. Len(ds)) \X (0 .. 8) : k < Bins(ds, d)}

Init == /\ dists \in Family
        /\ arr = [s \in 0 .. Size(dists) - 1 |-> 0]
        /\ cnt = [s \in 0 .. Size(dists) \div 2 - 1 |-> 0]
        /\ hist = [key \in Keys(dists) |-> 0]
        /\ fills = 0

\* the integrand's own value goes to slots 0 / 1
FillIntegral == /\ fills < MaxFills /\ fills' = fills + 1
                /\ arr' = [arr EXCEPT ![0] = @ + 1, ![1] = @ + 1] /\ cnt' = [cnt EXCEPT ![0] = @ + 1]
                /\ UNCHANGED <<dists, hist>>
\* projector.add(d, x [, y], value) after the bin has been found
Fill(d, ix, iy) ==
    LET s == Slot(dists, d, ix, iy) IN
    /\ fills < MaxFills /\ fills' = fills + 1
    /\ s + 1 \in DOMAIN arr                       \* (.at() would throw otherwise: see InBounds)
    /\ arr' = [arr EXCEPT ![s] = @ + 1, ![s + 1] = @ + 1]
    /\ cnt' = [cnt EXCEPT ![s \div 2] = @ + 1]
    /\ hist' = [hist EXCEPT ![<<d, Flat(dists, d, ix, iy)>>] = @ + 1]
    /\ UNCHANGED dists
Next == FillIntegral \/ \E d \in 1 .. Len(dists) : \E ix \in 0 .. dists[d][1] - 1 : \E iy \in 0 .. dists[d][2] - 1 : Fill(d, ix, iy)
Spec == Init /\ [][Next]_vars

\* what result() reads: a running index that starts at 2 and advances by 2 per bin, distribution after distribution
ReadStep(ds, d) == IF ReadStride = "area" THEN 2 * Bins(ds, d) ELSE 2 * ds[d][1]
ReadSlot(ds, d, k) == LET F[i \in 0 .. Len(ds)] == IF i = 0 THEN 2 ELSE F[i - 1] + ReadStep(ds, i) IN F[d - 1] + 2 * k

TypeOK == fills \in 0 .. MaxFills
\* every bin's pair lies inside the array and away from the integral's pair
InBounds == \A d \in 1 .. Len(dists) : \A ix \in 0 .. dists[d][1] - 1 : \A iy \in 0 .. dists[d][2] - 1 :
               Slot(dists, d, ix, iy) >= 2 /\ Slot(dists, d, ix, iy) + 1 < Size(dists)
\* no two bins share a slot
NoAlias == \A d1, d2 \in 1 .. Len(dists) : \A k1 \in 0 .. Bins(dists, d1) - 1 : \A k2 \in 0 .. Bins(dists, d2) - 1 :
              (<<d1, k1>> # <<d2, k2>>) => Start(dists, d1) + 2 * k1 # Start(dists, d2) + 2 * k2
\* what is reported for a bin is what was filled into it: sums and counters
ReadsOwnFills == \A key \in Keys(dists) :
                    /\ arr[ReadSlot(dists, key[1], key[2])] = hist[key]
                    /\ arr[ReadSlot(dists, key[1], key[2]) + 1] = hist[key]
                    /\ cnt[ReadSlot(dists, key[1], key[2]) \div 2] = hist[key]
=============================================================================
