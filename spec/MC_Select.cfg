CONSTANTS N = 4  W = 3  D = 27720
INIT Init
NEXT Next
