CONSTANTS N = 4  W = 2  D = 840
INIT Init
NEXT Next
