----------------------------- MODULE Layout_apa -----------------------------
(***************************************************************************)
(* Unbounded discharge (Apalache, SMT) of the storage laws of Layout.tla   *)
(* (properties C11 / C04) for three distributions with ANY numbers of bins *)
(* in x and y: every bin's pair of slots lies inside the flat array, away  *)
(* from the integral's pair, and no two bins share a slot - with the       *)
(* stride as coded (a distribution takes 2 bx by slots).  With the stride  *)
(* 2 bx (rows forgotten) NoAliasBx is violated.  MC_Layout explores small  *)
(* families with TLC, including the fills and what the reader reports, and *)
(* is bound to the code through Trace_C11 and the MPI leg; here the bin    *)
(* counts and the two bins compared range over all naturals (length 0).    *)
(***************************************************************************)
EXTENDS Integers
VARIABLES
    \* @type: Int;
    bx1,
    \* @type: Int;
    by1,
    \* @type: Int;
    bx2,
    \* @type: Int;
    by2,
    \* @type: Int;
    bx3,
    \* @type: Int;
    by3,
    \* @type: Int;
    da,
    \* @type: Int;
    xa,
    \* @type: Int;
    ya,
    \* @type: Int;
    db,
    \* @type: Int;
    xb,
    \* @type: Int;
    yb

Bx(d) == IF d = 1 THEN bx1 ELSE IF d = 2 THEN bx2 ELSE bx3
By(d) == IF d = 1 THEN by1 ELSE IF d = 2 THEN by2 ELSE by3
Area(d) == Bx(d) * By(d)
Start(d) == IF d = 1 THEN 2 ELSE IF d = 2 THEN 2 + 2 * Area(1) ELSE 2 + 2 * Area(1) + 2 * Area(2)
StartBx(d) == IF d = 1 THEN 2 ELSE IF d = 2 THEN 2 + 2 * bx1 ELSE 2 + 2 * bx1 + 2 * bx2
Size == 4 + 2 * Area(1) + 2 * Area(2) + 2 * Area(3)
Slot(d, x, y) == Start(d) + 2 * (y * Bx(d) + x)
SlotBx(d, x, y) == StartBx(d) + 2 * (y * Bx(d) + x)

Init ==
    /\ bx1 \in Nat /\ by1 \in Nat /\ bx2 \in Nat /\ by2 \in Nat /\ bx3 \in Nat /\ by3 \in Nat
    /\ bx1 >= 1 /\ by1 >= 1 /\ bx2 >= 1 /\ by2 >= 1 /\ bx3 >= 1 /\ by3 >= 1
    /\ da \in 1 .. 3 /\ db \in 1 .. 3 /\ xa \in Nat /\ ya \in Nat /\ xb \in Nat /\ yb \in Nat
    /\ xa < Bx(da) /\ ya < By(da) /\ xb < Bx(db) /\ yb < By(db)
Next == UNCHANGED <<bx1, by1, bx2, by2, bx3, by3, da, xa, ya, db, xb, yb>>

InBounds == Slot(da, xa, ya) >= 2 /\ Slot(da, xa, ya) + 1 < Size
Same == da = db /\ xa = xb /\ ya = yb
NoAlias == (~Same) => Slot(da, xa, ya) # Slot(db, xb, yb)
\* the alternative stride: violated
NoAliasBx == (~Same) => SlotBx(da, xa, ya) # SlotBx(db, xb, yb)
=============================================================================
