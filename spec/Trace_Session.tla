---------------------------- MODULE Trace_Session ----------------------------
(* Trace validation for C03 / C15 / C19.  A checkpoint of a given             *)
(* configuration is determined by the calls of the iterations it contains     *)
(* (Session!ChkOf): `done` follows the history through iterate / reload /     *)
(* rollback exactly as MC_Session does, `bind` maps every `done` that was      *)
(* ever reached to the id of the checkpoint text observed there, `sbind` to   *)
(* the id of the state (grid / channel weights) the next iteration uses.      *)
(* A history that reaches the same `done` with a different text or state -    *)
(* an interrupted, resumed, reloaded or rolled back run that is not           *)
(* indistinguishable from the uninterrupted one - is rejected.                *)
EXTENDS TraceBase, Session

VARIABLES l, done, bind, sbind, finalN, rstate
vars == <<l, done, bind, sbind, finalN, rstate>>
Ev == TheTrace[l]
Is(name) == l <= TraceLen /\ Ev.e = name

Init == l = 1 /\ done = <<>> /\ bind = <<>> /\ sbind = <<>> /\ finalN = -1 /\ rstate = 0

\* f is a function from sequences to ids; key k is bound to v if fresh, otherwise it must agree
Bound(f, k, v) == IF k \in DOMAIN f THEN f[k] = v ELSE TRUE
Bind(f, k, v) == IF k \in DOMAIN f THEN f ELSE (k :> v) @@ f

TCfg == /\ Is("Cfg")
        /\ done' = <<>> /\ bind' = <<>> /\ sbind' = <<>> /\ finalN' = -1 /\ rstate' = 0
        /\ l' = l + 1

\* a fresh checkpoint: first state = the user's grid / normalised weights / the uniform default
TNew == /\ Is("New")
        /\ done' = <<>>
        /\ Bound(sbind, <<>>, Ev.first) /\ sbind' = Bind(sbind, <<>>, Ev.first)
        /\ rstate' = 0
        /\ UNCHANGED <<bind, finalN>> /\ l' = l + 1

\* a run (segment) begins: it samples with the state that belongs to the iterations done so far
TBegin == /\ Is("Begin")
          /\ done \in DOMAIN sbind /\ Ev.state = sbind[done]
          /\ rstate' = Ev.state
          /\ UNCHANGED <<done, bind, sbind, finalN>> /\ l' = l + 1

\* one iteration: its points were drawn with the state recorded in the result, which is the state
\* derived from the previous result; the checkpoint text afterwards is a function of `done`
TIter == /\ Is("Iter")
         /\ LET d2 == Append(done, Ev.calls) IN
            /\ Ev.n = Len(d2)                       \* the callback sees exactly the results so far
            /\ Ev.rcalls = Ev.calls
            /\ Ev.recorded = rstate                 \* the result records ...
            /\ Ev.usedOk = 1                        \* ... the state its points were actually drawn with
            /\ Ev.chkstate = Ev.derived             \* what the checkpoint hands to the next iteration is the refinement
            /\ Bound(bind, d2, Ev.text) /\ bind' = Bind(bind, d2, Ev.text)
            /\ Bound(sbind, d2, Ev.derived) /\ sbind' = Bind(sbind, d2, Ev.derived)
            /\ rstate' = Ev.derived                 \* the next iteration uses the refinement of this result
            /\ done' = d2
         /\ UNCHANGED finalN /\ l' = l + 1

TEnd == /\ Is("End") /\ Ev.n = Len(done)
        /\ UNCHANGED <<done, bind, sbind, finalN, rstate>> /\ l' = l + 1

\* text (or the file the built-in callback wrote) -> object -> text is the identity and is the text of `done`
TReload == /\ Is("Reload")
           /\ Ev.good = 1
           /\ Ev.textBefore = Ev.textAfter
           /\ Bound(bind, done, Ev.textBefore) /\ bind' = Bind(bind, done, Ev.textBefore)
           /\ UNCHANGED <<done, sbind, finalN, rstate>> /\ l' = l + 1

TRollback ==
    /\ Is("Rollback")
    /\ IF Ev.k > Len(done)
       THEN /\ Ev.threw = 1                                    \* rejected ...
            /\ Ev.n = Len(done) /\ Bound(bind, done, Ev.text)  \* ... and nothing changed
            /\ Bound(sbind, done, Ev.state)
            /\ UNCHANGED <<done, bind, sbind>>
       ELSE LET d2 == SubSeq(done, 1, Ev.k) IN
            /\ Ev.threw = 0 /\ Ev.n = Ev.k
            /\ Bound(bind, d2, Ev.text) /\ bind' = Bind(bind, d2, Ev.text)       \* the checkpoint of the run that stopped after k
            /\ Bound(sbind, d2, Ev.state) /\ sbind' = Bind(sbind, d2, Ev.state)
            /\ done' = d2
    /\ UNCHANGED <<finalN, rstate>> /\ l' = l + 1

\* the number of iterations a run with a target precision performs does not depend on interruptions
TFinal == /\ Is("Final")
          /\ Bound(bind, done, Ev.text)
          /\ IF Ev.n < 0 THEN finalN' = finalN
             ELSE /\ Ev.n = Len(done)
                  /\ (finalN >= 0) => Ev.n = finalN
                  /\ finalN' = Ev.n
          /\ UNCHANGED <<done, bind, sbind, rstate>> /\ l' = l + 1

\* growth: a checkpoint made from an empty stream is the (reproducible) default checkpoint without results
TEmptyStream == /\ Is("EmptyStream") /\ Ev.equal = 1 /\ Ev.n = 0
                /\ UNCHANGED <<done, bind, sbind, finalN, rstate>> /\ l' = l + 1

Next == TEmptyStream \/ TCfg \/ TNew \/ TBegin \/ TIter \/ TEnd \/ TReload \/ TRollback \/ TFinal
Spec == Init /\ [][Next]_vars
TraceAccepted == TraceAcceptedBy(TraceLen)
=============================================================================
