#include "hep/mc.hpp"
#include <sstream>
#include <iostream>
template <typename E> int probe(char const* name) {
  auto fn = [](hep::mc_point<double> const& p) { return p.point()[0]; };
  auto chk = hep::make_plain_chkpt<double, E>(E());
  using C = decltype(chk);
  chk = hep::plain(hep::make_integrand<double>(fn, 1), std::vector<std::size_t>{10, 10}, chk, hep::callback<C>(hep::callback_mode::silent));
  std::ostringstream o; chk.serialize(o);
  std::istringstream in(o.str());
  auto c2 = hep::make_plain_chkpt<double, E>(in);
  std::ostringstream o2; 
  bool ok = !in.fail() && c2.results().size() == 2 && c2.generator() == chk.generator();
  std::cout << name << " round trip " << (ok ? "ok" : "BROKEN") << " fail=" << in.fail() << "\n";
  return ok ? 0 : 1;
}
int main() { int b = 0; b += probe<std::minstd_rand>("minstd_rand"); b += probe<std::minstd_rand0>("minstd_rand0"); b += probe<std::knuth_b>("knuth_b");
 b += probe<std::mt19937>("mt19937"); b += probe<std::mt19937_64>("mt19937_64"); b += probe<std::ranlux24_base>("ranlux24_base"); b += probe<std::ranlux48_base>("ranlux48_base"); b += probe<std::ranlux24>("ranlux24"); b += probe<std::ranlux48>("ranlux48"); return b; }
