// Throw-away style probes that reproduce the defects F1..F9 of DESIGN.md section 7 against the
// real headers.  Usage: defects <n>   (exit 0 = property holds for that probe, 1 = defect shown)
#include "hep/mc.hpp"
#include <cmath>
#include <cstdio>
#include <cstdlib>
#include <fstream>
#include <iostream>
#include <limits>
#include <sstream>
#include <string>
#include <vector>

template <typename C> static std::string text(C const& c)
{
    std::ostringstream o;
    c.serialize(o);
    return o.str();
}

static double f1(hep::mc_point<double> const& p) { return p.point()[0] + 1.0; }

static int F1()
{
    auto integrand = hep::make_integrand<double>(f1, 1);
    hep::callback<hep::default_plain_chkpt<double>> cb(hep::callback_mode::silent);
    auto full = hep::plain(integrand, std::vector<std::size_t>{10, 10, 10}, hep::make_plain_chkpt<double>(), cb);
    auto two = hep::plain(integrand, std::vector<std::size_t>{10, 10}, hep::make_plain_chkpt<double>(), cb);
    auto rb = full;
    rb.rollback(2);
    // cannot call serialize on the broken object without tripping the assert; compare generator
    bool ok = (rb.generator() == two.generator());
    std::printf("F1 rollback(2) generator equals generator after 2 iterations: %d\n", ok);
    return ok ? 0 : 1;
}

static double fv(hep::vegas_point<double> const& p) { return p.point()[0] * p.point()[0]; }

static int F2()
{
    std::vector<double> w{1.0, 3.0};
    // multi-channel: user weights, run 1 iteration, save, load, rollback(0): weights must be the user's
    auto map = [](std::size_t, std::vector<double> const& r, std::vector<double>& c,
        std::vector<std::size_t> const&, std::vector<double>& d, hep::multi_channel_map) {
        c[0] = r[0]; d[0] = 1.0; d[1] = 1.0; return 1.0; };
    auto fn = [](hep::multi_channel_point<double> const& p) { return p.coordinates()[0]; };
    auto integrand = hep::make_multi_channel_integrand<double>(fn, 1, map, 1, 2);
    using chk_t = decltype(hep::make_multi_channel_chkpt<double>(w));
    hep::callback<chk_t> cb(hep::callback_mode::silent);
    auto c0 = hep::make_multi_channel_chkpt<double>(w);
    auto c1 = hep::multi_channel(integrand, std::vector<std::size_t>{16}, c0, cb);
    std::istringstream in(text(c1));
    auto c2 = hep::make_multi_channel_chkpt<double, std::mt19937>(in);
    c2.rollback(0);
    c2.channels(2);
    auto w0 = c0.channel_weights();
    auto w2 = c2.channel_weights();
    bool ok = (w0 == w2);
    std::printf("F2 weights after reload+rollback(0): %g %g (expected %g %g)\n", w2[0], w2[1], w0[0], w0[1]);
    return ok ? 0 : 1;
}

static int F3()
{
    auto zero = [](hep::mc_point<double> const&) { return 0.0; };
    auto integrand = hep::make_integrand<double>(zero, 1);
    hep::callback<hep::default_plain_chkpt<double>> cb(hep::callback_mode::silent);
    auto r = hep::plain(integrand, std::vector<std::size_t>{10, 10, 10}, hep::make_plain_chkpt<double>(), cb);
    std::printf("F3 iterations performed with target 0 on zero integrand: %zu of 3\n", r.results().size());
    return r.results().size() == 3 ? 0 : 1;
}

struct zero_engine
{
    using result_type = unsigned long long;
    static constexpr result_type min() { return 0; }
    static constexpr result_type max() { return ~0ULL; }
    result_type operator()() { return 0; }
};

static int F4()
{
    std::vector<double> w{0.0, 1.0, 1.0};
    hep::discrete_distribution<std::size_t, double> d(w.begin(), w.end());
    zero_engine e;
    std::size_t i = d(e);
    std::printf("F4 channel selected at u=0 with weights {0,1,1}: %zu\n", i);
    return i == 0 ? 1 : 0;
}

static int F5()
{
    hep::vegas_pdf<double> pdf(1, 4);
    pdf.set_bin_left(0, 1, 0.125);
    pdf.set_bin_left(0, 2, 0.25);
    pdf.set_bin_left(0, 3, 0.5);
    auto n = hep::vegas_refine_pdf(pdf, 1.5, std::vector<double>(4, 0.0));
    bool ok = true;
    for (std::size_t b = 0; b <= 4; ++b) ok = ok && (n.bin_left(0, b) == pdf.bin_left(0, b));
    std::printf("F5 all-zero data keeps grid: %d (left[1]=%g, was 0.125)\n", ok, n.bin_left(0, 1));
    return ok ? 0 : 1;
}

static int F6()
{
    std::vector<double> w{0.25, 0.75};
    auto n = hep::multi_channel_refine_weights(w, std::vector<double>{0.0, 0.0}, 0.0, 0.25);
    bool ok = (n == w);
    std::printf("F6 all-zero data keeps weights: %d (%g %g)\n", ok, n[0], n[1]);
    return ok ? 0 : 1;
}

static int F7()
{
    int bad = 0;
    for (std::string name : {"", " ", " lead", "a b", "trail "})
    {
        hep::distribution_parameters<double> p(2, 1, -1.0, 1.0, 0.0, 1.0, name);
        std::ostringstream o;
        p.serialize(o);
        std::istringstream in(o.str());
        hep::distribution_parameters<double> q(in);
        bool ok = !in.fail() && q.name() == name && q.bins_x() == 2 && q.x_min() == -1.0 &&
            q.bin_size_x() == 1.0 && q.bins_y() == 1;
        std::printf("F7 name '%s' round trip: %d\n", name.c_str(), ok);
        bad += !ok;
    }
    return bad ? 1 : 0;
}

static int F9()
{
    int bad = 0;
    for (double x : {1e30, std::numeric_limits<double>::infinity(), 1.8446744073709552e19})
    {
        auto fn = [x](hep::mc_point<double> const&, hep::projector<double>& pr) {
            pr.add(0, x, 1.0); return 1.0; };
        auto integrand = hep::make_integrand<double>(fn, 1, hep::make_dist_params<double>(4, 0.0, 1.0, "d"));
        hep::callback<hep::default_plain_chkpt<double>> cb(hep::callback_mode::silent);
        auto r = hep::plain(integrand, std::vector<std::size_t>{4}, hep::make_plain_chkpt<double>(), cb);
        double s = 0;
        for (auto const& b : r.results()[0].distributions()[0].results()) s += b.sum();
        std::printf("F9 coordinate %g filled bins with total %g (expected 0)\n", x, s);
        bad += (s != 0.0);
    }
    return bad ? 1 : 0;
}

int main(int argc, char** argv)
{
    int n = argc > 1 ? std::atoi(argv[1]) : 0;
    switch (n)
    {
    case 1: return F1();
    case 2: return F2();
    case 3: return F3();
    case 4: return F4();
    case 5: return F5();
    case 6: return F6();
    case 7: return F7();
    case 9: return F9();
    }
    return 2;
}
