#include "hep/mc.hpp"
#include <cstdio>
#include <cmath>
#include <limits>
template <typename T> int probe() {
  hep::vegas_pdf<T> pdf(1, 8);
  T big = std::numeric_limits<T>::max() / T(2.5);
  std::vector<T> data{big, big/2, big/4, big, 0, big/8, big, big};
  auto n = hep::vegas_refine_pdf(pdf, T(1.5), data);
  std::vector<T> small; for (T x : data) small.push_back(std::ldexp(x, -40));
  auto m = hep::vegas_refine_pdf(pdf, T(1.5), small);
  int bad = 0;
  for (std::size_t b = 0; b <= 8; ++b) { if (!std::isfinite(n.bin_left(0,b)) || n.bin_left(0,b) != m.bin_left(0,b)) ++bad; }
  std::printf("F10 grid from data ~max/2.5: %s (left[1]=%Lg, scaled-down data give %Lg)\n", bad ? "BROKEN" : "ok", (long double) n.bin_left(0,1), (long double) m.bin_left(0,1));
  return bad;
}
int main() { return (probe<float>() + probe<double>() + probe<long double>()) ? 1 : 0; }
