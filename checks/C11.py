"""C11 - a distribution bin is the integral of the integrand restricted to that bin.
Spec: Bins.tla (BinOf admissible bins, MidX/MidY, per-bin accumulation), MC_Bins, Trace_C11."""
import vt
import mpicommon

LEVEL = "model_checking"
BUILDS = [(("drv_c11", ["drv_c11.cpp"]), {})]
ACTIONS = ("Fill1", "Mid", "Begin", "Fill", "BinResult", "End", "AccBins")


def run_main(chk, replay=None):
    thorough = chk.tier == "thorough"
    chk.cov["checker_cmd"] = "tlc MC_Bins; tlc MC_Layout; apalache-mc check --length=0 Bins_apa.tla / Layout_apa.tla; tlc Trace_C11 (TRACE=out/C11/trace.ndjson)"
    chk.cov["trusted_base"] = ["TLC", "Apalache 0.58 + Z3 (one-axis law for unbounded integers)", "dyadic parameters/coordinates so that the library's own arithmetic is exact", "exact_scaled projection of sums"]
    chk.cov["rule"] = ("Fill1: one-call PLAIN runs with a single projector.add for binnings bx 1..3, 1-d and by 1..2, min {-2,0,1/2}, size {1/4,1,3}, "
                       "scaled by 2^0/2^-20/2^20, coordinates on a quarter-bin lattice from two bins below to two above, NaN, +-inf, +-1e30, 2^64, 9.3e18; "
                       "runs: PLAIN/VEGAS/multi-channel iterations with 3 distributions and 0-2 fills each per call, every bin recomputed by the spec; "
                       "non-trivial = coordinate on an edge, outside the range or non-finite")
    chk.model("MC_Bins", what="MC_Bins: BinOf laws, flat order = mid-point order, huge coordinate never bin 0")
    # storage layout of several distributions in one flat array: every bin has a pair of slots of its own, what is read for a bin is what was filled
    chk.model("MC_Layout", "MC_Layout", what="MC_Layout (all lists of 1-3 distributions over 6 shapes, 2 fills): InBounds, NoAlias, ReadsOwnFills")
    chk.model("MC_Layout", "MC_Layout_bx", what="MC_Layout with a writer that advances by 2 bx per distribution: slots alias (non-vacuity)", expect_violation="NoAlias")
    # the one-axis law for unbounded integers (Apalache / Z3)
    import os
    import shutil
    out = os.path.join(vt.CACHE, "apa-c11-%d" % os.getpid())
    r = vt.run(["apalache-mc", "check", "--length=0", "--inv=AxisLaw", "--out-dir=" + out, os.path.join(vt.SPEC, "Bins_apa.tla")], timeout=600, ok_codes=None)
    shutil.rmtree(out, ignore_errors=True)
    if r.returncode != 0 or "Checker reports no error" not in r.stdout:
        raise vt.MachineryError("Apalache did not discharge Bins_apa!AxisLaw:\n" + r.stdout[-1500:])
    chk.cov["apalache"] = "Bins_apa!AxisLaw over unbounded coordinate, range start, bin size, bin count: no error"
    # the storage laws for three distributions with any numbers of bins (Apalache / Z3), the 2 bx stride rejected
    import apacommon
    done = apacommon.discharge(chk, "Layout_apa", [
        (["--length=0", "--inv=InBounds"], "ok", "every bin's pair of slots lies inside the array, away from the integral's, for unbounded bin counts"),
        (["--length=0", "--inv=NoAlias"], "ok", "no two bins of three distributions with unbounded bin counts share a slot"),
        (["--length=0", "--inv=NoAliasBx"], "error", "the stride 2 bx (rows forgotten) makes bins share slots")])
    chk.cov["obligations"] = 1 + len(done)
    chk.cov["discharged"] = 1 + len(done)
    exe = vt.build(*BUILDS[0][0])
    trace = replay or chk.path("trace.ndjson")
    if not replay:
        vt.run([exe, trace, str(chk.seed), "1" if thorough else "0"], timeout=900)
    rows = vt.read_ndjson(trace)
    for e in rows:
        if e["e"] == "Fill1":
            p = e["p"]
            edge = e["xt"] != "fin" or (e["x"] - p[2]) % p[3] == 0 or e["got"] == -1
            if edge:
                chk.nontrivial((e["T"], e["exp"], tuple(p), e["xt"], e["x"], e["yt"], e["y"]))
    chk.cov["evaluations"] = sum(1 for e in rows if e["e"] in ("Fill1", "Begin"))
    chk.cov["events"] = len(rows)
    chk.sample_each(rows, ACTIONS)
    ok, matched, res = chk.validate("Trace_C11", trace, need_actions=ACTIONS, timeout=600)
    if not ok:
        bad = rows[matched] if matched < len(rows) else None
        chk.violation("C11:bin", trace, "event %d rejected by Trace_C11 (no admissible behaviour of Bins.tla explains it): %s" % (matched + 1, str(bad)[:700]))
    if thorough and ok and not replay:
        import copy
        bad = copy.deepcopy(rows)
        i = next(k for k, e in enumerate(bad) if e["e"] == "BinResult" and e["sum"] != 0)
        bad[i]["sum"] += 1
        p = chk.path("selftest.ndjson")
        vt.write_ndjson(p, bad)
        r2 = vt.tlc("Trace_C11", env={"TRACE": p}, workers=1, tag="C11")
        if r2.rc == 0:
            raise vt.MachineryError("binding self-test: corrupted trace accepted")
        chk.cov["binding_selftest"] = "bin sum corrupted at event %d: rejected (matched %s)" % (i + 1, r2.matched)


def run(chk, replay=None):
    if mpicommon.is_mpi_replay(replay):
        mpicommon.mpi_leg(chk, "C11:mpi", replay=replay)
        return
    run_main(chk, replay=replay)
    if not replay and not chk.violations:
        mpicommon.legs(chk, "C11:mpi", big=False)


def replay(chk, path):
    run(chk, replay=path)
