"""C03 - resuming from a checkpoint is indistinguishable from never stopping.
Spec: Session.tla (ChkOf, design-level checkpoint object), MC_Session (TLC, all histories), Trace_Session."""
import vt
import mpicommon
from sessioncommon import run_session, histories, BUILDS, ACTIONS  # noqa: F401

LEVEL = "model_checking"


def run_main(chk, replay=None):
    chk.cov["checker_cmd"] = "tlc MC_Session; tlc Trace_Session (TRACE=out/C03/trace.ndjson)"
    chk.cov["trusted_base"] = ["TLC", "interning of complete checkpoint texts (equal id <=> byte-identical text)"]
    chk.cov["rule"] = ("one case per history: for each configuration {PLAIN, VEGAS default / user grid, multi-channel default / user weights with a disabled "
                       "channel} x {float, double, long double} x engines {mt19937, minstd_rand, ranlux48, knuth_b, counter, mt19937_64} x with/without a 1-d "
                       "and a 2-d distribution (names from '', ' ', 'a b', ' lead', 'trail ', 'x'), unequal calls: the uninterrupted run and all 2^(n-1) "
                       "compositions, each interruption through memory, text or the file written by the built-in callback; plus configurations with a "
                       "target precision (early stop). non-trivial = history with at least one interruption through text or file")
    rows, ok = run_session(chk, 1, "C03:resume", "resume", [a for a in ACTIONS if a != "TRollback"], replay=replay, big=True)
    hs = histories(rows)
    chk.cov["evaluations"] = len(hs)
    for i, (cfg, ops) in enumerate(hs):
        if any(o["e"] == "Reload" for o in ops):
            chk.nontrivial(i)
    chk.sample_each(rows, ("Cfg", "Begin", "Iter", "Reload", "Final"))
    if chk.tier == "thorough" and ok and not replay:
        import copy
        bad = copy.deepcopy(rows)
        i = [k for k, e in enumerate(bad) if e["e"] == "Iter"][-1]
        bad[i]["text"] += 100000
        p = chk.path("selftest.ndjson")
        vt.write_ndjson(p, bad)
        r2 = vt.tlc("Trace_Session", env={"TRACE": p}, workers=1, tag="C03")
        if r2.rc == 0:
            raise vt.MachineryError("binding self-test: corrupted trace accepted")
        chk.cov["binding_selftest"] = "text id of the last resumed iteration changed (event %d): rejected (matched %s)" % (i + 1, r2.matched)


def run(chk, replay=None):
    if mpicommon.is_mpi_replay(replay):
        mpicommon.mpi_leg(chk, "C03:mpi", replay=replay)
        return
    run_main(chk, replay=replay)
    if not replay and not chk.violations:
        mpicommon.legs(chk, "C03:mpi", big=False)


def replay(chk, path):
    run(chk, replay=path)
