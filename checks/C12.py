"""C12 - iterations run in order and stop only when the callback says so.
Spec: Loop.tla (per-rank loop machine, Continue), MC_Loop (TLC), Trace_C12."""
import os
import shutil
import vt

LEVEL = "model_checking"
BUILDS = [(("drv_callback", ["drv_callback.cpp"]), {"flags": ["-O0", "-I" + os.path.join(vt.HARNESS, "mpishim")]})]
ACTIONS = ("TRun", "TCall", "TCallback", "TReturned", "TRunEnd")


def run(chk, replay=None):
    thorough = chk.tier == "thorough"
    chk.cov["checker_cmd"] = "tlc MC_Loop; apalache-mc check --init=IndInv --length=1 --inv=IndInv Loop_apa.tla; tlc MC_Session; tlc Trace_C12 (TRACE=out/C12/trace.ndjson)"
    chk.cov["trusted_base"] = ["TLC", "Apalache 0.58 + Z3 (inductive invariant of the loop protocol)", "MPI shim (threads as ranks)", "relative-error class of the combined result computed by the driver with the library's "
                               "own accumulate<weighted_with_variance> (C13) in the same arithmetic as the callback"]
    chk.cov["rule"] = ("one case per run: user callbacks returning false at every position 0..6 (fresh and resumed checkpoints, serial and 2-3 simulated ranks) and "
                       "the built-in callback in all four modes with targets {0, 0.1, 0.001, 1, 0.02} on integrands {ordinary, identically zero, constant, "
                       "zero mean, non-finite everywhere, negative}, PLAIN / VEGAS / multi-channel and their MPI forms; every integrand call, callback and "
                       "return is an event; non-trivial = run that stops early or uses the built-in callback on a degenerate integrand")
    chk.model("MC_Loop", what="MC_Loop: one callback per iteration after exactly the rank's share of calls, nothing after a false return")
    # the same protocol for one rank with any plan, any calls, any answers of the callback: an inductive invariant discharged by Apalache / Z3
    import apacommon
    done = apacommon.discharge(chk, "Loop_apa", [
        (["--cinit=CInit", "--length=0", "--inv=IndInv"], "ok", "Init => IndInv"),
        (["--cinit=CInit", "--init=IndInv", "--length=1", "--inv=IndInv"], "ok", "IndInv /\\ Next => IndInv' (any plan length, calls per iteration, starting checkpoint, callback answers)"),
        (["--cinit=CInit", "--init=IndInv", "--length=0", "--inv=Protocol"], "ok", "IndInv => Protocol (one callback per completed iteration with exactly the results so far; stop iff told so or finished)"),
        (["--cinit=CInitEager", "--length=4", "--inv=Protocol"], "error", "returning the last result without its callback: Protocol violated")])
    chk.cov["obligations"] = len(done)
    chk.cov["discharged"] = len(done)
    # several integrations at the same time on disjoint communicators: every group stops on its own results
    chk.model("MC_MpiGroups", "MC_MpiGroups_local", what="MC_MpiGroups (groups of 2 and 3 ranks, needs 2 and 4): Independent, InStep, PROPERTY Termination")
    chk.model("MC_MpiGroups", "MC_MpiGroups_local3", what="MC_MpiGroups (three groups): Independent, InStep, PROPERTY Termination")
    chk.model("MC_MpiGroups", "MC_MpiGroups_world", what="MC_MpiGroups, decision broadcast on the world communicator: Independent violated",
              expect_violation="Independent")
    chk.model("MC_Session", workers=8, what="MC_Session: CallbackProtocol / StopsOnFalse with the checkpoint object; Continue() truth table")
    exe = vt.build(*BUILDS[0][0], **BUILDS[0][1])
    trace = replay or chk.path("trace.ndjson")
    if not replay:
        scratch = chk.path("scratch")
        os.makedirs(scratch, exist_ok=True)
        vt.run([exe, trace, str(chk.seed), "1" if thorough else "0", scratch, "12"], timeout=900)
        shutil.rmtree(scratch, ignore_errors=True)
    rows = vt.read_ndjson(trace)
    runs = [r for r in rows if r["e"] == "Run"]
    chk.cov["evaluations"] = len(runs)
    chk.cov["events"] = len(rows)
    cur = None
    for r in rows:
        if r["e"] == "Run":
            cur = r
        elif r["e"] == "Callback" and cur is not None and (r["ret"] == 0 or (cur["builtin"] and cur["shape"] != "ordinary")):
            chk.nontrivial(cur["run"])
    chk.sample_each(rows, ("Run", "Callback", "Returned"))
    ok, matched, res = chk.validate("Trace_C12", trace, need_actions=ACTIONS, timeout=900)
    if not ok:
        bad = rows[matched] if matched < len(rows) else None
        ctx = [r for r in rows[:matched] if r["e"] == "Run"][-1:]
        chk.violation("C12:loop", trace, "event %d is not a step of Loop.tla: %s in run %s" % (matched + 1, str(bad)[:300], str(ctx)[:500]))
    if thorough and ok and not replay:
        bad = list(rows)
        i = next(k for k, e in enumerate(bad) if e["e"] == "Callback" and e["ret"] == 1)
        del bad[i]
        p = chk.path("selftest.ndjson")
        vt.write_ndjson(p, bad)
        r2 = vt.tlc("Trace_C12", env={"TRACE": p}, workers=1, tag="C12")
        if r2.rc == 0:
            raise vt.MachineryError("binding self-test: trace with a missing callback accepted")
        chk.cov["binding_selftest"] = "callback event %d removed: rejected (matched %s)" % (i + 1, r2.matched)


def replay(chk, path):
    run(chk, replay=path)
