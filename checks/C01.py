"""C01 - sampling weights make every integrator an unbiased estimator.
Spec: Measure.tla (exact midpoint-lattice sums for VEGAS grids and multi-channel maps in rational arithmetic), MC_Measure (TLC theorems), Trace_C01."""
import vt

LEVEL = "model_checking"
BUILDS = [(("drv_c01", ["drv_c01.cpp"]), {})]


def run(chk, replay=None):
    thorough = chk.tier == "thorough"
    chk.cov["checker_cmd"] = "tlc MC_Measure; tlc Trace_C01 (TRACE=out/C01/trace.ndjson)"
    chk.cov["trusted_base"] = ["TLC", "script_engine plays the midpoint lattice (2j+1)/(2M) in call order", "dyadic grids make VEGAS / PLAIN lattice sums exact in "
                               "float; multi-channel values and adapted grids are compared with the exact integral within 8 units of 2^-20 (64 for float) resp. 256 eps",
                               "with weights produced by the library itself (minimum weight, adaptation) the selector lattice has 2048 points and the tolerance is n/Ms"]
    chk.cov["rule"] = ("VLat: hep::vegas on every grid over k/8 with 2 bins and a third of those with 4 bins (all in thorough), 1-d and 2-d, lattice sizes 4..32 per "
                       "dimension, integrands {1, x_first, x_last, indicator of the first old bins}; hep::plain as the one-bin case, d = 1..3; McLat: "
                       "hep::multi_channel with 2 channels given by grids [0,k/4,1] x weight vectors over {0,1,2}^2 (disabled channels) x common jacobian factor "
                       "{1/2, 1, 3} on a 24 x 2S lattice, and 3 channels with weights clamped by a minimum weight; Adapt: lattice iterations on the grids reached "
                       "after 1..4 adaptive iterations on peaked integrands; McAdapt: hep::multi_channel resumed for a 2064 x 2064 lattice iteration after 1..3 "
                       "adaptive iterations with beta in {0, 1/4, 1/2, 1}, minimum weight in {0, 0.05, 0.1}, 3-4 channels of which one is enabled but never contributes; non-trivial = non-uniform grid or unequal weights")
    chk.model("MC_Measure", workers=4, what="MC_Measure: lattice sum = integral for all grids over k/4 (2 and 3 bins), all weight vectors over {0,1,2}^2; unweighted density "
                                            "sum is not measure preserving")
    exe = vt.build(*BUILDS[0][0])
    trace = replay or chk.path("trace.ndjson")
    if not replay:
        vt.run([exe, trace, str(chk.seed), "1" if thorough else "0"], timeout=900)
    rows = vt.read_ndjson(trace)
    chk.cov["evaluations"] = len(rows)
    for k, e in enumerate(rows):
        if e["e"] == "VLat" and e["B"] > 1 and len(set(e["gx"][i + 1] - e["gx"][i] for i in range(e["B"]))) > 1:
            chk.nontrivial(("v", e["T"], tuple(e["gx"]), e["f"], e["M"]))
        elif e["e"] == "McLat" and (len(set(e["w"])) > 1 or e["exactWeights"] == 0):
            chk.nontrivial(("m", k))
        elif e["e"] == "McAdapt":
            chk.nontrivial(("ma", e["run"], e["f"]))
        elif e["e"] == "Adapt":
            chk.nontrivial(("a", e["run"], e["it"], e["f"]))
    chk.sample_each(rows, ("VLat", "McLat", "Adapt", "McAdapt", "McWeightEps"))
    ok, matched, res = chk.validate("Trace_C01", trace, need_actions=("VLat", "McLat", "Adapt", "McAdapt", "McWeightEps"), timeout=1200)
    if not ok:
        bad = rows[matched] if matched < len(rows) else None
        chk.violation("C01:measure", trace, "event %d rejected by Trace_C01: %s" % (matched + 1, str(bad)[:500]))
    if thorough and ok and not replay:
        import copy
        bad = copy.deepcopy(rows)
        i = next(k for k, e in enumerate(bad) if e["e"] == "VLat" and e["exact"] == 1 and e["f"] == 1)
        bad[i]["sum"] += 1
        p = chk.path("selftest.ndjson")
        vt.write_ndjson(p, bad)
        r2 = vt.tlc("Trace_C01", env={"TRACE": p}, workers=1, tag="C01")
        if r2.rc == 0:
            raise vt.MachineryError("binding self-test: corrupted trace accepted")
        chk.cov["binding_selftest"] = "lattice sum off by 2^-12 at event %d: rejected (matched %s)" % (i + 1, r2.matched)


def replay(chk, path):
    run(chk, replay=path)
