"""C08 - channel weights stay a probability vector; disabled channels and floor respected.
Spec: Refine.tla (RefineW as coded, WeightsOK property level), MC_Refine (TLC), Trace_C08."""
import vt
import mpicommon

LEVEL = "model_checking"
BUILDS = [(("drv_c08", ["drv_c08.cpp"]), {})]


def run_main(chk, replay=None):
    thorough = chk.tier == "thorough"
    chk.cov["checker_cmd"] = "tlc MC_Refine; tlc Trace_C08 (TRACE=out/C08/trace.ndjson)"
    chk.cov["trusted_base"] = ["TLC", "pow(x, 1/k) exact for perfect k-th powers times powers of two (libm)",
                               "floor(v*2^20) projection compared with tolerance 2 units"]
    chk.cov["rule"] = ("RefCase: every (w, r) over {0..3}^n x {0..3}^n, n<=3 (4 in thorough), beta in {1,1/2,1/4}, min in {0,1/10,1/5}, data "
                       "scaled by 2^(+-30/beta), compared with the exact rationals of Refine.tla; InitCase: checkpoint normalisation; RefAny: "
                       "random beta/data/min invariants; RunWeights: weights of every iteration of real runs incl. an all-zero iteration. "
                       "non-trivial = case with a zero weight, a zero datum or an active floor")
    chk.model("MC_Refine", workers=8, what="MC_Refine: WeightsOK(RefineW), GridRefineOK(Walk), Icdf laws")
    exe = vt.build(*BUILDS[0][0])
    trace = replay or chk.path("trace.ndjson")
    if not replay:
        vt.run([exe, trace, str(chk.seed), "1" if thorough else "0"], timeout=600)
    rows = vt.read_ndjson(trace)
    for e in rows:
        if e["e"] == "RefCase":
            if 0 in e["w"] or 0 in e["r"] or e["mn"] > 0:
                chk.nontrivial(("c", e["T"], e["betaInv"], tuple(e["w"]), tuple(e["r"]), e["mn"], e["md"]))
        elif e["e"] == "RunWeights" and (e["dataAllZero"] or 1 in e["zeroOut"]):
            chk.nontrivial(("r", e["run"], e["k"]))
    chk.cov["evaluations"] = len(rows)
    chk.sample_each(rows, ("RefCase", "InitCase", "RefAny", "RunWeights", "NextWeights"))
    ok, matched, res = chk.validate("Trace_C08", trace, need_actions=("RefCase", "InitCase", "RefAny", "RunWeights", "NextWeights"))
    if not ok:
        bad = rows[matched] if matched < len(rows) else None
        chk.violation("C08:weights", trace, "event %d rejected by Trace_C08: %s" % (matched + 1, str(bad)[:700]))
    if thorough and ok and not replay:
        import copy
        bad = copy.deepcopy(rows)
        i = next(k for k, e in enumerate(bad) if e["e"] == "RunWeights" and e["k"] == 2)
        bad[i]["v"][0] += 5000
        bad[i]["sum"] += 5000
        p = chk.path("selftest.ndjson")
        vt.write_ndjson(p, bad)
        r2 = vt.tlc("Trace_C08", env={"TRACE": p}, workers=1, tag="C08")
        if r2.rc == 0:
            raise vt.MachineryError("binding self-test: corrupted trace accepted")
        chk.cov["binding_selftest"] = "weight sum corrupted at event %d: rejected (matched %s)" % (i + 1, r2.matched)


def run(chk, replay=None):
    if mpicommon.is_mpi_replay(replay):
        mpicommon.mpi_leg(chk, "C08:mpi", replay=replay)
        return
    run_main(chk, replay=replay)
    if not replay and not chk.violations:
        mpicommon.legs(chk, "C08:mpi", big=False)


def replay(chk, path):
    run(chk, replay=path)
