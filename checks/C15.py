"""C15 - rolling a checkpoint back to iteration k reproduces the run that stopped after k.
Spec: Session.tla (RolledBack as coded vs ChkOf), MC_Session, Trace_Session (TRollback)."""
import vt
from sessioncommon import run_session, histories, BUILDS, ACTIONS  # noqa: F401

LEVEL = "model_checking"


def run(chk, replay=None):
    chk.cov["checker_cmd"] = "tlc MC_Session; tlc Trace_Session (TRACE=out/C15/trace.ndjson)"
    chk.cov["trusted_base"] = ["TLC", "interning of complete checkpoint texts and of grids / weight vectors"]
    chk.cov["rule"] = ("one case per history run(n); [text round trip]; rollback(k); [text round trip]; resume(rest or a different continuation) for every "
                       "k in 0..n+1, in memory and after reload, for PLAIN, VEGAS (default, user grid), multi-channel (default, user weights with a disabled "
                       "channel), three numeric types, six engines; non-trivial = k < n or k = n+1")
    rows, ok = run_session(chk, 2, "C15:rollback", "rollback", ACTIONS, replay=replay)
    hs = histories(rows)
    chk.cov["evaluations"] = sum(1 for _, ops in hs if any(o["e"] == "Rollback" for o in ops))
    for i, (cfg, ops) in enumerate(hs):
        for o in ops:
            if o["e"] == "Rollback" and (o["threw"] or o["k"] < len(cfg["calls"])):
                chk.nontrivial(i)
    chk.sample_each(rows, ("Cfg", "Rollback", "Iter", "Final"))
    if chk.tier == "thorough" and ok and not replay:
        import copy
        bad = copy.deepcopy(rows)
        i = next(k for k, e in enumerate(bad) if e["e"] == "Rollback" and e["threw"] == 0 and e["k"] == 1)
        bad[i]["text"] += 100000
        p = chk.path("selftest.ndjson")
        vt.write_ndjson(p, bad)
        r2 = vt.tlc("Trace_Session", env={"TRACE": p}, workers=1, tag="C15")
        if r2.rc == 0:
            raise vt.MachineryError("binding self-test: corrupted trace accepted")
        chk.cov["binding_selftest"] = "text id after rollback(1) changed (event %d): rejected (matched %s)" % (i + 1, r2.matched)


def replay(chk, path):
    run(chk, replay=path)
