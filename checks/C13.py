"""C13 - combining results obeys the documented formulas and their algebraic laws.
Spec: Combine.tla (WVar, WEq, Chi2 in exact rationals; Laws), MC_Combine (TLC: laws, permutation invariance), Trace_C13."""
import vt

LEVEL = "model_checking"
BUILDS = [(("drv_c13", ["drv_c13.cpp"]), {})]


def run(chk, replay=None):
    thorough = chk.tier == "thorough"
    chk.cov["checker_cmd"] = "tlc MC_Combine; tlc Trace_C13 (TRACE=out/C13/trace.ndjson)"
    chk.cov["trusted_base"] = ["TLC", "inputs are exactly representable (estimates in quarters, errors 1/2, 1, 2; dyadic scalings 2^-40, 1, 2^40), the float results are "
                               "compared with the exact rationals at 2^-20 with a tolerance of eps x conditioning computed by the spec"]
    chk.cov["rule"] = ("one case per sequence of 0..4 results (calls 2..8, non-zero calls 0 / 1 / all, estimates -2..2, variances 1/4, 1, 4) and one rotation of "
                       "every fourth, for float / double / long double and three dyadic scalings: accumulate<weighted_with_variance>, accumulate<weighted_equally>, "
                       "chi_square_dof; plus 1..3 results of more than 2^32 calls each (CombBig: counters as limbs, round trip of the (value, error) conversion); plus sequences of plain_results carrying a 1-d (3 bins) and a 2-d (2x2 bins) distribution combined bin by bin; "
                       "non-trivial = sequence with at least two informative results")
    chk.model("MC_Combine", "MC_Combine_thorough" if thorough else "MC_Combine", workers=8,
              what="MC_Combine: Laws on all sequences <= 3, permutation invariance, empty results ignored, chi^2 special cases")
    exe = vt.build(*BUILDS[0][0])
    trace = replay or chk.path("trace.ndjson")
    if not replay:
        vt.run([exe, trace, str(chk.seed), "1" if thorough else "0"], timeout=600)
    rows = vt.read_ndjson(trace)
    chk.cov["evaluations"] = len(rows)
    for k, e in enumerate(rows):
        rs = e.get("rs")
        if rs is None:
            continue   # (an Abort event of a run that crashed: no specification accepts it, the validation below reports it)
        if sum(1 for i in range(len(rs) // 6) if rs[6 * i + 1] != 0) >= 2:
            chk.nontrivial((e["e"], e["T"], e.get("k", 0), tuple(rs)))
    chk.sample_each(rows, ("Comb", "CombHead", "CombBin", "CombBig"))
    ok, matched, res = chk.validate("Trace_C13", trace, need_actions=("Comb", "CombHead", "CombBin", "CombBig"), timeout=900)
    if not ok:
        bad = rows[matched] if matched < len(rows) else None
        chk.violation("C13:combine", trace, "event %d rejected by Trace_C13: %s" % (matched + 1, str(bad)[:600]))
    if thorough and ok and not replay:
        import copy
        bad = copy.deepcopy(rows)
        i = next(k for k, e in enumerate(bad) if e["e"] == "Comb" and e["m"] == 3 and e["wv"][1] > 0)
        bad[i]["wv"][3] += 2000
        p = chk.path("selftest.ndjson")
        vt.write_ndjson(p, bad)
        r2 = vt.tlc("Trace_C13", env={"TRACE": p}, workers=1, tag="C13")
        if r2.rc == 0:
            raise vt.MachineryError("binding self-test: corrupted trace accepted")
        chk.cov["binding_selftest"] = "combined estimate shifted by 0.2%% (event %d): rejected (matched %s)" % (i + 1, r2.matched)


def replay(chk, path):
    run(chk, replay=path)
