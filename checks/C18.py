"""C18 - a killed run always leaves a complete checkpoint file.
Spec: FileSys.tla (file contents under system calls, kill anywhere), MC_FileSys (both write protocols), MpiFile.tla (several processes, inodes),
Crash.tla (composition with the session), Trace_C18.
Fault enumeration: every system call of every iteration x {before, after} x byte prefixes of every write, driven by the
observed system-call trace; each killed run's log + what was found on disk + the resumed run is one trace for TLC."""
import json
import os
import shutil
import subprocess
import vt

LEVEL = "fault_enumeration"
BUILDS = [(("drv_c18", ["drv_c18.cpp"]), {}),
          (("drv_c18_mpi", ["drv_c18.cpp"]), {"flags": ["-DVT_SHIM", "-I" + os.path.join(vt.HARNESS, "mpishim")]})]


def build_interposer():
    return vt.build("libvtcrash.so", ["interpose/interpose.c"], flags=["-fPIC", "-shared"], libs=["-ldl"], cxx="gcc", include_repo=False)


def syslog_events(path):
    out = []
    if not os.path.exists(path):
        return out
    for line in open(path):
        line = line.strip()
        if not line:
            continue
        e = json.loads(line)
        if e["e"] == "Marker":
            parts = e["text"].split("/")
            if parts[0] == "ckpt":
                out.append({"e": "Ckpt", "k": int(parts[1]), "size": int(parts[2])})
        else:
            out.append(e)
    return out


def run(chk, replay=None):
    thorough = chk.tier == "thorough"
    chk.cov["checker_cmd"] = "tlc MC_FileSys (tmprename: invariant holds; direct: violated); apalache-mc check --init=IndInv --length=1 --inv=IndInv FileSys_apa.tla; tlc Trace_C18 (TRACE=out/C18/trace.ndjson)"
    chk.cov["trusted_base"] = ["TLC", "Apalache 0.58 + Z3 (inductive invariant of the file protocol)", "LD_PRELOAD interposer sees open/fopen/write/writev/rename/unlink of the C++ runtime (close is issued inside libc and not seen; it "
                               "does not change file contents)", "process kill = _exit inside the interposer (page cache survives, as for SIGKILL); power loss / fsync out of scope"]
    chk.cov["rule"] = ("one case per kill point: for PLAIN (checkpoint < 1 kB, below the stream buffer), mpi_plain on 3 ranks of the thread shim with mpi_callback, multi-channel (~10 kB) and VEGAS (128 bins x 3 dims, 30-80 kB, "
                       "many 8 kB writes) with 3 iterations: kill before and after every open / write / rename and inside every write after {0, 1, half, n-1} "
                       "bytes; after each kill the file is classified against the reference texts and the run is resumed; non-trivial = kill inside or right "
                       "after a call that changes a file")
    chk.model("MC_FileSys", "MC_FileSys_tmp", what="MC_FileSys tmp+rename protocol: FileCompleteOrAbsent in every state incl. all partial writes")
    chk.model("MC_FileSys", "MC_FileSys_direct", what="MC_FileSys direct protocol (as coded before fix 4d363c6): invariant violated",
              expect_violation="FileCompleteOrAbsent")
    # the same protocol for any number of iterations and any text sizes: an inductive invariant discharged by Apalache / Z3
    import apacommon
    done = apacommon.discharge(chk, "FileSys_apa", [
        (["--cinit=CInit", "--length=0", "--inv=IndInv"], "ok", "Init => IndInv"),
        (["--cinit=CInit", "--init=IndInv", "--length=1", "--inv=IndInv"], "ok", "IndInv /\\ Next => IndInv' (any iteration count, any sizes, kill anywhere)"),
        (["--cinit=CInit", "--init=IndInv", "--length=0", "--inv=TargetOK"], "ok", "IndInv => TargetOK (target absent or a complete previous / new checkpoint)"),
        (["--cinit=CInitDirect", "--length=6", "--inv=TargetOK"], "error", "writing into the target itself: TargetOK violated")])
    chk.cov["obligations"] = len(done)
    chk.cov["discharged"] = len(done)
    # composition with the session: kill anywhere, restart from the file, same end (safety + liveness under fairness)
    comp = vt.tlc("Crash", "Crash_tmp", workers=4, tag="C18")
    chk.add_tlc("Crash (session x file protocol x up to 3 kills, tmp+rename): FileOK, NeverLost, SameEnd, PROPERTY Completes", comp)
    if comp.rc != 0 or "No error has been found" not in comp.out:
        raise vt.MachineryError("Crash.tla (tmp+rename) failed:\n" + comp.tail())
    chk.model("Crash", "Crash_direct", what="Crash with the direct protocol: a killed run can be lost (NeverLost violated)", expect_violation="NeverLost")
    # several processes (mpi_callback): only the root writes as coded; with every rank writing the target can be torn or truncated
    chk.model("MpiFile", "MpiFile_root", what="MpiFile (3 ranks, root writes, inode semantics, kill anywhere): FileCompleteOrAbsent, Resumable")
    chk.model("MpiFile", "MpiFile_all", what="MpiFile with every rank writing: invariant violated (truncation / torn write under a rename)",
              expect_violation="FileCompleteOrAbsent")
    exe_serial = vt.build(*BUILDS[0][0])
    exe_mpi = vt.build(*BUILDS[1][0], **BUILDS[1][1])
    lib = build_interposer()
    trace = replay or chk.path("trace.ndjson")
    if not replay:
        events = []
        work = chk.path("work")
        niter = 3
        nkills = 0
        # plain-tmpdir: the name of the temporary file is taken by a directory, so that it cannot be created (nothing is written then)
        # plain-tmpname: the checkpoint's own name ends in ".tmp"
        for kind in ("plain", "mpi", "mc", "vegas", "plain-tmpdir", "plain-tmpname"):
            exe = exe_mpi if kind == "mpi" else exe_serial
            xkind = kind.split("-")[0]
            tname = "chk.tmp" if kind.endswith("-tmpname") else "chk.txt"
            ref = os.path.join(work, kind, "ref")
            w = os.path.join(work, kind, "w")
            os.makedirs(ref)
            os.makedirs(w)
            vt.run([exe, xkind, os.path.join(ref, "chk.txt"), str(niter), ref], timeout=300)
            refs = {k: open(os.path.join(ref, "ref_%d.txt" % k), "rb").read() for k in range(1, niter + 1)}
            final = open(os.path.join(ref, "chk.txt.final"), "rb").read()
            target = os.path.join(w, tname)

            def one(kill):
                shutil.rmtree(w)
                os.makedirs(w)
                if kind.endswith("-tmpdir"):
                    os.makedirs(target + ".tmp")
                syslog = os.path.join(work, kind, "sys.ndjson")
                if os.path.exists(syslog):
                    os.remove(syslog)
                env = {"VT_SYSLOG": syslog, "VT_WATCH_DIR": w, "LD_PRELOAD": lib}
                if kill:
                    env["VT_KILL_AT"] = kill
                r = vt.run([exe, xkind, target, str(niter), "-"], env=env, timeout=300, ok_codes=None)
                evs = [{"e": "Reset", "kind": kind, "target": tname, "kill": kill or "", "rc": r.returncode}] + syslog_events(syslog)
                evs = [e for e in evs if e.get("path", "") != tname + ".final"]
                # the process dies with the call it is killed at: what other threads (ranks of the shim) still log between that line and
                # the actual exit of the process is not part of the run
                kpos = next((i for i, e in enumerate(evs) if e["e"] == "Killed"), None)
                if kpos is not None:
                    evs = evs[:kpos + 1]
                # what is on disk now?
                if os.path.exists(target):
                    data = open(target, "rb").read()
                    k = next((i for i, t in refs.items() if t == data), -1)
                    evs.append({"e": "Observed", "exists": 1, "k": k, "len": len(data)})
                else:
                    evs.append({"e": "Observed", "exists": 0, "k": -1, "len": 0})
                # resume from whatever is on disk - again under the interposer, so that the resumed run's own writes are checked against the
                # files the killed run left behind - and compare the final checkpoint with the uninterrupted run's
                syslog2 = os.path.join(work, kind, "sys2.ndjson")
                if os.path.exists(syslog2):
                    os.remove(syslog2)
                vt.run([exe, xkind, target, str(niter), "-"], env={"VT_SYSLOG": syslog2, "VT_WATCH_DIR": w, "LD_PRELOAD": lib}, timeout=300, ok_codes=None)
                evs.append({"e": "Restart"})
                evs += [e for e in syslog_events(syslog2) if e.get("path", "") != tname + ".final" and e["e"] != "Killed"]
                fin = open(target + ".final", "rb").read() if os.path.exists(target + ".final") else b""
                evs.append({"e": "Resumed", "equal": 1 if fin == final else 0})
                return evs
            full = one(None)
            events += full
            # kill points from the observed protocol
            points = []
            for e in full:
                if e["e"] in ("Open", "Rename", "Unlink", "Close"):
                    points += ["%d:b" % e["n"], "%d:a" % e["n"]]
                elif e["e"] == "Write":
                    n = e["req"]
                    pref = sorted(set([0, 1, n // 2, n - 1])) if (thorough or kind != "vegas") else sorted(set([1, n // 2]))
                    points += ["%d:b" % e["n"], "%d:a" % e["n"]] + ["%d:%d" % (e["n"], b) for b in pref if 0 <= b < n]
            if not thorough and kind == "vegas":
                points = points[::2]
            for p in points:
                events += one(p)
                nkills += 1
                chk.nontrivial((kind, p))
        vt.write_ndjson(trace, events)
        shutil.rmtree(work, ignore_errors=True)
        chk.cov["kill_points"] = nkills
    rows = vt.read_ndjson(trace)
    chk.cov["evaluations"] = sum(1 for r in rows if r["e"] == "Reset")
    chk.cov["events"] = len(rows)
    chk.sample_each(rows, ("Reset", "Ckpt", "Open", "Write", "Rename", "Observed", "Resumed"))
    k = next((i for i, r in enumerate(rows) if r["e"] == "Reset" and r.get("kill")), 0)
    chk.sample(rows[k:k + 8])
    ok, matched, res = chk.validate("Trace_C18", trace, need_actions=("Reset", "Ckpt", "Open", "Write", "Rename", "Killed", "Observed", "Resumed"), timeout=900)
    if not ok:
        bad = rows[matched] if matched < len(rows) else None
        ctx = [r for r in rows[:matched + 1] if r["e"] == "Reset"][-1:]
        chk.violation("C18:file", trace, "event %d rejected by Trace_C18: %s in run %s" % (matched + 1, str(bad)[:300], str(ctx)[:300]))
    if thorough and ok and not replay:
        bad = [dict(r) for r in rows]
        i = next(k for k, e in enumerate(bad) if e["e"] == "Rename")
        bad[i - 1]["done"] -= 1
        p = chk.path("selftest.ndjson")
        vt.write_ndjson(p, bad)
        r2 = vt.tlc("Trace_C18", env={"TRACE": p}, workers=1, tag="C18")
        if r2.rc == 0:
            raise vt.MachineryError("binding self-test: corrupted trace accepted")
        chk.cov["binding_selftest"] = "one byte removed from the last write before a rename (event %d): rejected (matched %s)" % (i, r2.matched)


def replay(chk, path):
    run(chk, replay=path)
