"""C06 - non-finite evaluations are counted but never contaminate results or adaptation.
Spec: Call.tla + MC_Call (NonFiniteIsZero: shadow accumulator with the poisoned evaluations zeroed), Trace_C06 (two-lane trace validation)."""
import vt
import mpicommon

LEVEL = "model_checking"
BUILDS = [(("drv_c06", ["drv_c06.cpp"]), {})]


def run_main(chk, replay=None):
    thorough = chk.tier == "thorough"
    chk.cov["checker_cmd"] = "tlc MC_Call (invariant NonFiniteIsZero); tlc Trace_C06 (TRACE=out/C06/trace.ndjson)"
    chk.cov["trusted_base"] = ["TLC", "mt19937 with the same seed in both lanes", "hexfloat interning: equal id <=> bit-identical values"]
    chk.cov["rule"] = ("one case per (run, iteration): PLAIN / VEGAS (8 bins, 2-d, alpha 1.5) / multi-channel (2 channels, beta 1/2, min weight 0.05), 4 adaptive "
                       "iterations of 50 calls, poison pattern from VERIF_SEED: NaN / +inf / -inf from the integrand, NaN / -inf handed to a 1-d and a 2-d "
                       "distribution, infinite weight through vanishing channel densities; sparse, heavy and total poisoning; float/double/long double; "
                       "non-trivial = iteration with at least one poisoned evaluation")
    chk.model("MC_Call", "MC_Call_thorough" if thorough else "MC_Call", workers=8,
              what="MC_Call: NonFiniteIsZero (design level), protocol and consumption invariants")
    exe = vt.build(*BUILDS[0][0])
    trace = replay or chk.path("trace.ndjson")
    if not replay:
        vt.run([exe, trace, str(chk.seed), "1" if thorough else "0"], timeout=900)
    rows = vt.read_ndjson(trace)
    chk.cov["evaluations"] = len(rows) // 2
    for e in rows:
        if e["e"] == "Lane" and e["lane"] == "P" and e["poisoned"] > 0:
            chk.nontrivial((e["run"], e["k"]))
    chk.sample(rows[0]); chk.sample(rows[1])
    ok, matched, res = chk.validate("Trace_C06", trace, need_actions=("Lane",))
    if not ok:
        bad = rows[matched] if matched < len(rows) else None
        prev = rows[matched - 1] if matched else None
        chk.violation("C06:lanes", trace, "event %d rejected by Trace_C06: %s (previous: %s)" % (matched + 1, str(bad)[:400], str(prev)[:400]))
    if thorough and ok and not replay:
        import copy
        bad = copy.deepcopy(rows)
        i = next(k for k, e in enumerate(bad) if e["lane"] == "Z" and e["k"] == 2)
        bad[i]["nextId"] += 100000
        p = chk.path("selftest.ndjson")
        vt.write_ndjson(p, bad)
        r2 = vt.tlc("Trace_C06", env={"TRACE": p}, workers=1, tag="C06")
        if r2.rc == 0:
            raise vt.MachineryError("binding self-test: corrupted trace accepted")
        chk.cov["binding_selftest"] = "next-state id of lane Z changed at event %d: rejected (matched %s)" % (i + 1, r2.matched)


def run(chk, replay=None):
    if mpicommon.is_mpi_replay(replay):
        mpicommon.mpi_leg(chk, "C06:mpi", replay=replay)
        return
    run_main(chk, replay=replay)
    if not replay and not chk.violations:
        mpicommon.legs(chk, "C06:mpi")


def replay(chk, path):
    run(chk, replay=path)
