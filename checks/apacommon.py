"""Unbounded obligations discharged with Apalache (SMT) next to the bounded TLC models: `Init => Inv` at length 0 over
unbounded integers, `IndInv /\\ Next => IndInv'` at length 1, and as-coded alternatives that must be rejected (non-vacuity)."""
import os
import shutil
import vt


def discharge(chk, module, obligations, timeout=600):
    """obligations: list of (apalache arguments, expect 'ok' | 'error', description).  A result other than the expected one is a
    failure of the machinery / of the specification, not of the code: the module is a design-level statement that is bound to the code
    through its TLC sibling and the trace specification."""
    done = []
    for args, expect, what in obligations:
        out = os.path.join(vt.CACHE, "apa-%s-%d" % (module, os.getpid()))
        r = vt.run(["apalache-mc", "check"] + list(args) + ["--out-dir=" + out, os.path.join(vt.SPEC, module + ".tla")],
                   timeout=timeout, ok_codes=None)
        shutil.rmtree(out, ignore_errors=True)
        ok = "Checker reports no error" in r.stdout and r.returncode == 0
        err = "Checker has found an error" in r.stdout and r.returncode == 12 and "The outcome is: Error" in r.stdout
        if (expect == "ok" and not ok) or (expect == "error" and not err):
            raise vt.MachineryError("Apalache: %s %s: expected %s\n%s" % (module, " ".join(args), expect, r.stdout[-2000:]))
        done.append("%s [%s]: %s" % (" ".join(args), "no error" if expect == "ok" else "violated, as it must be", what))
    chk.cov.setdefault("apalache", [])
    if isinstance(chk.cov["apalache"], str):
        chk.cov["apalache"] = [chk.cov["apalache"]]
    chk.cov["apalache"] += ["%s: %s" % (module, d) for d in done]
    return done
