"""C04 - MPI runs sample the same points as the serial run for every world size.
Spec: Mpi.tla (parallel state machine, two collectives per iteration; invariants Disjoint / Covers / SamePosition / ReducedIsSerial, deadlock
freedom), Split.tla, Trace_C04 (per-rank machines fed with the merged event log, compared with the serial run)."""
import os
import vt
import mpicommon

LEVEL = "model_checking"
BUILDS = [(("drv_c04", ["drv_c04.cpp"]), {"flags": ["-O0", "-I" + os.path.join(vt.HARNESS, "mpishim")]}),
          (("drv_c04_mpi", ["drv_c04.cpp"]), {"flags": ["-O0", "-DVT_REAL_MPI"], "cxx": "mpicxx"})]
ACTIONS = ("MRun", "SerialIter", "SerialFinal", "Eval", "Enter", "Leave", "Add", "Ret", "Returned", "MEnd")


def models(chk, thorough):
    cfgs = ["1_1", "1_2", "1_3", "2_2", "2_3", "3_2", "3_3", "5_3"] if not thorough else \
        ["%d_%d" % (pl, p) for pl in (1, 2, 3, 5) for p in (1, 2, 3)] + ["2_4", "5_4"]
    for c in cfgs:
        chk.model("MC_Mpi", "MC_Mpi_" + c, workers=4, deadlock=True, what="MC_Mpi plan %s ranks %s: MpiInv, no deadlock, all interleavings" % tuple(c.split("_")))
    # the packed buffer of the reduction: unpacking with offsets that forget the rows of a two-dimensional distribution reads other bins' data
    chk.model("MC_Layout", "MC_Layout", what="MC_Layout (flat layout of integral + bins of several distributions, as packed for the reduction): ReadsOwnFills")
    chk.model("MC_Layout", "MC_Layout_readbx", what="MC_Layout with a reader that advances by 2 bx per distribution (non-vacuity)", expect_violation="ReadsOwnFills")
    live = vt.tlc("MC_Mpi", "MC_Mpi_live", workers=4, tag="C04")
    chk.add_tlc("MC_Mpi_live: liveness under weak fairness - every behaviour ends with all ranks returned (PROPERTY Termination)", live)
    if live.rc != 0 or "No error has been found" not in live.out:
        raise vt.MachineryError("liveness check of Mpi.tla failed:\n" + live.tail())
    live2 = vt.tlc("MC_Mpi", "MC_Mpi_live_skip", workers=4, tag="C04")
    chk.add_tlc("MC_Mpi_live_skip: the skip-collective alternative violates Termination (non-vacuity)", live2)
    if "Temporal property Termination was violated" not in live2.out:
        raise vt.MachineryError("non-vacuity: Termination not violated by the skip-collective alternative:\n" + live2.tail())
    res = vt.tlc("MC_Mpi", "MC_Mpi_skip", workers=4, deadlock=True, tag="C04")
    chk.add_tlc("MC_Mpi_skip (a rank without calls skips the second collective): deadlock expected", res)
    if "Deadlock reached" not in res.out:
        raise vt.MachineryError("non-vacuity: the as-coded alternative 'skip second collective' did not deadlock:\n" + res.tail())


def merge_ranks(paths):
    """merge per-rank logs of a real MPI execution into one trace: per rank order is kept, and no rank leaves a
    collective before every rank has entered it (a total order every correct MPI execution has)"""
    per = [vt.read_ndjson(p) for p in paths]
    # split each rank's log into runs
    def runs(rows):
        out, cur = [], None
        for r in rows:
            if r["e"] == "MRun":
                cur = [r]
                out.append(cur)
            elif cur is not None:
                cur.append(r)
        return out
    rr = [runs(p) for p in per]
    merged = []
    for k in range(len(rr[0])):
        blocks = [r[k] for r in rr]
        head = [e for e in blocks[0] if e["e"] in ("MRun", "SerialIter", "SerialFinal")]
        merged += head
        bodies = [[e for e in b if e["e"] not in ("MRun", "SerialIter", "SerialFinal", "MEnd")] for b in blocks]
        pos = [0] * len(bodies)
        while True:
            progressed = False
            # every rank up to and including its next Enter
            for r, b in enumerate(bodies):
                while pos[r] < len(b):
                    e = b[pos[r]]
                    if e["e"] == "Leave":
                        break
                    merged.append(e)
                    pos[r] += 1
                    progressed = True
                    if e["e"] == "Enter":
                        break
            # then every rank's Leave
            for r, b in enumerate(bodies):
                if pos[r] < len(b) and b[pos[r]]["e"] == "Leave":
                    merged.append(b[pos[r]])
                    pos[r] += 1
                    progressed = True
            if not progressed:
                break
        merged.append({"e": "MEnd", "ok": 1 if all(any(e["e"] == "MEnd" for e in b) for b in blocks) else 0})
    return merged


def real_mpi(chk, nps=(1, 2, 3, 5)):
    """the same driver under real Open MPI (quick: np = 2; thorough: 1, 2, 3, 5)"""
    import shutil
    import subprocess
    exe = vt.build(*BUILDS[1][0], **BUILDS[1][1])
    work = chk.path("mpi")
    os.makedirs(work, exist_ok=True)
    total = []
    for np_ in nps:
        base = os.path.join(work, "t%d.ndjson" % np_)
        r = subprocess.run(["mpirun", "--allow-run-as-root", "--oversubscribe", "-np", str(np_), exe, base, str(chk.seed + np_), "0"],
                           stdout=subprocess.PIPE, stderr=subprocess.STDOUT, text=True, timeout=900)
        if r.returncode != 0:
            raise vt.MachineryError("mpirun -np %d failed:\n%s" % (np_, r.stdout[-2000:]))
        total += merge_ranks([base + ".%d" % k for k in range(np_)])
    trace = chk.path("trace_mpirun.ndjson")
    vt.write_ndjson(trace, total)
    shutil.rmtree(work, ignore_errors=True)
    rows = total
    ok, matched, res = chk.validate("Trace_C04", trace, need_actions=("MRun", "Eval", "Enter", "Leave", "Add", "Returned"), timeout=1200,
                                    what="trace: real Open MPI, np in %s" % (list(nps),))
    chk.cov["real_mpi_runs"] = sum(1 for r in rows if r["e"] == "MRun")
    if not ok:
        bad = rows[matched] if matched < len(rows) else None
        ctx = [r for r in rows[:matched + 1] if r["e"] == "MRun"][-1:]
        chk.violation("C04:mpirun", trace, "real MPI: event %d rejected by Trace_C04: %s in run %s" % (matched + 1, str(bad)[:300], str(ctx)[:400]))


def run(chk, replay=None):
    if replay and "big" in os.path.basename(replay):
        mpicommon.big_leg(chk, "C04:mpi", replay)
        return
    thorough = chk.tier == "thorough"
    chk.cov["checker_cmd"] = "tlc MC_Mpi (8-12 configurations, deadlock check on); tlc Trace_C04 (TRACE=out/C04/trace.ndjson)"
    chk.cov["trusted_base"] = ["TLC", "MPI shim: ranks are threads, Allreduce = rendezvous + sum in a seeded permutation of ranks, seeded arrival perturbation, structural "
                               "deadlock / signature-mismatch detection", "counter engines reveal the stream position of every evaluated point",
                               "integrand values are small integers (sums exact under any reduction order) in PLAIN runs and first iterations"]
    chk.cov["rule"] = ("one case per run: mpi_plain / mpi_vegas / mpi_multi_channel x world sizes {1,2,3,4,7,8,33} (thorough: 13 sizes up to 33) x calls lists mixing "
                       "N = 0, N < P, N divisible by P, N with remainder x {float, double, long double} x engines {counter64 (1 raw draw per number), counter32 (2 per "
                       "number for double), mt19937 with target precision (early stop), ranlux24, minstd_rand}; each preceded by the serial run of the same "
                       "configuration; non-trivial = run with P >= 2 and some N not divisible by P")
    models(chk, thorough)
    exe = vt.build(*BUILDS[0][0], **BUILDS[0][1])
    trace = replay or chk.path("trace.ndjson")
    if not replay:
        vt.run([exe, trace, str(chk.seed), "1" if thorough else "0"], timeout=1200)
    rows = vt.read_ndjson(trace)
    runs = [r for r in rows if r["e"] == "MRun"]
    chk.cov["evaluations"] = len(runs)
    chk.cov["events"] = len(rows)
    for r in runs:
        if r["P"] >= 2 and any(n % r["P"] for n in r["plan"]):
            chk.nontrivial(r["run"])
    chk.sample_each(rows, ("MRun", "SerialIter", "Eval", "Enter", "Add", "Ret", "Returned"))
    ok, matched, res = chk.validate("Trace_C04", trace, need_actions=ACTIONS, timeout=1200)
    if not ok:
        bad = rows[matched] if matched < len(rows) else None
        ctx = [r for r in rows[:matched + 1] if r["e"] == "MRun"][-1:]
        chk.violation("C04:mpi", trace, "event %d rejected by Trace_C04: %s in run %s" % (matched + 1, str(bad)[:300], str(ctx)[:400]))
    if ok and not replay:
        ok = mpicommon.big_leg(chk, "C04:mpi")
    if ok and thorough and not replay:
        ok = mpicommon.ndebug_leg(chk, "C04:mpi")
    if ok and not replay:
        real_mpi(chk, (1, 2, 3, 5) if thorough else (2,))
    if thorough and ok and not replay:
        bad = [dict(r) for r in rows]
        i = next(k for k, e in enumerate(bad) if e["e"] == "Eval" and e["rank"] == 1 and e["pos"] >= 0)
        bad[i]["pos"] += 64  # another call's stream position
        p = chk.path("selftest.ndjson")
        vt.write_ndjson(p, bad)
        r2 = vt.tlc("Trace_C04", env={"TRACE": p}, workers=1, tag="C04")
        if r2.rc == 0:
            raise vt.MachineryError("binding self-test: corrupted trace accepted")
        chk.cov["binding_selftest"] = "stream position of one evaluation on rank 1 shifted (event %d): rejected (matched %s)" % (i + 1, r2.matched)


def replay(chk, path):
    run(chk, replay=path)
