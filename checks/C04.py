"""C04 - MPI runs sample the same points as the serial run for every world size.
Spec: Mpi.tla (parallel state machine, two collectives per iteration; invariants Disjoint / Covers / SamePosition / ReducedIsSerial, deadlock
freedom), Split.tla, Trace_C04 (per-rank machines fed with the merged event log, compared with the serial run)."""
import os
import vt

LEVEL = "model_checking"
BUILDS = [(("drv_c04", ["drv_c04.cpp"]), {"flags": ["-O0", "-I" + os.path.join(vt.HARNESS, "mpishim")]})]
ACTIONS = ("MRun", "SerialIter", "SerialFinal", "Eval", "Enter", "Leave", "Add", "Ret", "Returned", "MEnd")


def models(chk, thorough):
    cfgs = ["1_1", "1_2", "1_3", "2_2", "2_3", "3_2", "3_3", "5_3"] if not thorough else \
        ["%d_%d" % (pl, p) for pl in (1, 2, 3, 5) for p in (1, 2, 3)]
    for c in cfgs:
        chk.model("MC_Mpi", "MC_Mpi_" + c, workers=4, deadlock=True, what="MC_Mpi plan %s ranks %s: MpiInv, no deadlock, all interleavings" % tuple(c.split("_")))
    res = vt.tlc("MC_Mpi", "MC_Mpi_skip", workers=4, deadlock=True, tag="C04")
    chk.add_tlc("MC_Mpi_skip (a rank without calls skips the second collective): deadlock expected", res)
    if "Deadlock reached" not in res.out:
        raise vt.MachineryError("non-vacuity: the as-coded alternative 'skip second collective' did not deadlock:\n" + res.tail())


def run(chk, replay=None):
    thorough = chk.tier == "thorough"
    chk.cov["checker_cmd"] = "tlc MC_Mpi (8-12 configurations, deadlock check on); tlc Trace_C04 (TRACE=out/C04/trace.ndjson)"
    chk.cov["trusted_base"] = ["TLC", "MPI shim: ranks are threads, Allreduce = rendezvous + sum in a seeded permutation of ranks, seeded arrival perturbation, structural "
                               "deadlock / signature-mismatch detection", "counter engines reveal the stream position of every evaluated point",
                               "integrand values are small integers (sums exact under any reduction order) in PLAIN runs and first iterations"]
    chk.cov["rule"] = ("one case per run: mpi_plain / mpi_vegas / mpi_multi_channel x world sizes {1,2,3,4,7,8,33} (thorough: 13 sizes up to 33) x calls lists mixing "
                       "N = 0, N < P, N divisible by P, N with remainder x {float, double, long double} x engines {counter64 (1 raw draw per number), counter32 (2 per "
                       "number for double), mt19937 with target precision (early stop), ranlux24, minstd_rand}; each preceded by the serial run of the same "
                       "configuration; non-trivial = run with P >= 2 and some N not divisible by P")
    models(chk, thorough)
    exe = vt.build(*BUILDS[0][0], **BUILDS[0][1])
    trace = replay or chk.path("trace.ndjson")
    if not replay:
        vt.run([exe, trace, str(chk.seed), "1" if thorough else "0"], timeout=1200)
    rows = vt.read_ndjson(trace)
    runs = [r for r in rows if r["e"] == "MRun"]
    chk.cov["evaluations"] = len(runs)
    chk.cov["events"] = len(rows)
    for r in runs:
        if r["P"] >= 2 and any(n % r["P"] for n in r["plan"]):
            chk.nontrivial(r["run"])
    chk.sample_each(rows, ("MRun", "SerialIter", "Eval", "Enter", "Add", "Ret", "Returned"))
    ok, matched, res = chk.validate("Trace_C04", trace, need_actions=ACTIONS, timeout=1200)
    if not ok:
        bad = rows[matched] if matched < len(rows) else None
        ctx = [r for r in rows[:matched + 1] if r["e"] == "MRun"][-1:]
        chk.violation("C04:mpi", trace, "event %d rejected by Trace_C04: %s in run %s" % (matched + 1, str(bad)[:300], str(ctx)[:400]))
    if thorough and ok and not replay:
        bad = [dict(r) for r in rows]
        i = next(k for k, e in enumerate(bad) if e["e"] == "Eval" and e["rank"] == 1 and e["pos"] >= 0)
        bad[i]["pos"] += 1
        p = chk.path("selftest.ndjson")
        vt.write_ndjson(p, bad)
        r2 = vt.tlc("Trace_C04", env={"TRACE": p}, workers=1, tag="C04")
        if r2.rc == 0:
            raise vt.MachineryError("binding self-test: corrupted trace accepted")
        chk.cov["binding_selftest"] = "stream position of one evaluation on rank 1 shifted (event %d): rejected (matched %s)" % (i + 1, r2.matched)


def replay(chk, path):
    run(chk, replay=path)
