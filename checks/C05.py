"""C05 - the checkpoint text format is lossless.
Spec: Format.tla (writers / readers over token streams), MC_Format (round-trip theorem, TLC), Trace_C05."""
import concurrent.futures
import vt

LEVEL = "model_checking"
TYPES = [("f", "float"), ("d", "double"), ("l", "long double")]
BUILDS = [(("drv_c05_" + s, ["drv_c05.cpp"]), {"flags": ["-O0", "-DVT_TYPE=" + t]}) for s, t in TYPES]


def run(chk, replay=None):
    thorough = chk.tier == "thorough"
    chk.cov["checker_cmd"] = "tlc MC_Format; tlc Trace_C05 (TRACE=out/C05/trace.ndjson)"
    chk.cov["trusted_base"] = ["TLC", "that max_digits10 significant digits + operator>> reproduce the bits of a value is *checked* bit for bit by the driver over "
                               "value classes and random bit patterns, not derived by the specification (decimal conversion arithmetic)",
                               "engine equality operator== of the standard library"]
    chk.cov["rule"] = ("one case per checkpoint built through the public constructors: {PLAIN, VEGAS, multi-channel} x 0..2 results x distribution sets (0-3 "
                       "distributions, 1-d and 2-d, names from '', 'x', ' ', ' x', 'x ', 'x y', '  ', 'a b c') x 9 standard engines with advanced states x "
                       "{float, double, long double}; numeric fields from {0, -0, 1, -1/3, denorm_min, min, max, lowest, 1+eps, 0.1, nextafter(1000), "
                       "-3 denorm_min, random bit patterns}, counters from {0, 1, 2^64-1, random}; non-trivial = checkpoint with at least one result")
    chk.model("MC_Format", what="MC_Format: Read(Write(c)) = c for 369 abstract checkpoints; the whitespace-skipping name reader fails exactly on empty / blank-led names")
    with concurrent.futures.ThreadPoolExecutor(max_workers=3) as ex:
        exes = list(ex.map(lambda b: vt.build(*b[0], **b[1]), BUILDS))
    trace = replay or chk.path("trace.ndjson")
    if not replay:
        with open(trace, "w") as out:
            for i, exe in enumerate(exes):
                p = trace + ".%d" % i
                vt.run([exe, p, str(chk.seed + i), "1" if thorough else "0"], timeout=900)
                out.write(open(p).read())
                __import__("os").remove(p)
    rows = vt.read_ndjson(trace)
    chk.cov["evaluations"] = len(rows)
    for k, e in enumerate(rows):
        if e["e"] == "Case" and e["nres"] > 0:
            chk.nontrivial(k)
    s = dict(rows[len(rows) // 3]) if rows else {}
    if "shape" in s:
        s["shape"] = s["shape"][:60]
    chk.sample(s)
    ok, matched, res = chk.validate("Trace_C05", trace, need_actions=("Case", "Params"), timeout=1200)
    if not ok:
        bad = dict(rows[matched]) if matched < len(rows) else {}
        if "shape" in bad:
            bad["shape"] = "[%d tokens]" % len(bad["shape"])
        chk.violation("C05:roundtrip", trace, "case %d rejected by Trace_C05: %s" % (matched + 1, str(bad)[:600]))
    if ok:
        # second pass: does the real text layout still match the writer of Format.tla (on which MC_Format's theorem rests)?
        res2 = vt.tlc("Trace_C05", env={"TRACE": trace, "LAYOUT": "1"}, workers=1, tag="C05", timeout=1200)
        chk.add_tlc("layout pass (text shape = shape of Format!WChk)", res2)
        chk.cov["layout_matches_spec"] = res2.rc == 0
        if res2.rc != 0:
            print("NOTE property=C05 the layout of the checkpoint text no longer matches Format.tla (case %s): the round trip still holds on everything "
                  "tried, but MC_Format's theorem is about the specification's layout - update Format.tla" % res2.matched)
    if thorough and ok and not replay:
        import copy
        bad = copy.deepcopy(rows)
        i = next(k for k, e in enumerate(bad) if e.get("nres") == 1 and e["names"])
        bad[i]["shape"].insert(12, 0)
        bad[i + 1]["equal"] = 0
        p = chk.path("selftest.ndjson")
        vt.write_ndjson(p, bad)
        r2 = vt.tlc("Trace_C05", env={"TRACE": p}, workers=1, tag="C05")
        r3 = vt.tlc("Trace_C05", env={"TRACE": p, "LAYOUT": "1"}, workers=1, tag="C05")
        if r2.rc == 0 or r2.matched != i + 1 or r3.rc == 0 or r3.matched != i:
            raise vt.MachineryError("binding self-test: corrupted trace accepted (%s, %s)" % (r2.matched, r3.matched))
        chk.cov["binding_selftest"] = ("field mismatch flagged in case %d: rejected by the property pass (matched %s); an extra newline token in the shape of "
                                       "case %d: rejected by the layout pass (matched %s)" % (i + 2, r2.matched, i + 1, r3.matched))


def replay(chk, path):
    run(chk, replay=path)
