"""C20 - reporting never changes or breaks a run.
Spec: Session.tla + MC_Session (ModeNonInterference: self-composition of the session machine under two modes), Trace_C20 (four-lane trace validation)."""
import os
import shutil
import vt

LEVEL = "model_checking"
BUILDS = [(("drv_callback", ["drv_callback.cpp"]), {"flags": ["-O0", "-I" + os.path.join(vt.HARNESS, "mpishim")]})]


def run(chk, replay=None):
    thorough = chk.tier == "thorough"
    chk.cov["checker_cmd"] = "tlc MC_Session (invariant ModeNonInterference); tlc Trace_C20 (TRACE=out/C20/trace.ndjson)"
    chk.cov["trusted_base"] = ["TLC", "MPI shim", "std::cout captured through a stream buffer that attributes bytes to the printing rank",
                               "interning of checkpoint texts"]
    chk.cov["rule"] = ("one case per (run, mode): PLAIN / VEGAS x six integrand shapes (ordinary, zero, constant, zero mean, non-finite, negative), serial and "
                       "2 simulated ranks, with and without target precision; multi-channel with 1, 2, 5, 12, 14, 20, 40 channels x weight patterns {all equal, "
                       "all but one minimal, 2-4 non-minimal with the rest disabled, graded, disabled in front}; each run in the four callback modes; "
                       "non-trivial = lane of a verbose or file-writing mode")
    chk.model("MC_Session", "MC_Session_thorough" if thorough else "MC_Session", workers=8,
              what="MC_Session: ModeNonInterference (two session copies differing only in mode stay equal in every reachable state)")
    chk.model("MC_Summary", what="MC_Summary: structure of the weight summary (minimal channels, listed channels, elision, maximum) is well-formed for all small and many-channel patterns")
    exe = vt.build(*BUILDS[0][0], **BUILDS[0][1])
    trace = replay or chk.path("trace.ndjson")
    if not replay:
        scratch = chk.path("scratch")
        os.makedirs(scratch, exist_ok=True)
        vt.run([exe, trace, str(chk.seed), "1" if thorough else "0", scratch, "20"], timeout=900)
        shutil.rmtree(scratch, ignore_errors=True)
    rows = vt.read_ndjson(trace)
    chk.cov["evaluations"] = len(rows)
    for k, r in enumerate(rows):
        if r["e"] == "Summary" and len(r["w"]) >= 5:
            chk.nontrivial(("s", k))
        if r["e"] == "Lane" and r["mode"] != 0:
            chk.nontrivial((r["run"], r["mode"]))
    chk.sample_each(rows, ("Summary", "Lane"))
    chk.sample(next((r for r in rows if r.get("kind") == "mc" and r["mode"] == 3), rows[-1]))
    ok, matched, res = chk.validate("Trace_C20", trace, need_actions=("Lane", "Summary"))
    if not ok:
        bad = rows[matched] if matched < len(rows) else None
        chk.violation("C20:modes", trace, "lane %d rejected by Trace_C20: %s" % (matched + 1, str(bad)[:700]))
    if ok:
        # growth pass: behaviour beyond the listed property (what is printed / written in which mode, summary structure)
        res2 = vt.tlc("Trace_C20", env={"TRACE": trace, "GROWTH": "1"}, workers=1, tag="C20")
        chk.add_tlc("growth pass (printing per mode, file content, summary structure per Summary.tla)", res2)
        chk.cov["growth_pass_accepted"] = res2.rc == 0
        if res2.rc != 0:
            bad = rows[res2.matched] if res2.matched is not None and res2.matched < len(rows) else None
            print("NOTE property=C20 growth pass (not part of the property): event %s differs from the specification: %s" % (res2.matched, str(bad)[:300]))
    if thorough and ok and not replay:
        import copy
        bad = copy.deepcopy(rows)
        i = next(k for k, e in enumerate(bad) if e["e"] == "Lane" and e["mode"] == 2 and e["texts"])
        bad[i]["texts"][-1] += 100000
        p = chk.path("selftest.ndjson")
        vt.write_ndjson(p, bad)
        r2 = vt.tlc("Trace_C20", env={"TRACE": p}, workers=1, tag="C20")
        if r2.rc == 0:
            raise vt.MachineryError("binding self-test: corrupted trace accepted")
        chk.cov["binding_selftest"] = "checkpoint text of a verbose lane changed (event %d): rejected (matched %s)" % (i + 1, r2.matched)


def replay(chk, path):
    run(chk, replay=path)
