"""The MPI leg shared by the properties whose statement covers the MPI integrators (C02 estimator, C03 resumption, C08 weights, C11 bins, C14 sums,
C19 threading): drv_c04 runs the three MPI integrators under the shim next to the serial run of the same configuration and Trace_C04 compares,
per rank and iteration, counters, sums, every bin of every distribution, the recorded state and the state derived from the reduced result."""
import os
import vt

BUILD = (("drv_c04", ["drv_c04.cpp"]), {"flags": ["-O0", "-I" + os.path.join(vt.HARNESS, "mpishim")]})
ACTIONS = ("MRun", "SerialIter", "SerialFinal", "Eval", "Enter", "Leave", "Add", "Ret", "Returned", "MEnd")
NAME = "mpi_trace.ndjson"


def is_mpi_replay(path):
    return bool(path) and os.path.basename(path).startswith("mpi_trace")


def big_leg(chk, key, replay=None):
    """one MPI run with more than 2^24 non-zero evaluations in float: the call counters are integers and stay exact"""
    exe = vt.build(*BUILD[0], **BUILD[1])
    trace = replay or chk.path("mpi_trace_big.ndjson")
    if not replay:
        vt.run([exe, trace, str(chk.seed), "2"], timeout=1800)
    rows = vt.read_ndjson(trace)
    ok, matched, res = chk.validate("Trace_C04", trace, need_actions=("MRun", "SerialIter", "Enter", "Leave", "Add", "Ret", "Returned", "MEnd"), timeout=600,
                                    what="trace: mpi_plain<float>, 3 ranks, 2^24 + k calls (counters beyond float's integer range)")
    chk.cov["big_run_calls"] = [r["plan"] for r in rows if r["e"] == "MRun"]
    if not ok:
        bad = rows[matched] if matched < len(rows) else None
        chk.violation(key, trace, "MPI leg (2^24 calls): event %d rejected by Trace_C04: %s" % (matched + 1, str(bad)[:400]))
    return ok


def mpi_leg(chk, key, replay=None):
    """returns True iff the MPI executions were accepted"""
    if replay and "big" in os.path.basename(replay):
        return big_leg(chk, key, replay)
    if replay and "ndebug" in os.path.basename(replay):
        return ndebug_leg(chk, key, replay)
    exe = vt.build(*BUILD[0], **BUILD[1])
    trace = replay or chk.path(NAME)
    if not replay:
        vt.run([exe, trace, str(chk.seed), "0"], timeout=1200)
    rows = vt.read_ndjson(trace)
    chk.cov["mpi_runs"] = sum(1 for r in rows if r["e"] == "MRun")
    chk.cov["mpi_rule"] = ("MPI leg: mpi_plain / mpi_vegas / mpi_multi_channel (with distributions) under the thread shim, world sizes {1,2,3,4,7,8,33}, "
                           "calls lists incl. N = 0, N < P and remainders, against the serial run (Trace_C04)")
    ok, matched, res = chk.validate("Trace_C04", trace, need_actions=ACTIONS, timeout=1200, what="trace: MPI integrators under the shim vs serial runs")
    if not ok:
        bad = rows[matched] if matched < len(rows) else None
        ctx = [r for r in rows[:matched + 1] if r["e"] == "MRun"][-1:]
        chk.violation(key, trace, "MPI leg: event %d rejected by Trace_C04: %s in run %s" % (matched + 1, str(bad)[:300], str(ctx)[:400]))
    return ok


BUILD_NDEBUG = (("drv_c04_ndebug", ["drv_c04.cpp"]), {"flags": ["-O0", "-DNDEBUG", "-I" + os.path.join(vt.HARNESS, "mpishim")]})


def ndebug_leg(chk, key, replay=None):
    """the same MPI executions with the library compiled under NDEBUG (what release builds of user programs do): nothing the
    integrators need may live inside an assert"""
    exe = vt.build(*BUILD_NDEBUG[0], **BUILD_NDEBUG[1])
    trace = replay or chk.path("mpi_trace_ndebug.ndjson")
    if not replay:
        vt.run([exe, trace, str(chk.seed + 17), "0"], timeout=1200)
    rows = vt.read_ndjson(trace)
    ok, matched, res = chk.validate("Trace_C04", trace, need_actions=ACTIONS, timeout=1200, what="trace: MPI integrators under the shim, library compiled with -DNDEBUG")
    if not ok:
        bad = rows[matched] if matched < len(rows) else None
        ctx = [r for r in rows[:matched + 1] if r["e"] == "MRun"][-1:]
        chk.violation(key, trace, "MPI leg (NDEBUG build): event %d rejected by Trace_C04: %s in run %s" % (matched + 1, str(bad)[:300], str(ctx)[:400]))
    return ok


def legs(chk, key, big=False):
    ok = mpi_leg(chk, key)
    if ok and big and chk.tier == "thorough":
        ok = ndebug_leg(chk, key)
    if ok and big:
        ok = big_leg(chk, key)
    return ok
