"""C07 - the VEGAS grid stays a valid partition and refinement equidistributes importance.
Spec: Refine.tla (Walk as coded; GridRefineOK / ObservedRefineOK / Icdf* property level), MC_Refine, Trace_C07."""
import vt
import mpicommon

LEVEL = "model_checking"
BUILDS = [(("drv_c07", ["drv_c07.cpp"]), {})]
ACTIONS = ("GridCase", "RefStep", "Default", "Icdf", "IcdfTop", "Point", "ZeroIter", "PointHD", "NextGrid")


def run_main(chk, replay=None):
    thorough = chk.tier == "thorough"
    chk.cov["checker_cmd"] = "tlc MC_Refine; tlc Trace_C07 (TRACE=out/C07/trace.ndjson)"
    chk.cov["trusted_base"] = ["TLC", "for alpha != 0 the damped importance ((r-1)/ln r)^alpha is evaluated by the driver in long double "
                               "(shareDev clause only)", "floor(x*2^16) projection"]
    chk.cov["rule"] = ("GridCase: grids over k/8 with 2..4 bins x data {0..3}^B, alpha=0, share law checked exactly by the spec; RefStep: chains of "
                       "successive refinements (bins 2..128, alpha 0..3, data families: none, single bin, random, 2^+-100 spans, tiny/huge scale, peak) "
                       "and the refinements inside real VEGAS runs; Default: default grids for 2..200 bins; Icdf: dyadic grids x canonical numbers "
                       "incl. 0, k/B, largest below 1, exactly 1; Point: sampled points of real runs. non-trivial = not the uniform grid with uniform data")
    chk.model("MC_Refine", workers=8, what="MC_Refine: GridRefineOK(Walk), ObservedRefineOK accepts floor(Walk), Icdf laws, WeightsOK")
    exe = vt.build(*BUILDS[0][0])
    trace = replay or chk.path("trace.ndjson")
    if not replay:
        vt.run([exe, trace, str(chk.seed), "1" if thorough else "0"], timeout=900)
    rows = vt.read_ndjson(trace)
    for e in rows:
        if e["e"] == "GridCase" and (len(set(e["data"])) > 1 or e["gx"] != sorted(set(e["gx"]))):
            chk.nontrivial(("g", e["T"], tuple(e["gx"]), tuple(e["data"])))
        elif e["e"] == "RefStep":
            chk.nontrivial(("s", e["chain"], e["k"], e["dim"]))
    chk.cov["evaluations"] = len(rows)
    chk.sample_each(rows, ACTIONS)
    # F13 (known finding): refinement steps on grids in the subnormal range whose result is not non-decreasing / does not start at zero
    f13 = [e for e in rows if e["e"] == "RefStep" and e.get("tiny") == 1 and (e["mono"] != 1 or e["first0"] != 1)]
    chk.cov["subnormal_grid_steps_not_monotone"] = len(f13)
    if f13:
        chk.violation("C07:subnormal-grid", trace, "a %s grid with boundaries in the subnormal range came out of vegas_refine_pdf not non-decreasing (or below zero): %d steps, first %s"
                      % (f13[0]["T"], len(f13), str({k: f13[0][k] for k in ("src", "chain", "k", "B", "alpha100")})))
    ok, matched, res = chk.validate("Trace_C07", trace, need_actions=ACTIONS)
    if not ok:
        bad = rows[matched] if matched < len(rows) else None
        chk.violation("C07:grid", trace, "event %d rejected by Trace_C07: %s" % (matched + 1, str(bad)[:700]))
    if thorough and ok and not replay:
        import copy
        bad = copy.deepcopy(rows)
        i = next(k for k, e in enumerate(bad) if e["e"] == "GridCase" and e["B"] == 3 and sum(e["imp"]) == 3)
        bad[i]["new"][1] += 700
        p = chk.path("selftest.ndjson")
        vt.write_ndjson(p, bad)
        r2 = vt.tlc("Trace_C07", env={"TRACE": p}, workers=1, tag="C07")
        if r2.rc == 0:
            raise vt.MachineryError("binding self-test: corrupted trace accepted")
        chk.cov["binding_selftest"] = "new boundary shifted by 1%% at event %d: rejected (matched %s)" % (i + 1, r2.matched)


def run(chk, replay=None):
    # the grid under MPI (mpi_vegas refines a grid of its own after every iteration): every rank's next grid is the refinement of the reduced result
    if mpicommon.is_mpi_replay(replay):
        mpicommon.mpi_leg(chk, "C07:mpi", replay=replay)
        return
    run_main(chk, replay=replay)
    if not replay and not chk.violations:
        mpicommon.legs(chk, "C07:mpi", big=False)


def replay(chk, path):
    run(chk, replay=path)
