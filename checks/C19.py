"""C19 - each iteration samples with the state derived from the previous one.
Spec: Session.tla (StateAfter / NextState threading), MC_Session, Trace_Session (recorded = state of `done`, usedOk, chkstate = derived)."""
import vt
import mpicommon
from sessioncommon import run_session, histories, BUILDS, ACTIONS  # noqa: F401

LEVEL = "model_checking"


def run_main(chk, replay=None):
    chk.cov["checker_cmd"] = "tlc MC_Session; tlc Trace_Session (TRACE=out/C19/trace.ndjson)"
    chk.cov["trusted_base"] = ["TLC", "the integrand reconstructs the sampling state from what it sees: bins / point / weight against the grid (VEGAS), "
                               "weight = 1 / sum alpha_j p_j against the weights (multi-channel), 8-16 eps",
                               "derived state = the library's own vegas_refine_pdf / multi_channel_refine_weights applied by the driver to the recorded result"]
    chk.cov["rule"] = ("one case per iteration of every history of the C03 and C15 families (uninterrupted, resumed through memory / text / file, rolled back "
                       "and continued): VEGAS default (alpha 1.5), user grid (alpha 0.8), alpha 0 with an integrand vanishing on half of the domain; "
                       "multi-channel default (min 0.02, beta 1/4), unnormalised user weights with a disabled channel (min 0.05, beta 1/2), clamped user "
                       "weights (min 0.1); non-trivial = iteration of an adaptive integrator after the first")
    rows, ok = run_session(chk, 3, "C19:threading", "state threading", ACTIONS, replay=replay)
    n = 0
    for r in rows:
        if r["e"] == "Iter":
            n += 1
            if r["recorded"] != 0 and r["n"] > 1:
                chk.nontrivial((r["text"], r["recorded"], r["derived"]))
    chk.cov["evaluations"] = n
    chk.sample_each(rows, ("Cfg", "New", "Begin", "Iter"))
    if chk.tier == "thorough" and ok and not replay:
        import copy
        bad = copy.deepcopy(rows)
        i = next(k for k, e in enumerate(bad) if e["e"] == "Iter" and e["recorded"] != 0 and e["n"] == 3)
        bad[i]["recorded"] += 100000
        p = chk.path("selftest.ndjson")
        vt.write_ndjson(p, bad)
        r2 = vt.tlc("Trace_Session", env={"TRACE": p}, workers=1, tag="C19")
        if r2.rc == 0:
            raise vt.MachineryError("binding self-test: corrupted trace accepted")
        chk.cov["binding_selftest"] = "recorded-state id changed at event %d: rejected (matched %s)" % (i + 1, r2.matched)


def run(chk, replay=None):
    if mpicommon.is_mpi_replay(replay):
        mpicommon.mpi_leg(chk, "C19:mpi", replay=replay)
        return
    run_main(chk, replay=replay)
    if not replay and not chk.violations:
        mpicommon.legs(chk, "C19:mpi", big=False)


def replay(chk, path):
    run(chk, replay=path)
