"""C14 - long sums do not lose accuracy with the number of calls.
Spec: Kahan.tla (toy binary floating point with a P-bit significand, KahanStep as coded, WithinBound), MC_Kahan (TLC: bound holds for the compensated
sum on all sequences <= 9 over an 8-value alphabet for P = 3, 4, 5 and on long large-then-small sequences; violated by the naive and the 'skip'
variants), Trace_C14."""
import vt
import mpicommon

LEVEL = "model_checking"
BUILDS = [(("drv_c14", ["drv_c14.cpp"]), {"flags": ["-O2"]})]


def run_main(chk, replay=None):
    thorough = chk.tier == "thorough"
    chk.cov["checker_cmd"] = "tlc MC_Kahan (p3, p4, p5, long: hold; naive, skip: violated); tlc Trace_C14 (TRACE=out/C14/trace.ndjson)"
    chk.cov["trusted_base"] = ["TLC", "minifloat<P> implements the arithmetic of Kahan.tla (integers, P-bit significand, round to nearest even)",
                               "for float / double / long double the exact sum (128-bit integer arithmetic on values k * 2^-20) and the error in ulps of the "
                               "sum of magnitudes are computed by the driver; the specification supplies the acceptance criterion (<= 4 ulp for every N)"]
    chk.cov["rule"] = ("Toy: hep::accumulate<minifloat<P>> - the library's own template - on all sequences of length <= 4 (5) over {+-1, 3, -5, 16, 48, -80, 256} "
                       "for P = 3, 4, 5 and on adversarial long sequences (one large then up to 3000 (10^5) small, mixed signs, alternating, geometric decay, "
                       "random magnitudes) for P = 16; SumCheck: hep::plain with N in {1, 10^3, 10^5 (3x10^6, 10^7)} on five adversarial families for float / "
                       "double / long double incl. two distributions with two bins each; non-trivial = sequence longer than 2 or N >= 1000")
    for cfg in ["p3", "p4", "p5", "long"] if thorough else ["p4", "long"]:
        chk.model("MC_Kahan", "MC_Kahan_" + cfg, workers=12, heap="8g", what="MC_Kahan %s: ErrBound holds for the compensated sum" % cfg)
    chk.model("MC_Kahan", "MC_Kahan_naive", workers=4, what="MC_Kahan naive summation violates the bound", expect_violation="ErrBound")
    chk.model("MC_Kahan", "MC_Kahan_skip", workers=4, what="MC_Kahan 'skip when the sum does not change' violates the bound", expect_violation="ErrBound")
    exe = vt.build(*BUILDS[0][0], **BUILDS[0][1])
    trace = replay or chk.path("trace.ndjson")
    if not replay:
        vt.run([exe, trace, str(chk.seed), "1" if thorough else "0"], timeout=1800)
    rows = vt.read_ndjson(trace)
    chk.cov["evaluations"] = len(rows)
    for e in rows:
        if e["e"] == "Toy" and sum(e["rle"][1::2]) > 2:
            chk.nontrivial((e["P"], tuple(e["rle"])))
        elif e["e"] == "SumCheck" and e["N"] >= 1000:
            chk.nontrivial((e["T"], e["family"], e["N"]))
    chk.sample(next(r for r in rows if r["e"] == "Toy" and r["family"] != "exhaustive"))
    chk.sample_each(rows, ("SumCheck",))
    chk.cov["max_err_ulps"] = max([e["errUlps"] for e in rows if e["e"] == "SumCheck"] + [0])
    ok, matched, res = chk.validate("Trace_C14", trace, need_actions=("Toy", "SumCheck"), timeout=900)
    if not ok:
        bad = rows[matched] if matched < len(rows) else None
        chk.violation("C14:sum", trace, "event %d rejected by Trace_C14: %s" % (matched + 1, str(bad)[:500]))
    if thorough and ok and not replay:
        import copy
        bad = copy.deepcopy(rows)
        i = next(k for k, e in enumerate(bad) if e["e"] == "Toy" and e["family"] == "large-then-small")
        bad[i]["sum"] = bad[i]["rle"][0]  # the result naive summation would give: the small terms are lost
        p = chk.path("selftest.ndjson")
        vt.write_ndjson(p, bad)
        r2 = vt.tlc("Trace_C14", env={"TRACE": p}, workers=1, tag="C14")
        if r2.rc == 0:
            raise vt.MachineryError("binding self-test: corrupted trace accepted")
        chk.cov["binding_selftest"] = "toy result replaced by the naive one at event %d: rejected (matched %s)" % (i + 1, r2.matched)


def run(chk, replay=None):
    if mpicommon.is_mpi_replay(replay):
        mpicommon.mpi_leg(chk, "C14:mpi", replay=replay)
        return
    run_main(chk, replay=replay)
    if not replay and not chk.violations:
        mpicommon.legs(chk, "C14:mpi", big=False)


def replay(chk, path):
    run(chk, replay=path)
