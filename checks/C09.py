"""C09 - channel selection follows the weights exactly and never picks a disabled channel.
Spec: Select.tla (Admissible / Owner / CountOK; PickUpper = as coded), MC_Select (TLC theorems incl.
probability = weight on the full lattice), Trace_C09 (every selection the real code made)."""
import os
import vt

LEVEL = "model_checking"
BUILDS = [(("drv_c09", ["drv_c09.cpp"]), {})]


def run(chk, replay=None):
    thorough = chk.tier == "thorough"
    chk.cov["checker_cmd"] = "tlc MC_Select; apalache-mc check --length=0 --inv=OwnerInv Select_apa.tla; tlc Trace_C09 (TRACE=out/C09/trace.ndjson)"
    chk.cov["trusted_base"] = ["TLC", "Apalache 0.58 + Z3 (ownership laws for unbounded weights)", "script_engine turns j into the canonical number j/2^24 exactly (libstdc++ generate_canonical)"]
    chk.cov["rule"] = ("one case per (path, numeric type, scaling, weight vector) with ~30 canonical numbers each: 0, 1-2^-24, every "
                       "cumulative boundary and its lattice neighbours, coarse and random lattice points; non-trivial = weight vector "
                       "with at least one zero entry or a non-dyadic sum")
    chk.model("MC_Select", "MC_Select" if thorough else "MC_Select_quick", workers=8, heap="8g",
              what="MC_Select: owner unique/enabled, P(i)=w_i, as-coded pick is the owner, lower_bound counterexample")
    # the ownership laws for five channels with any natural weights and any position (Apalache / Z3); lower_bound rejected
    import apacommon
    done = apacommon.discharge(chk, "Select_apa", [
        (["--length=0", "--inv=OwnerInv"], "ok", "exactly one owner, enabled, found by upper_bound - for unbounded weights and positions"),
        (["--length=0", "--inv=LowerInv"], "error", "lower_bound selects a disabled channel")])
    chk.cov["obligations"] = len(done)
    chk.cov["discharged"] = len(done)
    exe = vt.build(*BUILDS[0][0])
    trace = replay or chk.path("trace.ndjson")
    if not replay:
        vt.run([exe, trace, "4", str(chk.seed), "1" if thorough else "0"], timeout=600)
    rows = vt.read_ndjson(trace)
    npicks = 0
    for e in rows:
        if e["e"] == "PickAny":
            npicks += e["n"]
            if 0 in e["wz"]:
                chk.nontrivial(("any", e["T"], tuple(e["wz"]), tuple(e["idx"][:6])))
            continue
        if e["e"] == "McNorm":
            npicks += 600
            chk.nontrivial(("norm", e["T"], e["run"]))
            continue
        if e["e"] == "PickTop":
            npicks += 5
            chk.nontrivial(("top", e["T"], e["lead"], e["trail"]))
            continue
        w = e["w"]
        npicks += len(e.get("js", [])) if e["e"] != "Count" else e["D"]
        S = sum(w)
        if 0 in w or (S & (S - 1)) != 0:
            chk.nontrivial((e["e"], e.get("T"), e.get("scale"), tuple(w)))
    chk.cov["evaluations"] = len(rows)
    chk.cov["selections_checked"] = npicks
    for e in rows[:1] + [r for r in rows if r["e"] == "McPick" and 0 in r["w"]][:1] + [r for r in rows if r["e"] == "Count"][:1]:
        chk.sample(e)
    ok, matched, res = chk.validate("Trace_C09", trace, need_actions=("Pick", "McPick", "Count", "PickAny", "PickWide", "PickTop", "McNorm"))
    if not ok:
        bad = rows[matched] if matched < len(rows) else None
        chk.violation("C09:pick", trace, "event %d not admissible under Select.tla: %s" % (matched + 1, str(bad)[:600]))
    if thorough and ok and not replay:
        import copy
        bad = copy.deepcopy(rows)
        i = next(k for k, e in enumerate(bad) if e["e"] == "Pick" and len(e["w"]) == 3 and e["w"][0] == 0)
        bad[i]["idx"][0] = 0
        p = chk.path("selftest.ndjson")
        vt.write_ndjson(p, bad)
        r2 = vt.tlc("Trace_C09", env={"TRACE": p}, workers=1, tag="C09")
        if r2.rc == 0:
            raise vt.MachineryError("binding self-test: corrupted trace accepted")
        chk.cov["binding_selftest"] = "disabled channel injected at event %d: rejected (matched %s)" % (i + 1, r2.matched)


def replay(chk, path):
    run(chk, replay=path)
