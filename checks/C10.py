"""C10 - every call consumes a fixed, predictable amount of generator output.
Spec: Call.tla (Draw / PerCall / Usage / ResultOK.pos), MC_Call (FixedConsumption), Trace_Call."""
import concurrent.futures
import vt
import mpicommon
from callcommon import run_call_check

LEVEL = "model_checking"
TYPES = [("f", "float"), ("d", "double"), ("l", "long double")]
BUILDS = [(("drv_c10_" + s, ["drv_c10.cpp"]), {"flags": ["-O0", "-DVT_TYPE=" + t]}) for s, t in TYPES]


def run_main(chk, replay=None):
    thorough = chk.tier == "thorough"
    chk.cov["checker_cmd"] = "tlc MC_Call; tlc Trace_Call (TRACE=out/C10/trace.ndjson)"
    chk.cov["trusted_base"] = ["TLC", "counting<E> wrapper counts raw engine outputs", "libstdc++ generate_canonical (the check notices, not predicts, a different library)"]
    chk.cov["rule"] = ("one case per iteration: {minstd_rand0, minstd_rand, mt19937, mt19937_64, ranlux24/48(_base), knuth_b, synthetic ranges 3, 5, 255, 1000, "
                       "1e8, 65537, 2^17, 2^31-2, 2^48} x {float, double, long double} x {PLAIN d=1..2(4), VEGAS, multi-channel with disabled channels}, "
                       "calls {0,1,5,16}, integrands returning zero / finite / NaN / +-inf, with and without weight requests and distributions; "
                       "non-trivial = iteration with calls >= 1 on an engine needing k >= 2 raw outputs per number or a non-power-of-two range")
    with concurrent.futures.ThreadPoolExecutor(max_workers=3) as ex:
        exes = list(ex.map(lambda b: vt.build(*b[0], **b[1]), BUILDS))

    def args(trace):
        # three type-specific drivers write their own files; concatenated into one trace
        parts = []
        for i, exe in enumerate(exes):
            p = trace + ".%d" % i
            vt.run([exe, p, str(chk.seed + i), "1" if thorough else "0"], timeout=600)
            parts.append(p)
        with open(trace, "w") as out:
            for p in parts:
                out.write(open(p).read())
        return ["true"]
    rows, its, ok = run_call_check(chk, args, "C10:consumption", "generator consumption", replay=replay)
    eng = None
    for e in rows:
        if e["e"] == "Engine":
            eng = e
        elif e["e"] == "IterBegin" and eng and e["calls"] >= 1 and (e["k"] >= 2 or "range" in eng["name"]):
            chk.nontrivial((eng["name"], eng["T"], e["kind"], e["d"], e["calls"]))
    if not replay:
        probe(chk, exes)
    chk.sample_each(rows, ("Engine", "IterBegin", "Draw", "IterEnd"))
    chk.cov["usage_table"] = sorted(set((e["name"], e["T"], e["digits"], e["lg"]) for e in rows if e["e"] == "Engine"))[:60]
    if thorough and ok and not replay:
        import copy
        bad = copy.deepcopy(rows)
        i = next(k for k, e in enumerate(bad) if e["e"] == "Draw" and e["n"] >= 4)
        bad[i]["n"] -= 1
        p = chk.path("selftest.ndjson")
        vt.write_ndjson(p, bad)
        r2 = vt.tlc("Trace_Call", env={"TRACE": p}, workers=1, tag="C10")
        if r2.rc == 0:
            raise vt.MachineryError("binding self-test: corrupted trace accepted")
        chk.cov["binding_selftest"] = "one raw draw removed at event %d: rejected (matched %s)" % (i + 1, r2.matched)


def probe(chk, exes):
    """engine adaptors of the standard library (std::independent_bits_engine over 7, 24 and 53 bits), every engine x numeric type in a trace of
    its own: a rejection that is exactly a listed finding (known_findings.json: the predictor against libstdc++'s generate_canonical for 2^53 and
    2^7 values in double) is reported as such, anything else as a violation"""
    import os
    done = []
    for i, exe in enumerate(exes):
        p = chk.path("probe.%d.ndjson" % i)
        vt.run([exe, p, str(chk.seed + i), "2"], timeout=600)
        rows = vt.read_ndjson(p)
        os.remove(p)
        parts, cur = [], None
        for r in rows:
            if r["e"] == "Engine":
                cur = [r]
                parts.append(cur)
            elif cur is not None:
                cur.append(r)
        for part in parts:
            name, T = part[0]["name"], part[0]["T"]
            tp = chk.path("probe_%s_%s.ndjson" % (name, T.replace(" ", "_")))
            vt.write_ndjson(tp, part[1:])
            ok = probe_one(chk, name, T, tp)
            done.append((name, T, bool(ok)))
            if ok:
                os.remove(tp)
    chk.cov["probe_engines"] = done


def probe_one(chk, name, T, tp):
    rows = vt.read_ndjson(tp)
    ok, matched, res = chk.validate("Trace_Call", tp, need_actions=("TIterBegin", "TIterEnd"), timeout=300, what="probe trace: %s, %s" % (name, T))
    if ok:
        return True
    bad = rows[matched] if matched < len(rows) else {}
    k = next((r["k"] for r in rows[:matched][::-1] if r["e"] == "IterBegin"), None)
    if bad.get("e") == "IterEnd" and bad.get("predK") != k:
        # the predictor disagrees with what generate_canonical consumes for this engine: a finding of its own per (engine, type, predicted, consumed)
        chk.violation("C10:predictor:%s:%s:%s-vs-%s" % (name, T, bad.get("predK"), k), tp,
                      "random_number_usage<%s, %s> reports %s raw outputs per number, generate_canonical consumes %s" % (T, name, bad.get("predK"), k))
    else:
        chk.violation("C10:consumption", tp, "probe %s / %s: event %d is not a step of Call.tla: %s" % (name, T, matched + 1, str(bad)[:400]))
    return False


def run(chk, replay=None):
    import os
    if replay and os.path.basename(replay).startswith("probe_"):
        stem = os.path.basename(replay)[len("probe_"):-len(".ndjson")]
        name, T = stem.rsplit("_", 1)
        probe_one(chk, name, T, replay)
        return
    if mpicommon.is_mpi_replay(replay):
        mpicommon.mpi_leg(chk, "C10:mpi", replay=replay)
        return
    run_main(chk, replay=replay)
    if not replay and not chk.violations:
        mpicommon.legs(chk, "C10:mpi")


def replay(chk, path):
    run(chk, replay=path)
