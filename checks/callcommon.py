"""Shared by C02 / C10 / C17: run a driver that records Call.tla events and validate with Trace_Call."""
import vt

ACTIONS_ALL = ("TIterBegin", "TDraw", "TMapCoord", "TMapCoordDone", "TIntBegin", "TWeightReq", "TMapDens", "TIntEnd", "TIterEnd")


def iterations(rows):
    """split the trace into iterations; return list of dicts with summary facts"""
    its, cur = [], None
    for e in rows:
        if e["e"] == "IterBegin":
            cur = {"begin": e, "exact": True, "calls": 0, "tags": set(), "dens": 0, "wreq": 0, "zero": 0}
            its.append(cur)
        elif cur is not None:
            if e["e"] == "IntEnd":
                cur["calls"] += 1
                cur["tags"].add(e["vt"])
                if e["wt"] == "unk" and not (e["vt"] == "fin" and e["v"] == 0):
                    cur["exact"] = False
                if e["vt"] == "fin" and e["v"] == 0:
                    cur["zero"] += 1
            elif e["e"] == "MapDens":
                cur["dens"] += 1
            elif e["e"] == "WeightReq":
                cur["wreq"] += 1
            elif e["e"] == "IterEnd":
                cur["end"] = e
    return its


def run_call_check(chk, exe_args, key, what, need=ACTIONS_ALL, replay=None, mc_thorough=False):
    chk.model("MC_Call", "MC_Call_thorough" if mc_thorough else "MC_Call", workers=8,
              what="MC_Call: protocol, fixed consumption, accumulator and non-finite-is-zero invariants over all small iterations")
    trace = replay or chk.path("trace.ndjson")
    if not replay:
        vt.run(exe_args(trace), timeout=900)
    rows = vt.read_ndjson(trace)
    its = iterations(rows)
    chk.cov["evaluations"] = len(its)
    chk.cov["events"] = len(rows)
    chk.cov["iterations_exact"] = sum(1 for i in its if i["exact"])
    ok, matched, res = chk.validate("Trace_Call", trace, need_actions=need, timeout=900)
    if not ok:
        bad = rows[matched] if matched < len(rows) else None
        ctx = [r for r in rows[max(0, matched - 400):matched] if r["e"] == "IterBegin"][-1:]
        chk.violation(key, trace, "%s: event %d is not a step of Call.tla: %s (iteration %s)" % (what, matched + 1, str(bad)[:500], str(ctx)[:300]))
    return rows, its, ok
