"""C17 - the integrand and the channel map are called under the documented protocol.
Spec: Call.tla (phase machine: Draw -> [MapCoord -> MapCoordDone] -> IntBegin -> [WeightReq] [MapDens] -> IntEnd [MapDens]), MC_Call, Trace_Call."""
import vt
from callcommon import run_call_check

LEVEL = "model_checking"
BUILDS = [(("drv_c17", ["drv_c17.cpp"]), {})]


def run(chk, replay=None):
    thorough = chk.tier == "thorough"
    chk.cov["checker_cmd"] = "tlc MC_Call; tlc Trace_Call (TRACE=out/C17/trace.ndjson)"
    chk.cov["trusted_base"] = ["TLC", "instrumented map / integrand functors (buffer addresses and hexfloat checksums interned to ids)"]
    chk.cov["rule"] = ("one case per iteration of PLAIN (d=1,2), VEGAS (4 bins, d=1,2, user grid then adapted grids) and multi-channel (weights with disabled "
                       "channels at the front / middle / end, single channel) runs under a scripted engine that produces 0, the largest value below 1, bin "
                       "boundaries and neighbours; integrand returns zero / non-zero / non-finite and asks for the weight on a third of the calls; with and "
                       "without distributions; non-trivial = multi-channel iteration containing both a zero-valued call without weight request and a call "
                       "that needed densities")
    exe = vt.build(*BUILDS[0][0])
    rows, its, ok = run_call_check(chk, lambda t: [exe, t, str(chk.seed), "1" if thorough else "0"], "C17:protocol", "call protocol", replay=replay,
                                   mc_thorough=thorough)
    for k, i in enumerate(its):
        if i["begin"]["kind"] == "mc" and i["dens"] > 0 and i["zero"] > 0 and i["dens"] < i["calls"]:
            chk.nontrivial(k)
        elif i["begin"]["kind"] != "mc" and i["calls"] >= 8:
            chk.nontrivial(k)
    chk.sample_each(rows, ("MapCoord", "MapCoordDone", "IntBegin", "MapDens", "IntEnd"))
    if thorough and ok and not replay:
        # binding self-test: drop one MapCoord event -> rejected; make one MapDens appear for a zero call -> rejected
        bad = list(rows)
        i = next(k for k, e in enumerate(bad) if e["e"] == "MapCoord")
        del bad[i]
        p = chk.path("selftest.ndjson")
        vt.write_ndjson(p, bad)
        r2 = vt.tlc("Trace_Call", env={"TRACE": p}, workers=1, tag="C17")
        if r2.rc == 0:
            raise vt.MachineryError("binding self-test: trace without a MapCoord event accepted")
        chk.cov["binding_selftest"] = "MapCoord event %d removed: rejected (matched %s)" % (i + 1, r2.matched)


def replay(chk, path):
    run(chk, replay=path)
