"""C02 - each iteration result is the documented estimator of exactly the sampled values.
Spec: Call.tla (Accumulated / ResultOK), MC_Call, Trace_Call."""
import vt
import mpicommon
from callcommon import run_call_check

LEVEL = "model_checking"
BUILDS = [(("drv_c02", ["drv_c02.cpp"]), {})]


def run_main(chk, replay=None):
    thorough = chk.tier == "thorough"
    chk.cov["checker_cmd"] = "tlc MC_Call; tlc Trace_Call (TRACE=out/C02/trace.ndjson)"
    chk.cov["trusted_base"] = ["TLC", "script_engine", "integrand values are small integers and weights small dyadic numbers, so sums are exact in float "
                               "under any summation order", "derived value/variance/error compared in long double by the driver (8 eps, conditioning-scaled)"]
    chk.cov["rule"] = ("one case per iteration: PLAIN d=1..3, VEGAS with dyadic user grids (2 and 4 bins, d=1,2) incl. later adapted iterations, "
                       "multi-channel with three weight/density families incl. disabled channels; N in {0,1,2,3,7,64(,255)}; integrands with zero / "
                       "finite(+-) / NaN / +-inf pattern from VERIF_SEED; with and without distributions; non-trivial = iteration with N>=1 whose "
                       "sums were recomputed exactly by the spec")
    exe = vt.build(*BUILDS[0][0])
    rows, its, ok = run_call_check(chk, lambda t: [exe, t, str(chk.seed), "1" if thorough else "0"], "C02:estimator", "estimator", replay=replay,
                                   mc_thorough=thorough)
    for k, i in enumerate(its):
        if i["exact"] and i["calls"] >= 1:
            chk.nontrivial(k)
    chk.sample_each(rows, ("IterBegin", "IntEnd", "IterEnd"))
    if ok and chk.cov["iterations_exact"] < len(its) // 2:
        raise vt.MachineryError("too few iterations were recomputed exactly (%d of %d)" % (chk.cov["iterations_exact"], len(its)))
    if thorough and ok and not replay:
        import copy
        bad = copy.deepcopy(rows)
        i = next(k for k, e in enumerate(bad) if e["e"] == "IterEnd" and e["calls"] == 64 and e["sumExact"] == 1)
        bad[i]["sumsq"] += 1
        p = chk.path("selftest.ndjson")
        vt.write_ndjson(p, bad)
        r2 = vt.tlc("Trace_Call", env={"TRACE": p}, workers=1, tag="C02")
        if r2.rc == 0:
            raise vt.MachineryError("binding self-test: corrupted trace accepted")
        chk.cov["binding_selftest"] = "sumsq off by one unit at event %d: rejected (matched %s)" % (i + 1, r2.matched)


def run(chk, replay=None):
    if mpicommon.is_mpi_replay(replay):
        mpicommon.mpi_leg(chk, "C02:mpi", replay=replay)
        return
    run_main(chk, replay=replay)
    if not replay and not chk.violations:
        mpicommon.legs(chk, "C02:mpi", big=True)


def replay(chk, path):
    run(chk, replay=path)
