"""C16 - the MPI work split tiles the calls exactly.
Spec: Split.tla (property-level ShareOK + design-level transcription), MC_Split (TLC, exhaustive small),
Split_apa (Apalache, unbounded integers), Trace_C16 (trace validation of what the real integrators and
helper functions did)."""
import os
import re
import vt

LEVEL = "model_checking"


def apalache(chk):
    out = os.path.join(vt.CACHE, "apa-%d" % os.getpid())
    r = vt.run(["apalache-mc", "check", "--length=0", "--inv=TilesInv", "--out-dir=" + out,
                os.path.join(vt.SPEC, "Split_apa.tla")], timeout=600, ok_codes=None)
    import shutil
    shutil.rmtree(out, ignore_errors=True)
    ok = "Checker reports no error" in r.stdout and r.returncode == 0
    if not ok:
        raise vt.MachineryError("Apalache did not discharge Split_apa!TilesInv:\n" + r.stdout[-2000:])
    chk.cov["obligations"] = 1
    chk.cov["discharged"] = 1
    chk.cov["apalache"] = "TilesInv over unbounded t, w, r (length 0): no error"


def run(chk, replay=None):
    thorough = chk.tier == "thorough"
    chk.cov["checker_cmd"] = "tlc MC_Split; apalache-mc check --length=0 --inv=TilesInv Split_apa.tla; tlc Trace_C16 (TRACE=out/C16/trace.ndjson)"
    chk.cov["trusted_base"] = ["TLC", "Apalache 0.58 + Z3 (unbounded clause)", "MPI shim (threads as ranks)",
                               "counter_engine reveals stream positions"]
    chk.cov["rule"] = ("one case per (source, total, world); sources: mpi_plain / mpi_vegas / mpi_multi_channel under the shim "
                       "(exhaustive small table) and discard_before/discard_after on sampled totals up to 2^40; "
                       "non-trivial = total not divisible by world or total < world")
    chk.model("MC_Split", what="MC_Split: Tiles(t,w) for t<=200, w<=40")
    apalache(chk)
    exe = vt.build(*BUILDS[0][0], **BUILDS[0][1])
    trace = replay or chk.path("trace.ndjson")
    if not replay:
        tmax, wmax, nbig = (64, 33, 400) if thorough else (40, 17, 120)
        vt.run([exe, trace, str(tmax), str(wmax), str(chk.seed), str(nbig)] + (["big"] if thorough else []), timeout=1800)
    rows = vt.read_ndjson(trace)
    cases = set()
    for e in rows:
        t = e["t"] if e["e"] == "Share" else e["t"][0] * 1048576 + e["t"][1]
        key = (e.get("src", "wide"), t, e["w"])
        cases.add(key)
        if t % e["w"] != 0 or t < e["w"]:
            chk.nontrivial(key)
    chk.cov["evaluations"] = len(cases)
    chk.cov["events"] = len(rows)
    for e in rows[:2] + [r for r in rows if r["e"] == "Wide"][:2]:
        chk.sample(e)
    ok, matched, res = chk.validate("Trace_C16", trace, need_actions=("Share", "Wide"))
    if not ok:
        bad = rows[matched] if matched < len(rows) else None
        chk.violation("C16:share", trace, "event %d is not a step of the tiling machine: %s" % (matched + 1, bad))
    if thorough and not replay and ok:
        selftest(chk, rows)


def selftest(chk, rows):
    """binding self-test: corrupt one logged field and confirm the trace is rejected"""
    import copy
    bad = copy.deepcopy(rows)
    idx = next(i for i, e in enumerate(bad) if e["e"] == "Share" and e["w"] > 2 and e["r"] == 1 and e["sub"] > 0)
    bad[idx]["sub"] += 1
    p = chk.path("selftest.ndjson")
    vt.write_ndjson(p, bad)
    res = vt.tlc("Trace_C16", env={"TRACE": p}, workers=1, tag="C16")
    if res.rc == 0:
        raise vt.MachineryError("binding self-test: corrupted trace was accepted")
    chk.cov["binding_selftest"] = "corrupted sub at event %d rejected (matched prefix %s)" % (idx + 1, res.matched)


def replay(chk, path):
    run(chk, replay=path)
BUILDS = [(("drv_c16", ["drv_c16.cpp"]), {"flags": ["-O2", "-I" + os.path.join(vt.HARNESS, "mpishim")]})]
