"""Shared by C03 / C15 / C19: run the session driver for the three numeric types and validate with Trace_Session."""
import concurrent.futures
import os
import shutil
import vt

TYPES = [("f", "float"), ("d", "double"), ("l", "long double")]
BUILDS = [(("drv_session_" + s, ["drv_session.cpp"]), {"flags": ["-O0", "-DVT_TYPE=" + t]}) for s, t in TYPES]
ACTIONS = ("TCfg", "TNew", "TBegin", "TIter", "TEnd", "TReload", "TRollback", "TFinal")


def run_session(chk, mode_mask, key, what, need, replay=None, big=False):
    thorough = chk.tier == "thorough"
    chk.model("MC_Session", ("MC_Session_big" if big else "MC_Session_thorough") if thorough else "MC_Session", workers=12, heap="12g", timeout=1800,
              what="MC_Session: all histories of iterate/begin/return/save+load/rollback: ChkIsUninterrupted, GensInvariant, ModeNonInterference, callback protocol")
    with concurrent.futures.ThreadPoolExecutor(max_workers=3) as ex:
        exes = list(ex.map(lambda b: vt.build(*b[0], **b[1]), BUILDS))
    trace = replay or chk.path("trace.ndjson")
    if not replay:
        scratch = chk.path("scratch")
        os.makedirs(scratch, exist_ok=True)
        parts = []
        for i, exe in enumerate(exes):
            p = trace + ".%d" % i
            vt.run([exe, p, str(chk.seed + i), "1" if thorough else "0", scratch, str(mode_mask)], timeout=900)
            parts.append(p)
        with open(trace, "w") as out:
            for p in parts:
                out.write(open(p).read())
                os.remove(p)
        shutil.rmtree(scratch, ignore_errors=True)
    rows = vt.read_ndjson(trace)
    ok, matched, res = chk.validate("Trace_Session", trace, need_actions=need, timeout=900)
    if not ok:
        bad = rows[matched] if matched < len(rows) else None
        cfg = [r for r in rows[:matched] if r["e"] == "Cfg"][-1:]
        hist = []
        for r in rows[:matched][::-1]:
            hist.append(r)
            if r["e"] == "New":
                break
        chk.violation(key, trace, "%s: event %d rejected by Trace_Session: %s ; configuration %s ; history so far %s" % (
            what, matched + 1, str(bad)[:300], str(cfg)[:400], str([(h["e"], h.get("calls", h.get("k", h.get("via", "")))) for h in hist[::-1]])[:500]))
    return rows, ok


def histories(rows):
    """list of (cfg, [ops]) for evidence"""
    out, cfg, cur = [], None, None
    for r in rows:
        if r["e"] == "Cfg":
            cfg = r
        elif r["e"] == "New":
            cur = []
            out.append((cfg, cur))
        elif cur is not None:
            cur.append(r)
    return out
