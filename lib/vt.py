"""Shared machinery of the hep-mc verification framework (see DESIGN.md section 3.2).

Everything a check does goes through this module:
  * build()       compiles a C++ driver against /repo/include of the *current working tree*
                  (content-hash keyed cache in /verif/.cache/bin)
  * tlc()         runs TLC on a module/config of /verif/spec in a private scratch directory
  * validate()    trace validation: TLC checks an NDJSON trace recorded from the real code against
                  a Trace_* specification and tells how long the accepted prefix is
  * Check         bookkeeping: evidence file, VIOLATION / KNOWN-FINDING lines, exit code

Exit codes of a check: 0 held, 1 VIOLATION, 2 the machinery itself failed (never reported as a
property violation).
"""
import glob
import hashlib
import json
import os
import re
import shutil
import subprocess
import sys
import time

ROOT = os.path.dirname(os.path.dirname(os.path.abspath(__file__)))
REPO = os.environ.get("VERIF_REPO", "/repo")
INC = os.path.join(REPO, "include")
SPEC = os.path.join(ROOT, "spec")
HARNESS = os.path.join(ROOT, "harness")
CACHE = os.path.join(ROOT, ".cache")
# VERIF_OUT redirects replay artefacts *and* evidence (used when checks run against a mutated scratch copy, so that the
# evidence of the real tree is never overwritten)
OUT = os.path.join(os.environ["VERIF_OUT"], "out") if os.environ.get("VERIF_OUT") else os.path.join(ROOT, "out")
EVID = os.path.join(os.environ["VERIF_OUT"], "evidence") if os.environ.get("VERIF_OUT") else os.path.join(ROOT, "evidence")
TLA_CP = "/opt/veriftools/tla/tla2tools.jar:/opt/veriftools/tla/CommunityModules-deps.jar"
CXX = os.environ.get("VERIF_CXX", "g++")
CXXFLAGS = ["-std=c++11", "-O1", "-g0", "-w", "-pthread"]


class MachineryError(Exception):
    pass


def log(*a):
    print("[vt]", *a, file=sys.stderr, flush=True)


# ------------------------------------------------------------------------------------------------
# building drivers from the current working tree of /repo

def _hash_files(paths, extra=""):
    h = hashlib.sha1()
    for p in sorted(paths):
        h.update(p.encode())
        with open(p, "rb") as f:
            h.update(f.read())
    h.update(extra.encode())
    return h.hexdigest()[:16]


_inc_hash = None


def include_hash():
    global _inc_hash
    if _inc_hash is None:
        files = [p for p in glob.glob(os.path.join(INC, "**", "*"), recursive=True) if os.path.isfile(p)]
        _inc_hash = _hash_files(files)
    return _inc_hash


def build(name, sources, flags=(), libs=(), cxx=None, include_repo=True, timeout=600):
    """Compile harness sources into .cache/bin/<name>-<hash>; rebuild iff /repo/include, the
    harness or the flags changed."""
    srcs = [s if os.path.isabs(s) else os.path.join(HARNESS, s) for s in sources]
    hfiles = [p for p in glob.glob(os.path.join(HARNESS, "**", "*"), recursive=True) if os.path.isfile(p)]
    key = _hash_files(hfiles, extra=(include_hash() if include_repo else "") + repr((flags, libs, cxx, srcs)))
    # runs against a mutated scratch copy keep their binaries with the scratch copy (no interference with the real tree's cache)
    bindir = os.path.join(os.environ["VERIF_OUT"], "bin") if os.environ.get("VERIF_OUT") else os.path.join(CACHE, "bin")
    os.makedirs(bindir, exist_ok=True)
    exe = os.path.join(bindir, "%s-%s" % (name, key))
    if os.path.exists(exe):
        return exe
    for old in glob.glob(os.path.join(bindir, name + "-*")):
        try:
            os.remove(old)
        except OSError:
            pass
    cmd = [cxx or CXX] + (CXXFLAGS if not str(cxx or CXX).endswith("gcc") else ["-O1", "-w"]) + list(flags)
    cmd += ["-I" + HARNESS]
    if include_repo:
        cmd += ["-I" + INC]
    cmd += srcs + ["-o", exe + ".tmp"] + list(libs)
    t0 = time.time()
    r = subprocess.run(cmd, stdout=subprocess.PIPE, stderr=subprocess.STDOUT, text=True, timeout=timeout)
    if r.returncode != 0:
        raise MachineryError("compilation of %s failed:\n%s" % (name, r.stdout[-4000:]))
    os.rename(exe + ".tmp", exe)
    log("built %s in %.1fs" % (name, time.time() - t0))
    return exe


def _limit_memory():
    import resource
    lim = 6 * 1024 * 1024 * 1024
    resource.setrlimit(resource.RLIMIT_AS, (lim, lim))


class DriverTimeout(Exception):
    def __init__(self, timeout, cmd):
        Exception.__init__(self, "no termination within %ss: %s" % (timeout, " ".join(map(str, cmd))[:300]))
        self.trace = next((str(a) for a in cmd[1:] if str(a).endswith(".ndjson")), "-")


def run(cmd, timeout=600, env=None, cwd=None, ok_codes=(0,), stdin=None):
    e = dict(os.environ)
    if env:
        e.update({k: str(v) for k, v in env.items()})
    try:
        # drivers run under an address-space limit: a library that reads garbage sizes must fail fast (bad_alloc ->
        # Abort event), not swallow the machine
        limit = os.sep + "bin" + os.sep + "drv_" in str(cmd[0])
        r = subprocess.run(cmd, stdout=subprocess.PIPE, stderr=subprocess.STDOUT, text=True, timeout=timeout,
                           env=e, cwd=cwd, input=stdin, preexec_fn=_limit_memory if limit else None)
    except subprocess.TimeoutExpired:
        # a driver (the real library under a recording harness) that does not finish: the unchanged tree needs seconds where the limit
        # is minutes, so this is the library not making progress (e.g. ranks waiting for each other, a loop that never ends)
        if os.sep + "bin" + os.sep + "drv_" in str(cmd[0]) or "mpirun" in str(cmd[0]):
            raise DriverTimeout(timeout, cmd)
        raise MachineryError("timeout after %ss: %s" % (timeout, " ".join(map(str, cmd))[:300]))
    if ok_codes is not None and r.returncode not in ok_codes:
        raise MachineryError("command failed (%d): %s\n%s" % (r.returncode, " ".join(map(str, cmd))[:300], r.stdout[-3000:]))
    return r


# ------------------------------------------------------------------------------------------------
# TLC

class TlcResult:
    def __init__(self, rc, out, wall):
        self.rc = rc
        self.out = out
        self.wall = wall
        m = re.findall(r"(\d+) states generated, (\d+) distinct states found", out)
        self.generated = int(m[-1][0]) if m else 0
        self.distinct = int(m[-1][1]) if m else 0
        self.ok = (rc == 0) and ("No error has been found" in out or "Finished computing initial states" in out
                                 or "finished" in out.lower())
        self.invariant = None
        m = re.search(r"Invariant (\S+) is violated", out)
        if m:
            self.invariant = m.group(1)
        self.matched = None
        m = re.findall(r'"VT_MATCHED",\s*(\d+)', out)
        if m:
            self.matched = int(m[-1])
        self.parse_error = ("Parsing or semantic analysis failed" in out) or ("*** Errors:" in out)
        self.coverage = {}
        for name, taken, gen in re.findall(r"<(\w+) line \d+, col \d+ to line \d+, col \d+ of module \w+>: (\d+):(\d+)", out):
            a = self.coverage.setdefault(name, [0, 0])
            a[0] += int(taken)
            a[1] += int(gen)
        self.prints = re.findall(r'^(<<"VT_[A-Z_]+".*>>)\s*$', out, re.M)

    def tail(self, n=40):
        keep = [x for x in self.out.splitlines() if x.strip() and not x.startswith(("Parsing file", "Semantic processing", "Linting of", "State ", "l = "))
                and not x.lstrip()[:1].isdigit()]
        errs = [x for x in keep if x.startswith("Error:")]
        return "\n".join(errs[:6] + ["..."] + keep[-n:] if errs else keep[-n:])


_run_counter = [0]


def tlc(module, cfg=None, workers=4, timeout=900, env=None, simulate=None, depth=None, coverage=False,
        heap="4g", tag="run", deadlock=False, dfs=False, extra=()):
    """Run TLC on spec/<module>.tla with spec/<cfg>.cfg in a private scratch copy of spec/."""
    _run_counter[0] += 1
    scratch = os.path.join(CACHE, "tlc", "%s-%d-%d" % (tag, os.getpid(), _run_counter[0]))
    if os.path.exists(scratch):
        shutil.rmtree(scratch)
    os.makedirs(scratch)
    for f in os.listdir(SPEC):
        if f.endswith(".tla") or f.endswith(".cfg"):
            shutil.copy(os.path.join(SPEC, f), scratch)
    cfg = cfg or module
    jopts = ["-XX:+UseParallelGC", "-Xmx" + heap, "-Xss256m"]
    if dfs:
        jopts.append("-Dtlc2.tool.queue.IStateQueue=StateDeque")
    cmd = ["java"] + jopts + ["-cp", TLA_CP, "tlc2.TLC", "-workers", str(workers), "-metadir",
                                os.path.join(scratch, "states"), "-config", cfg + ".cfg", "-noGenerateSpecTE"]
    if not deadlock:
        cmd.append("-deadlock")  # -deadlock *disables* deadlock checking
    if simulate:
        cmd += ["-simulate", "num=%d" % simulate]
        if depth:
            cmd += ["-depth", str(depth)]
    if coverage:
        cmd += ["-coverage", "1"]
    cmd += list(extra) + [module + ".tla"]
    t0 = time.time()
    e = dict(os.environ)
    if env:
        e.update({k: str(v) for k, v in env.items()})
    try:
        r = subprocess.run(cmd, stdout=subprocess.PIPE, stderr=subprocess.STDOUT, text=True, timeout=timeout,
                           cwd=scratch, env=e)
        res = TlcResult(r.returncode, r.stdout, time.time() - t0)
    except subprocess.TimeoutExpired as ex:
        out = ex.stdout.decode() if isinstance(ex.stdout, bytes) else (ex.stdout or "")
        res = TlcResult(124, out + "\nTIMEOUT", time.time() - t0)
    shutil.rmtree(scratch, ignore_errors=True)
    if res.parse_error:
        raise MachineryError("TLC could not parse %s:\n%s" % (module, res.tail(60)))
    return res


# ------------------------------------------------------------------------------------------------
# the check object

def load_known():
    p = os.path.join(ROOT, "known_findings.json")
    if not os.path.exists(p):
        return []
    with open(p) as f:
        return json.load(f)


class Check:
    def __init__(self, pid, level, tier, seed):
        self.pid = pid
        self.level = level
        self.tier = tier
        self.seed = seed
        self.t0 = time.time()
        self.cov = {"states": 0, "transitions": 0, "traces_validated_against_impl": 0, "evaluations": 0,
                    "distinct_nontrivial": 0, "samples": [], "trusted_base": [], "checker_cmd": "",
                    "rule": "", "tlc_runs": [], "action_coverage": {}}
        self.assumptions = []
        self.violations = []       # (key, path, what)
        self.known_hits = []
        self.known = [k for k in load_known() if k.get("property") == pid]
        self.outdir = os.path.join(OUT, pid)
        if os.path.isdir(self.outdir):
            shutil.rmtree(self.outdir, ignore_errors=True)
        os.makedirs(self.outdir, exist_ok=True)
        os.makedirs(EVID, exist_ok=True)
        self._nontrivial = set()

    # -- paths
    def path(self, name):
        return os.path.join(self.outdir, name)

    # -- accounting
    def add_tlc(self, what, res):
        self.cov["states"] += res.distinct
        self.cov["transitions"] += res.generated
        self.cov["tlc_runs"].append({"what": what, "distinct": res.distinct, "generated": res.generated,
                                     "wall_s": round(res.wall, 2)})
        for k, v in res.coverage.items():
            a = self.cov["action_coverage"].setdefault(k, 0)
            self.cov["action_coverage"][k] = a + v[0]

    def sample(self, s):
        if len(self.cov["samples"]) < 12:
            self.cov["samples"].append(s)

    def sample_each(self, rows, names):
        for name in names:
            for r in rows:
                if r.get("e") == name:
                    self.sample(r)
                    break

    def nontrivial(self, key):
        self._nontrivial.add(key)

    def model(self, module, cfg=None, what=None, expect_violation=None, **kw):
        """Design-level run: TLC must accept (or, for a named as-coded alternative, must produce the
        expected invariant violation - a non-vacuity check of the model itself)."""
        res = tlc(module, cfg, tag=self.pid, **kw)
        self.add_tlc(what or (cfg or module), res)
        if expect_violation:
            if res.invariant != expect_violation:
                raise MachineryError("model %s/%s: expected violation of %s, got:\n%s" %
                                     (module, cfg, expect_violation, res.tail()))
            return res
        if not res.ok or res.rc != 0:
            raise MachineryError("model %s/%s failed (rc=%d):\n%s" % (module, cfg, res.rc, res.tail(60)))
        return res

    def validate(self, module, trace_path, cfg=None, what=None, workers=1, timeout=900, need_actions=(), env=None,
                 **kw):
        """Trace validation. Returns (accepted, matched, res). The trace spec prints
        <<"VT_MATCHED", n>> from its postcondition when it could not consume the whole trace."""
        e = {"TRACE": trace_path}
        if env:
            e.update(env)
        res = tlc(module, cfg, workers=workers, timeout=timeout, env=e, tag=self.pid, **kw)
        self.add_tlc(what or ("trace:" + os.path.basename(trace_path)), res)
        n = 0
        names = {}
        with open(trace_path) as f:
            for line in f:
                n += 1
                m = re.match(r'\{"e":"(\w+)"', line)
                if m:
                    names[m.group(1)] = names.get(m.group(1), 0) + 1
        if res.rc == 0 and res.ok:
            self.cov["traces_validated_against_impl"] += 1
            # every event was consumed by the trace-spec action of its name (the trace spec is a chain): the event
            # counts are the action counts; an action that never fired means the property was not exercised
            for k, v in names.items():
                self.cov["action_coverage"][k] = self.cov["action_coverage"].get(k, 0) + v
            for a in need_actions:
                if a not in names and a[1:] not in names:
                    raise MachineryError("trace spec %s: action %s never taken (vacuous validation)" % (module, a))
            return True, n, res
        if res.rc == 124:
            raise MachineryError("trace validation %s timed out" % module)
        if res.matched is None:
            raise MachineryError("trace validation %s failed without a matched-prefix report:\n%s" %
                                 (module, res.tail(60)))
        return False, res.matched, res

    # -- verdicts
    def violation(self, key, path, what):
        for k in self.known:
            if k.get("status") == "open" and k.get("key") == key:
                if key not in [x[0] for x in self.known_hits]:
                    self.known_hits.append((key, k.get("what", what)))
                return
        self.violations.append((key, path, what))

    def finish(self):
        self.cov["distinct_nontrivial"] = max(self.cov["distinct_nontrivial"], len(self._nontrivial))
        ev = {
            "property_id": self.pid, "tier": self.tier, "seed": self.seed, "level": self.level,
            "coverage": self.cov, "assumptions": self.assumptions, "wall_s": round(time.time() - self.t0, 2),
            "violations": len(self.violations),
        }
        ev["coverage"]["known_findings_hit"] = [k for k, _ in self.known_hits]
        ev["coverage"]["include_hash"] = include_hash()
        with open(os.path.join(EVID, self.pid + ".json"), "w") as f:
            json.dump(ev, f, indent=1, sort_keys=True)
        for key, what in self.known_hits:
            print("KNOWN-FINDING: property=%s %s (%s)" % (self.pid, what, key))
        seen = set()
        for key, path, what in self.violations:
            if (key, path) in seen:
                continue
            seen.add((key, path))
            print("VIOLATION property=%s replay=%s" % (self.pid, path))
            print("  what: %s [%s]" % (what, key))
        sys.stdout.flush()
        return 1 if self.violations else 0


def read_ndjson(path):
    with open(path) as f:
        return [json.loads(l) for l in f if l.strip()]


def write_ndjson(path, rows):
    with open(path, "w") as f:
        for r in rows:
            f.write(json.dumps(r, separators=(",", ":")) + "\n")
